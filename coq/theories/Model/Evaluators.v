(* Model of the evaluator classes of artap/operators.py (lines 38-198, the repaired code: F2, F11, F14):
   Evaluator (base), WorstCaseEvaluator and GradientEvaluator, as used through
   Algorithm.evaluate with EvaluatorType.WORST_CASE / GRADIENT, serial path (max_processes = 1).

   Objects.  Every `Individual(...)` the code creates is a cell of a heap; the cell number plays
   the role of the object identity (it is also the order of creation, like Individual.counter).
   The evaluator's two work lists `self.individuals` and `self.to_evaluate` hold cell numbers,
   exactly as the Python lists hold references.

   External behaviour is an input (Section variable), never an axiom:
     f       Problem.evaluate: design vector -> list of cost values (the user's objective);
     sgn     the numeric part of Individual.calc_signed_costs (sign * round(cost, precision));
     infeas  the last entry of costs_signed, `not features["feasible"]`, as Job.evaluate leaves it;
     add sub mul div abs zero one mone delta   the arithmetic (binary64 in the correspondence run);
     psum    Python's builtin sum() (CPython 3.12 sums exact floats with Neumaier compensation,
             anything else from the left; both instances are in Run/C14Run.v).
     fails   the schedule of TRANSIENT failures of the objective (TimeoutError / RuntimeError), by
             GLOBAL call number (= number of earlier objective calls of the run, failed ones included),
             as the oracle tape of Model/Job.v (e_obj / e_reroll): `fails k = Some w` = call number k
             raises and the vector Job then draws with gen_vector is w; `None` = the call returns.
   Job.evaluate is abstracted to its retry loop over that tape: at most five attempts; a failed
   attempt replaces the individual's vector by the re-drawn one (state EMPTY again, costs kept); the
   successful attempt does "costs := f vector; costs_signed := sgn costs ++ [infeas vector]; state :=
   EVALUATED" (constraints, data-store sync, the failed copies in problem.failed: C05/C06).  After
   a fifth failure in a row the code raises RuntimeError("To many failures"): excluded here (the
   theorems assume it does not happen, the run driver fails closed); the model leaves the individual
   EMPTY with its last re-drawn vector.

   Ghost state (not in the code, observed by the harness through recording wrappers):
     s_log   the vector of every call of the objective, in call order;
     s_proc  one entry per run() call: the designs post-processed by that call, in order. *)
From Coq Require Import List Arith Bool.
Import ListNotations.
Local Open Scope nat_scope.

Section Evaluators.
  Variable T : Type.
  Variables (add sub mul div : T -> T -> T) (abs : T -> T).
  Variables (zero one mone delta : T).
  Variable psum : list T -> T.               (* Python's builtin sum() on a list of numbers *)
  Variable m : nat.                          (* number of objectives declared in problem.costs *)
  Variable tols : list T.                    (* parameters[i]['tol'] *)
  Variable f : list T -> list T.
  Variable sgn : list T -> list T.
  Variable infeas : list T -> bool.
  Variable fails : nat -> option (list T).   (* transient failures by global call number, with the re-drawn vector *)

  (* an entry of costs_signed: numbers followed by the feasibility flag *)
  Inductive sval := SV (t : T) | SB (b : bool).
  Inductive dstate := EMPTY | EVALUATED.

  Record design := {
    d_vec : list T;
    d_costs : list T;
    d_signed : list sval;
    d_state : dstate;
    d_parents : list nat;
    d_children : list nat;
    d_sens : option T;                 (* features['sensitivity'] *)
    d_grad : option (list T);          (* features['gradient'] *)
    d_fail : nat }.                    (* ghost: failed attempts of Job.evaluate on this individual *)

  (* Individual(vector) *)
  Definition fresh (v : list T) : design :=
    {| d_vec := v; d_costs := []; d_signed := []; d_state := EMPTY; d_parents := []; d_children := [];
       d_sens := None; d_grad := None; d_fail := 0 |}.

  Definition set_children (d : design) (cs : list nat) : design :=
    {| d_vec := d_vec d; d_costs := d_costs d; d_signed := d_signed d; d_state := d_state d;
       d_parents := d_parents d; d_children := cs; d_sens := d_sens d; d_grad := d_grad d; d_fail := d_fail d |}.
  Definition set_parents (d : design) (ps : list nat) : design :=
    {| d_vec := d_vec d; d_costs := d_costs d; d_signed := d_signed d; d_state := d_state d;
       d_parents := ps; d_children := d_children d; d_sens := d_sens d; d_grad := d_grad d; d_fail := d_fail d |}.
  (* individual.vector = VectorAndNumbers.gen_vector(parameters) after a failed attempt *)
  Definition set_retry (d : design) (v : list T) : design :=
    {| d_vec := v; d_costs := d_costs d; d_signed := d_signed d; d_state := d_state d;
       d_parents := d_parents d; d_children := d_children d; d_sens := d_sens d; d_grad := d_grad d;
       d_fail := S (d_fail d) |}.
  Definition set_eval (d : design) (c : list T) (sc : list sval) : design :=
    {| d_vec := d_vec d; d_costs := c; d_signed := sc; d_state := EVALUATED;
       d_parents := d_parents d; d_children := d_children d; d_sens := d_sens d; d_grad := d_grad d; d_fail := d_fail d |}.
  Definition set_sens (d : design) (c : list T) (sc : list sval) (x : T) : design :=
    {| d_vec := d_vec d; d_costs := c; d_signed := sc; d_state := d_state d;
       d_parents := d_parents d; d_children := d_children d; d_sens := Some x; d_grad := d_grad d; d_fail := d_fail d |}.
  Definition set_grad (d : design) (g : list T) : design :=
    {| d_vec := d_vec d; d_costs := d_costs d; d_signed := d_signed d; d_state := d_state d;
       d_parents := d_parents d; d_children := d_children d; d_sens := d_sens d; d_grad := Some g; d_fail := d_fail d |}.

  (* the heap of Individual objects *)
  Record heap := { h_next : nat; h_get : nat -> design }.
  Definition hupd (h : heap) (id : nat) (d : design) : heap :=
    {| h_next := h_next h; h_get := fun j => if j =? id then d else h_get h j |}.
  Definition alloc (h : heap) (v : list T) : nat * heap :=
    (h_next h, {| h_next := S (h_next h); h_get := fun j => if j =? h_next h then fresh v else h_get h j |}).
  Definition hempty : heap := {| h_next := 0; h_get := fun _ => fresh [] |}.

  Record st := {
    s_heap : heap;
    s_inds : list nat;                 (* self.individuals *)
    s_todo : list nat;                 (* self.to_evaluate *)
    s_log : list (list T);
    s_proc : list (list nat) }.

  Definition init : st := {| s_heap := hempty; s_inds := []; s_todo := []; s_log := []; s_proc := [] |}.

  (* ---- list helpers mirroring the Python list operations ---- *)
  (* v[i] = x on a copy *)
  Fixpoint set_nth (i : nat) (x : T) (v : list T) : list T :=
    match v, i with
    | [], _ => []
    | _ :: v', 0 => x :: v'
    | y :: v', S i' => y :: set_nth i' x v'
    end.
  (* l.insert(-1, x): before the last element; on an empty list it appends *)
  Fixpoint insert_m1 {A : Type} (x : A) (l : list A) : list A :=
    match l with
    | [] => [x]
    | [y] => [x; y]
    | y :: l' => y :: insert_m1 x l'
    end.
  (* l[-1] = x and l[-2] = x (left alone when the list is too short: not reachable, see the proofs) *)
  Fixpoint set_last {A : Type} (x : A) (l : list A) : list A :=
    match l with
    | [] => []
    | [_] => [x]
    | y :: l' => y :: set_last x l'
    end.
  Fixpoint set_m2 {A : Type} (x : A) (l : list A) : list A :=
    match l with
    | [_; z] => [x; z]
    | y :: l' => y :: set_m2 x l'
    | [] => []
    end.
  (* costs[0] *)
  Definition c0 (c : list T) : T := nth 0 c zero.

  (* ---- Evaluator (base class) ---- *)
  (* Job.evaluate on one individual: `for i in range(5)`, every call (failed or not) recorded in the
     ghost log; the global call number of an attempt is the length of the log before it *)
  Fixpoint job_att (fuel : nat) (hl : heap * list (list T)) (id : nat) : heap * list (list T) :=
    match fuel with
    | 0 => hl                          (* the code raises RuntimeError here (excluded, see the header) *)
    | S fuel' =>
        let '(h, log) := hl in
        let d := h_get h id in
        match fails (length log) with
        | None =>
            let c := f (d_vec d) in
            (hupd h id (set_eval d c (map SV (sgn c) ++ [SB (infeas (d_vec d))])), log ++ [d_vec d])
        | Some w => job_att fuel' (hupd h id (set_retry d w), log ++ [d_vec d]) id
        end
    end.
  Definition job (hl : heap * list (list T)) (id : nat) : heap * list (list T) := job_att 5 hl id.

  (* Evaluator.evaluate_serial: only individuals in state EMPTY are handed to the job *)
  Fixpoint eval_serial (hl : heap * list (list T)) (ids : list nat) : heap * list (list T) :=
    match ids with
    | [] => hl
    | id :: ids' =>
        match d_state (h_get (fst hl) id) with
        | EMPTY => eval_serial (job hl id) ids'
        | EVALUATED => eval_serial hl ids'
        end
    end.

  (* the inner loops of both add() methods: for each new vector, Individual(vector) is appended to
     individual.children and gets individual as its only parent *)
  Fixpoint alloc_children (h : heap) (pid : nat) (vs : list (list T)) : heap :=
    match vs with
    | [] => h
    | v :: vs' =>
        let '(cid, h1) := alloc h v in
        let h2 := hupd h1 pid (set_children (h_get h1 pid) (d_children (h_get h1 pid) ++ [cid])) in
        let h3 := hupd h2 cid (set_parents (h_get h2 cid) (d_parents (h_get h2 cid) ++ [pid])) in
        alloc_children h3 pid vs'
    end.

  (* ---- WorstCaseEvaluator ---- *)
  (* vector = individual.vector.copy(); vector[i] += sign * parameter['tol'] *)
  Definition wc_child_vec (v : list T) (i : nat) (sign : T) : list T :=
    set_nth i (add (nth i v zero) (mul sign (nth i tols zero))) v.
  (* for i in range(len(vector)): for sign in [-1, 1] *)
  Definition wc_child_vecs (v : list T) : list (list T) :=
    flat_map (fun i => [wc_child_vec v i mone; wc_child_vec v i one]) (seq 0 (length v)).

  Definition wc_add (s : st) (id : nat) : st :=
    let h := s_heap s in
    let h1 := hupd h id (set_children (h_get h id) []) in        (* individual.children = [] *)
    let h2 := alloc_children h1 id (wc_child_vecs (d_vec (h_get h id))) in
    {| s_heap := h2;
       s_inds := s_inds s ++ [id];                               (* self.individuals.append(individual) *)
       s_todo := (s_todo s ++ [id]) ++ d_children (h_get h2 id); (* to_evaluate.append / extend *)
       s_log := s_log s; s_proc := s_proc s |}.

  (* |f(x) - f(child)| on the FIRST objective, summed over the children *)
  Definition wc_sens (h : heap) (d : design) : T :=
    psum (map (fun c => abs (sub (c0 (d_costs d)) (c0 (d_costs (h_get h c))))) (d_children d)).

  (* body of the loop of run() for one individual; self.n = m + 1 *)
  Definition wc_post (h : heap) (id : nat) : heap :=
    let d := h_get h id in
    let x := wc_sens h d in
    if S m <=? length (d_costs d)                   (* len(individual.costs) >= self.n, the F11 repair *)
    then hupd h id (set_sens d (set_last x (d_costs d)) (set_m2 (SV x) (d_signed d)) x)
    else hupd h id (set_sens d (d_costs d ++ [x]) (insert_m1 (SV x) (d_signed d)) x).

  Definition wc_run (s : st) : st :=
    let '(h1, log1) := eval_serial (s_heap s, s_log s) (s_todo s) in   (* super().evaluate(self.to_evaluate) *)
    let h2 := fold_left wc_post (s_inds s) h1 in
    {| s_heap := h2; s_inds := []; s_todo := [];                        (* the F2 repair: both lists are reset *)
       s_log := log1; s_proc := s_proc s ++ [s_inds s] |}.

  (* WorstCaseEvaluator.evaluate(individuals) *)
  Definition wc_evaluate (s : st) (ids : list nat) : st :=
    let '(h1, log1) := eval_serial (s_heap s, s_log s) ids in          (* super().evaluate(individuals) *)
    let s1 := {| s_heap := h1; s_inds := s_inds s; s_todo := s_todo s; s_log := log1; s_proc := s_proc s |} in
    wc_run (fold_left wc_add ids s1).

  (* ---- GradientEvaluator ---- *)
  Definition g_child_vec (v : list T) (i : nat) : list T := set_nth i (add (nth i v zero) delta) v.
  Definition g_child_vecs (v : list T) : list (list T) := map (g_child_vec v) (seq 0 (length v)).

  Definition g_add (s : st) (id : nat) : st :=
    let h := s_heap s in
    let h1 := hupd h id (set_children (h_get h id) []) in
    let h2 := alloc_children h1 id (g_child_vecs (d_vec (h_get h id))) in
    {| s_heap := h2;
       s_inds := s_inds s ++ [id];
       s_todo := (s_todo s ++ [id]) ++ d_children (h_get h2 id);
       s_log := s_log s; s_proc := s_proc s |}.

  (* gradient[i] = (child.costs[0] - individual.costs[0]) / self.delta *)
  Definition g_post (h : heap) (id : nat) : heap :=
    let d := h_get h id in
    hupd h id (set_grad d (map (fun c => div (sub (c0 (d_costs (h_get h c))) (c0 (d_costs d))) delta) (d_children d))).

  (* run(): `self.individuals[0]` raises IndexError on an empty work list (None) *)
  Definition g_run (s : st) : option st :=
    match s_inds s with
    | [] => None
    | _ =>
        let '(h1, log1) := eval_serial (s_heap s, s_log s) (s_todo s) in
        let h2 := fold_left g_post (s_inds s) h1 in
        Some {| s_heap := h2; s_inds := []; s_todo := []; s_log := log1; s_proc := s_proc s ++ [s_inds s] |}
    end.

  (* GradientEvaluator.evaluate(individuals), the F14 repair: the designs are evaluated (and, after a
     transient failure, re-drawn) BEFORE their displaced neighbours are built, as in the worst case *)
  Definition g_evaluate (s : st) (ids : list nat) : option st :=
    let '(h1, log1) := eval_serial (s_heap s, s_log s) ids in          (* super().evaluate(individuals) *)
    let s1 := {| s_heap := h1; s_inds := s_inds s; s_todo := s_todo s; s_log := log1; s_proc := s_proc s |} in
    g_run (fold_left g_add ids s1).

  (* ---- a run: the algorithm creates the designs of a generation, then calls evaluate on them ---- *)
  Fixpoint new_designs (h : heap) (vs : list (list T)) : heap * list nat :=
    match vs with
    | [] => (h, [])
    | v :: vs' => let '(id, h1) := alloc h v in
                  let '(h2, ids) := new_designs h1 vs' in (h2, id :: ids)
    end.

  Definition with_heap (s : st) (h : heap) : st :=
    {| s_heap := h; s_inds := s_inds s; s_todo := s_todo s; s_log := s_log s; s_proc := s_proc s |}.

  (* result: final state and, per batch, the cells of the submitted designs *)
  Fixpoint wc_batches (s : st) (bs : list (list (list T))) : st * list (list nat) :=
    match bs with
    | [] => (s, [])
    | b :: bs' =>
        let '(h1, ids) := new_designs (s_heap s) b in
        let '(s2, idss) := wc_batches (wc_evaluate (with_heap s h1) ids) bs' in
        (s2, ids :: idss)
    end.

  Fixpoint g_batches (s : st) (bs : list (list (list T))) : option (st * list (list nat)) :=
    match bs with
    | [] => Some (s, [])
    | b :: bs' =>
        let '(h1, ids) := new_designs (s_heap s) b in
        match g_evaluate (with_heap s h1) ids with
        | None => None
        | Some s1 => match g_batches s1 bs' with
                     | None => None
                     | Some (s2, idss) => Some (s2, ids :: idss)
                     end
        end
    end.
  (* ---- histories in which a batch may also contain designs that are not fresh ----
     New v : Individual(v), created by the algorithm for this batch;
     Pre v : Individual(v) that has been evaluated by a plain Evaluator (Job.evaluate) before it is
             submitted: state EVALUATED, plain costs, never post-processed;
     Old k : the k-th design created so far in the run (counting New and Pre items of EARLIER
             batches, from 0), handed to evaluate() once more. *)
  Inductive item := New (v : list T) | Pre (v : list T) | Old (k : nat).

  (* result: heap and log, the cells of the batch in order, the cells created for it *)
  Fixpoint mk_batch (hl : heap * list (list T)) (created : list nat) (items : list item)
    : (heap * list (list T)) * list nat * list nat :=
    match items with
    | [] => (hl, [], [])
    | New v :: r =>
        let '(id, h1) := alloc (fst hl) v in
        let '(hl2, ids, nw) := mk_batch (h1, snd hl) created r in (hl2, id :: ids, id :: nw)
    | Pre v :: r =>
        let '(id, h1) := alloc (fst hl) v in
        let '(hl2, ids, nw) := mk_batch (job (h1, snd hl) id) created r in (hl2, id :: ids, id :: nw)
    | Old k :: r =>
        let '(hl2, ids, nw) := mk_batch hl created r in (hl2, nth k created 0 :: ids, nw)
    end.

  Definition with_hl (s : st) (hl : heap * list (list T)) : st :=
    {| s_heap := fst hl; s_inds := s_inds s; s_todo := s_todo s; s_log := snd hl; s_proc := s_proc s |}.

  Fixpoint wc_hist (s : st) (created : list nat) (bs : list (list item)) : st * list (list nat) :=
    match bs with
    | [] => (s, [])
    | b :: bs' =>
        let '(hl, ids, nw) := mk_batch (s_heap s, s_log s) created b in
        let '(s2, idss) := wc_hist (wc_evaluate (with_hl s hl) ids) (created ++ nw) bs' in
        (s2, ids :: idss)
    end.

  Fixpoint g_hist (s : st) (created : list nat) (bs : list (list item)) : option (st * list (list nat)) :=
    match bs with
    | [] => Some (s, [])
    | b :: bs' =>
        let '(hl, ids, nw) := mk_batch (s_heap s, s_log s) created b in
        match g_evaluate (with_hl s hl) ids with
        | None => None
        | Some s1 => match g_hist s1 (created ++ nw) bs' with
                     | None => None
                     | Some (s2, idss) => Some (s2, ids :: idss)
                     end
        end
    end.

  (* static well-formedness of a history: within a batch the Old indices are distinct and refer to
     designs created in earlier batches *)
  Fixpoint olds (items : list item) : list nat :=
    match items with [] => [] | Old k :: r => k :: olds r | _ :: r => olds r end.
  Fixpoint new_vecs (items : list item) : list (list T) :=
    match items with [] => [] | New v :: r => v :: new_vecs r | Pre v :: r => v :: new_vecs r | Old _ :: r => new_vecs r end.
  Fixpoint wf_hist (ncreated : nat) (bs : list (list item)) : Prop :=
    match bs with
    | [] => True
    | b :: bs' => NoDup (olds b) /\ Forall (fun k => k < ncreated) (olds b) /\
                  wf_hist (ncreated + length (new_vecs b)) bs'
    end.
  (* the vector of an item, given the vectors of the designs created so far *)
  Definition item_vec (cvecs : list (list T)) (it : item) : list T :=
    match it with New v => v | Pre v => v | Old k => nth k cvecs [] end.
  Fixpoint hist_vecs (cvecs : list (list T)) (bs : list (list item)) : list (list (list T)) :=
    match bs with
    | [] => []
    | b :: bs' => map (item_vec cvecs) b :: hist_vecs (cvecs ++ new_vecs b) bs'
    end.
End Evaluators.

Arguments SV {T} _.
Arguments SB {T} _.
Arguments New {T} _.
Arguments Pre {T} _.
Arguments Old {T} _.


