(* Model of the particle-swarm bookkeeping of artap/algorithm_swarm.py (property C18):
     SwarmAlgorithm.update_particle_best, SwarmAlgorithm.speed_constriction,
     SwarmAlgorithm.update_velocity (used by OMOPSO and SMPSO) and PSOGA.update_velocity,
     OMOPSO / SMPSO / PSOGA.update_position (one particle: Model/Variation.v position_update),
     OMOPSO / SMPSO / PSOGA.update_global_best seen from the leaders archive: a list of
     Archive.add calls followed by Archive.truncate(max_population_size, 'crowding_distance')
     (Model/Archive.v).
   Executable definitions only, mirroring the code as it is.  The order is a boolean `ltb`
   (Python's `<`), the arithmetic operators are parameters (binary64 operations in Run/C18Run.v),
   every random draw (random.uniform), the value of khi(c1, c2) (computed with `**`), the leader
   returned by select_leader() and the crowding distances read by truncate are inputs. *)
From Coq Require Import List Bool ZArith Arith.
From Artap Require Import Base.StableSort Model.Archive Model.Variation.
Import ListNotations.

Section Swarm.
  Context {T : Type} (ltb : T -> T -> bool).

  (* costs_signed = (objective values, feasibility marker), as in Model/Dominance.v *)
  Definition scost : Type := (list T * Z)%type.

  (* ------------------------------------------------------------------------------------------
     update_particle_best(population):
         for particle in population:
             flag = self.dominance.compare(particle.costs_signed, particle.features['best_cost'])
             if flag != 2:
                 particle.features['best_cost'] = particle.costs_signed
                 particle.features['best_vector'] = particle.vector
     `features` is a dict object; PSOGA.run makes two particles share one dict
     (offspring1.features = first_selected.features), so the personal-best records live in a store
     indexed by dict and a particle names its dict (p_feat). *)
  Record particle : Type := { p_cost : scost; p_vec : list T; p_feat : nat }.
  Definition pbest : Type := (scost * list T)%type.          (* best_cost, best_vector *)

  Section PBest.
    Variable cmp : scost -> scost -> nat.                    (* self.dominance.compare *)

    Definition pbest_step (p : particle) (b : pbest) : pbest :=
      if Nat.eqb (cmp (p_cost p) (fst b)) 2 then b else (p_cost p, p_vec p).

    Fixpoint set_nth {A : Type} (n : nat) (x : A) (l : list A) : list A :=
      match n, l with
      | O, _ :: t => x :: t
      | S n', h :: t => h :: set_nth n' x t
      | _, [] => []
      end.

    Fixpoint update_particle_best (pop : list particle) (store : list pbest) : option (list pbest) :=
      match pop with
      | [] => Some store
      | p :: pop' =>
          match nth_error store (p_feat p) with
          | Some b => update_particle_best pop' (set_nth (p_feat p) (pbest_step p b) store)
          | None => None
          end
      end.
  End PBest.

  (* ------------------------------------------------------------------------------------------
     speed_constriction(velocity, u_bound, l_bound):
         delta_i = (u_bound - l_bound) / 2.
         velocity = min(velocity, delta_i)
         velocity = max(velocity, -delta_i)                                                     *)
  Variables (add sub mul div : T -> T -> T) (neg : T -> T) (two : T).

  Definition half_range (ub lb : T) : T := div (sub ub lb) two.
  Definition speed_constriction (v ub lb : T) : T :=
    let delta := half_range ub lb in
    pmax ltb (pmin ltb v delta) (neg delta).

  (* update_velocity, one particle.  The draws of one particle, in call order:
         global_best = self.select_leader()
         r1, r2, c1, c2 = round(uniform(..), 1) x 4            (d_r1 .. d_c2: the rounded values)
         for i in range(len(vector)):
             SwarmAlgorithm:  momentum = self.inertia_weight() * x[i]        (one uniform per i: d_w)
                              v = self.khi(c1, c2) * (momentum + v_cog + v_soc)
             PSOGA:           w = self.khi(c1, c2); momentum = w * x[i]
                              v = momentum + v_cog + v_soc
             v_cog = c1 * r1 * (best_vector[i] - x[i]);  v_soc = c2 * r2 * (global_best.vector[i] - x[i])
             velocity[i] = self.speed_constriction(v, bounds[1], bounds[0])                      *)
  Record draws : Type := { d_r1 : T; d_r2 : T; d_c1 : T; d_c2 : T; d_khi : T; d_w : list T }.
  Inductive vkind : Type := VBase | VPsoga.

  Definition raw_velocity (k : vkind) (d : draws) (w x b g : T) : T :=
    let v_cog := mul (mul (d_c1 d) (d_r1 d)) (sub b x) in
    let v_soc := mul (mul (d_c2 d) (d_r2 d)) (sub g x) in
    match k with
    | VBase => mul (d_khi d) (add (add (mul w x) v_cog) v_soc)
    | VPsoga => add (add (mul (d_khi d) x) v_cog) v_soc
    end.

  (* the inertia weight of the next coordinate: a fresh draw (base class) or khi (PSOGA, no draw) *)
  Definition next_weight (k : vkind) (d : draws) (ws : list T) : option (T * list T) :=
    match k, ws with
    | VBase, w :: ws' => Some (w, ws')
    | VBase, [] => None
    | VPsoga, _ => Some (d_khi d, ws)
    end.

  (* params = [(lb, ub)]; xs = vector, bs = best_vector, gs = leader's vector; a missing parameter,
     best or leader coordinate is an IndexError (None); all weight draws must be consumed *)
  Fixpoint velocity_coords (k : vkind) (d : draws) (ws : list T) (params : list (T * T))
           (xs bs gs : list T) {struct xs} : option (list T) :=
    match xs with
    | [] => match ws with [] => Some [] | _ => None end
    | x :: xs' =>
        match params, bs, gs, next_weight k d ws with
        | (lb, ub) :: ps, b :: bs', g :: gs', Some (w, ws') =>
            ocons (speed_constriction (raw_velocity k d w x b g) ub lb)
                  (velocity_coords k d ws' ps xs' bs' gs')
        | _, _, _, _ => None
        end
    end.

  Record vparticle : Type := { v_draws : draws; v_vec : list T; v_best : list T; v_leader : list T }.

  Definition velocity_particle (k : vkind) (params : list (T * T)) (p : vparticle) : option (list T) :=
    velocity_coords k (v_draws p) (d_w (v_draws p)) params (v_vec p) (v_best p) (v_leader p).

  Fixpoint all_some {A : Type} (l : list (option A)) : option (list A) :=
    match l with
    | [] => Some []
    | Some a :: l' => match all_some l' with Some r => Some (a :: r) | None => None end
    | None :: _ => None
    end.

  (* update_velocity(individuals): the new features['velocity'] of every particle, in order *)
  Definition update_velocity (k : vkind) (params : list (T * T)) (swarm : list vparticle)
    : option (list (list T)) :=
    all_some (map (velocity_particle k params) swarm).

  (* update_position(individuals): (vector, velocity) of every particle after the move;
     bounce = fun v => v * -1 (OMOPSO, PSOGA) or fun v => v * 0.001 (SMPSO) *)
  Definition update_position (bounce : T -> T) (params : list (T * T)) (swarm : list (list T * list T))
    : option (list (list T * list T)) :=
    all_some (map (fun p => position_update ltb add bounce params (fst p) (snd p)) swarm).
End Swarm.

Arguments p_cost {T} _.
Arguments p_vec {T} _.
Arguments p_feat {T} _.
Arguments d_r1 {T} _.
Arguments d_r2 {T} _.
Arguments d_c1 {T} _.
Arguments d_c2 {T} _.
Arguments d_khi {T} _.
Arguments d_w {T} _.
Arguments v_draws {T} _.
Arguments v_vec {T} _.
Arguments v_best {T} _.
Arguments v_leader {T} _.

(* ----------------------------------------------------------------------------------------------
   update_global_best(swarm), seen from self.leaders:
       OMOPSO:        for item in pareto: self.leaders.append(item)      (front 1 of the swarm)
       SMPSO, PSOGA:  self.leaders += swarm                              (in the swarm's list order,
                                                                          which crowding_distance() has sorted)
       self.leaders.truncate(self.options['max_population_size'], 'crowding_distance')
   A generation is the list of individuals offered (in call order) and the table K that truncate
   reads at that moment (features['crowding_distance'] of each member). *)
Section Leaders.
  Context {C K : Type} (cmp : C -> C -> nat) (ceq : C -> C -> bool) (key_leb : K -> C -> C -> bool).

  Definition generation (size : nat) (a : list C) (g : list C * K) : list C :=
    archive_truncate (key_leb (snd g)) (archive_adds cmp ceq a (fst g)) size true.

  Definition generations (size : nat) (a : list C) (gs : list (list C * K)) : list C :=
    fold_left (generation size) gs a.

  (* contents of self.leaders after every generation *)
  Fixpoint leaders_trace (size : nat) (a : list C) (gs : list (list C * K)) : list (list C) :=
    match gs with
    | [] => []
    | g :: gs' => let a' := generation size a g in a' :: leaders_trace size a' gs'
    end.
End Leaders.
