(* C06: the replacement design of Job.evaluate, i.e. utils.py `VectorAndNumbers.gen_vector` as it reads the
   parameter descriptions, one description at a time:

     for parameter in design_parameters:
         bounds    = parameter['bounds']         if 'bounds' in parameter          else [iv * 0.5, iv * 1.5]   (iv = parameter['initial_value'])
         precision = parameter['precision']      if 'precision' in parameter       else None
         p_type    = parameter['parameter_type'] if 'parameter_type' in parameter  else "real"
         precision is None:  gen_number(bounds=bounds, p_type=p_type)      (precision 0 -> 1e-12; "integer": int(number), truncation towards zero)
         otherwise:          gen_number(bounds, precision)                 (QUIRK: p_type is not passed on, the number stays real)

   Every key is looked up in the description of THE parameter the coordinate belongs to; nothing is carried
   from one parameter to the next.  (`bounds is None` cannot happen after the first test, those branches are dead.)

   gen_number itself is Model/Variation.v (C08, read-only): exact rationals, round half to even, the binary64
   value of 1e-12 as default step.  A description is modelled by the keys gen_vector looks at. *)
From Coq Require Import List Bool ZArith QArith Qround.
From Artap Require Import Model.Variation.
Import ListNotations.
Local Open Scope Q_scope.

Record pdesc := mk_pd {
  pd_bounds : option (Q * Q);        (* parameter['bounds'] when the key is present *)
  pd_init : Q;                       (* parameter['initial_value'] (read only when 'bounds' is absent) *)
  pd_prec : option Q;                (* parameter['precision'] when the key is present *)
  pd_int : bool                      (* parameter['parameter_type'] == "integer" *)
}.

Definition pd_lb (d : pdesc) : Q := match pd_bounds d with Some (lb, _) => lb | None => pd_init d * (1 # 2) end.
Definition pd_ub (d : pdesc) : Q := match pd_bounds d with Some (_, ub) => ub | None => pd_init d * (3 # 2) end.
(* the precision gen_number works with: the declared one, 0 (= default 1e-12) when none is declared *)
Definition pd_step (d : pdesc) : Q := match pd_prec d with Some p => p | None => 0 end.

(* what C08's gen_vector takes: (lb, ub, precision) of this parameter, and of no other *)
Definition spec_of (d : pdesc) : Q * Q * Q := (pd_lb d, pd_ub d, pd_step d).

(* int(number): truncation towards zero *)
Definition Qtrunc (x : Q) : Z := if Qle_bool 0 x then Qfloor x else Qceiling x.

(* is the number truncated?  only on the path without a declared precision *)
Definition truncates (d : pdesc) : bool := match pd_prec d with None => pd_int d | Some _ => false end.

Definition gen_coord (d : pdesc) (r : Q) : Q :=
  let x := gen_number r (pd_lb d) (pd_ub d) (pd_step d) in
  if truncates d then inject_Z (Qtrunc x) else x.

(* one draw per parameter, in parameter order; None when the number of draws differs *)
Fixpoint gen_vector_desc (ds : list pdesc) (draws : list Q) : option (list Q) :=
  match ds, draws with
  | [], [] => Some []
  | d :: ds', r :: rs =>
      match gen_vector_desc ds' rs with Some l => Some (gen_coord d r :: l) | None => None end
  | _, _ => None
  end.

(* the tidied variant the red team proposed (defaults set once before the loop, overwritten only when a parameter
   declares the key): kept as a definition so that Props/C06.v can exhibit an input on which it leaves the box *)
Fixpoint gen_vector_leaky (prec : option Q) (int : bool) (ds : list pdesc) (draws : list Q) : option (list Q) :=
  match ds, draws with
  | [], [] => Some []
  | d :: ds', r :: rs =>
      let prec' := match pd_prec d with Some p => Some p | None => prec end in
      let int' := orb (pd_int d) int in
      let d' := mk_pd (pd_bounds d) (pd_init d) prec' int' in
      match gen_vector_leaky prec' int' ds' rs with Some l => Some (gen_coord d' r :: l) | None => None end
  | _, _ => None
  end.
