(* Model of artap/surrogate.py: SurrogateModelEval.evaluate (pass-through) and
   SurrogateModelPredict.evaluate / evaluate_individual (predicting wrapper, the base of
   SurrogateModelScikit and SurrogateModelSMT), as state machines over evaluation requests.

   V = design vector, C = objective value (cost list); both are opaque to the wrapper.
   A request carries the vector, what the problem's predict hook would answer if it were
   consulted (None = declines) and what the true objective returns for the vector.
   External behaviour is an input of the model: the objective and the hook through the
   request, `train()` through `train_out` (k-th call of train leaves `trained` = train_out k;
   SurrogateModelScikit.train ends in `self.trained = True`, SurrogateModelSMT.train too, but
   nothing below depends on that), `"predict" in dir(problem)` through `has_hook`.

   The three logs are ghost observations made at the moment of the external call; the harness
   records the same numbers inside the scripted objective / hook / regressor.fit. *)
From Coq Require Import List ZArith Bool.
Import ListNotations.
Local Open Scope nat_scope.

Section Surrogate.
  Context {V C : Type}.

  Record req := { r_vec : V; r_hook : option C; r_true : C }.

  Record state := {
    trained : bool;
    eval_counter : nat;
    predict_counter : nat;
    x_data : list V;
    y_data : list C;
    train_log : list (nat * nat * nat);   (* per train() call: eval_counter, |x_data|, |y_data| at the call *)
    obj_log : list (V * nat * nat);       (* per objective call: vector, |x_data|, eval_counter at the call *)
    hook_log : list (V * nat * nat) }.    (* per hook call: vector, eval_counter, predict_counter at the call *)

  (* Raised = the ZeroDivisionError of `self.eval_counter % self.train_step` for train_step = 0 *)
  Inductive outcome := Ret (c : C) | Raised.
  (* which branch answered the request (ghost label, tied to the observables by the theorems) *)
  Inductive kind := KPred | KEval.

  Definition init (t : bool) : state :=
    {| trained := t; eval_counter := 0; predict_counter := 0; x_data := []; y_data := [];
       train_log := []; obj_log := []; hook_log := [] |}.

  Definition log_obj (s : state) (v : V) : state :=
    {| trained := trained s; eval_counter := eval_counter s; predict_counter := predict_counter s;
       x_data := x_data s; y_data := y_data s; train_log := train_log s;
       obj_log := obj_log s ++ [(v, length (x_data s), eval_counter s)]; hook_log := hook_log s |}.

  Definition log_hook (s : state) (v : V) : state :=
    {| trained := trained s; eval_counter := eval_counter s; predict_counter := predict_counter s;
       x_data := x_data s; y_data := y_data s; train_log := train_log s; obj_log := obj_log s;
       hook_log := hook_log s ++ [(v, eval_counter s, predict_counter s)] |}.

  (* self.eval_counter += 1 *)
  Definition count_eval (s : state) : state :=
    {| trained := trained s; eval_counter := S (eval_counter s); predict_counter := predict_counter s;
       x_data := x_data s; y_data := y_data s; train_log := train_log s; obj_log := obj_log s;
       hook_log := hook_log s |}.

  (* self.problem.surrogate.predict_counter += 1 *)
  Definition count_pred (s : state) : state :=
    {| trained := trained s; eval_counter := eval_counter s; predict_counter := S (predict_counter s);
       x_data := x_data s; y_data := y_data s; train_log := train_log s; obj_log := obj_log s;
       hook_log := hook_log s |}.

  (* add_data: x_data.append(x); y_data.append(y) *)
  Definition add_data (s : state) (x : V) (y : C) : state :=
    {| trained := trained s; eval_counter := eval_counter s; predict_counter := predict_counter s;
       x_data := x_data s ++ [x]; y_data := y_data s ++ [y]; train_log := train_log s;
       obj_log := obj_log s; hook_log := hook_log s |}.

  Section Predict.
    Variable train_step : Z.
    Variable has_hook : bool.
    Variable train_out : nat -> bool.

    (* self.train(): the oracle decides what `trained` is afterwards *)
    Definition do_train (s : state) : state :=
      {| trained := train_out (length (train_log s));
         eval_counter := eval_counter s; predict_counter := predict_counter s;
         x_data := x_data s; y_data := y_data s;
         train_log := train_log s ++ [(eval_counter s, length (x_data s), length (y_data s))];
         obj_log := obj_log s; hook_log := hook_log s |}.

    (* SurrogateModelPredict.evaluate_individual *)
    Definition evaluate_individual (s : state) (r : req) : state * outcome :=
      let s1 := log_obj s (r_vec r) in                  (* value = self.problem.evaluate(individual) *)
      let s2 := count_eval s1 in                        (* self.eval_counter += 1 *)
      let s3 := add_data s2 (r_vec r) (r_true r) in     (* self.add_data(individual.vector, value) *)
      if (train_step =? -1)%Z then (s3, Ret (r_true r)) (* if self.train_step != -1: *)
      else if (train_step =? 0)%Z then (s3, Raised)     (*   `% 0` raises *)
      else if (Z.of_nat (eval_counter s3) mod train_step =? 0)%Z
           then (do_train s3, Ret (r_true r))           (*   if self.eval_counter % self.train_step == 0: self.train() *)
           else (s3, Ret (r_true r)).

    (* SurrogateModelPredict.evaluate *)
    Definition predict_evaluate (s : state) (r : req) : state * (kind * outcome) :=
      if trained s && has_hook then
        let s1 := log_hook s (r_vec r) in               (* values = self.problem.predict(individual) *)
        match r_hook r with
        | Some v => (count_pred s1, (KPred, Ret v))     (* values is not None: predict_counter += 1 *)
        | None => let '(s2, o) := evaluate_individual s1 r in (s2, (KEval, o))
        end
      else let '(s2, o) := evaluate_individual s r in (s2, (KEval, o)).
  End Predict.

  (* SurrogateModelEval.evaluate: self.eval_counter += 1; return self.problem.evaluate(individual) *)
  Definition passthrough_evaluate (s : state) (r : req) : state * (kind * outcome) :=
    let s1 := count_eval s in
    (log_obj s1 (r_vec r), (KEval, Ret (r_true r))).

  (* a sequence of requests; a raised exception is caught by the caller, who goes on *)
  Fixpoint run (step : state -> req -> state * (kind * outcome)) (s : state) (reqs : list req)
    : state * list (kind * outcome) :=
    match reqs with
    | [] => (s, [])
    | r :: rs => let '(s1, o) := step s r in
                 let '(s2, os) := run step s1 rs in (s2, o :: os)
    end.
End Surrogate.

Arguments req : clear implicits.
Arguments state : clear implicits.
Arguments outcome : clear implicits.
