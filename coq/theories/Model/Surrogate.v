(* Model of artap/surrogate.py: SurrogateModelEval.evaluate (pass-through) and
   SurrogateModelPredict.evaluate / evaluate_individual (predicting wrapper, the base of
   SurrogateModelScikit and SurrogateModelSMT), as state machines over evaluation requests.

   V = design vector, C = objective value (cost list); both are opaque to the wrapper.
   A request carries the vector, what the problem's predict hook would answer if it were
   consulted (None = declines) and what the true objective returns for the vector.
   External behaviour is an input of the model: the objective and the hook through the
   request, `train()` through `train_out` (k-th call of train leaves `trained` = train_out k;
   SurrogateModelScikit.train ends in `self.trained = True`, SurrogateModelSMT.train too, but
   nothing below depends on that), `"predict" in dir(problem)` through `has_hook`.

   The three logs are ghost observations made at the moment of the external call; the harness
   records the same numbers inside the scripted objective / hook / regressor.fit. *)
From Coq Require Import List ZArith Bool.
Import ListNotations.
Local Open Scope nat_scope.

Section Surrogate.
  Context {V C : Type}.

  Record req := { r_vec : V; r_hook : option C; r_true : C }.

  Record state := {
    trained : bool;
    eval_counter : nat;
    predict_counter : nat;
    x_data : list V;
    y_data : list C;
    train_log : list (nat * nat * nat);   (* per train() call: eval_counter, |x_data|, |y_data| at the call *)
    obj_log : list (V * nat * nat);       (* per objective call: vector, |x_data|, eval_counter at the call *)
    hook_log : list (V * nat * nat) }.    (* per hook call: vector, eval_counter, predict_counter at the call *)

  (* Raised = the ZeroDivisionError of `self.eval_counter % self.train_step` for train_step = 0 *)
  Inductive outcome := Ret (c : C) | Raised.
  (* which branch answered the request (ghost label, tied to the observables by the theorems) *)
  Inductive kind := KPred | KEval.

  Definition init (t : bool) : state :=
    {| trained := t; eval_counter := 0; predict_counter := 0; x_data := []; y_data := [];
       train_log := []; obj_log := []; hook_log := [] |}.

  Definition log_obj (s : state) (v : V) : state :=
    {| trained := trained s; eval_counter := eval_counter s; predict_counter := predict_counter s;
       x_data := x_data s; y_data := y_data s; train_log := train_log s;
       obj_log := obj_log s ++ [(v, length (x_data s), eval_counter s)]; hook_log := hook_log s |}.

  Definition log_hook (s : state) (v : V) : state :=
    {| trained := trained s; eval_counter := eval_counter s; predict_counter := predict_counter s;
       x_data := x_data s; y_data := y_data s; train_log := train_log s; obj_log := obj_log s;
       hook_log := hook_log s ++ [(v, eval_counter s, predict_counter s)] |}.

  (* self.eval_counter += 1 *)
  Definition count_eval (s : state) : state :=
    {| trained := trained s; eval_counter := S (eval_counter s); predict_counter := predict_counter s;
       x_data := x_data s; y_data := y_data s; train_log := train_log s; obj_log := obj_log s;
       hook_log := hook_log s |}.

  (* self.problem.surrogate.predict_counter += 1 *)
  Definition count_pred (s : state) : state :=
    {| trained := trained s; eval_counter := eval_counter s; predict_counter := S (predict_counter s);
       x_data := x_data s; y_data := y_data s; train_log := train_log s; obj_log := obj_log s;
       hook_log := hook_log s |}.

  (* add_data: x_data.append(x); y_data.append(y) *)
  Definition add_data (s : state) (x : V) (y : C) : state :=
    {| trained := trained s; eval_counter := eval_counter s; predict_counter := predict_counter s;
       x_data := x_data s ++ [x]; y_data := y_data s ++ [y]; train_log := train_log s;
       obj_log := obj_log s; hook_log := hook_log s |}.

  Section Predict.
    Variable train_step : Z.
    Variable has_hook : bool.
    Variable train_out : nat -> bool.

    (* self.train(): the oracle decides what `trained` is afterwards *)
    Definition do_train (s : state) : state :=
      {| trained := train_out (length (train_log s));
         eval_counter := eval_counter s; predict_counter := predict_counter s;
         x_data := x_data s; y_data := y_data s;
         train_log := train_log s ++ [(eval_counter s, length (x_data s), length (y_data s))];
         obj_log := obj_log s; hook_log := hook_log s |}.

    (* SurrogateModelPredict.evaluate_individual *)
    Definition evaluate_individual (s : state) (r : req) : state * outcome :=
      let s1 := log_obj s (r_vec r) in                  (* value = self.problem.evaluate(individual) *)
      let s2 := count_eval s1 in                        (* self.eval_counter += 1 *)
      let s3 := add_data s2 (r_vec r) (r_true r) in     (* self.add_data(individual.vector, value) *)
      if (train_step =? -1)%Z then (s3, Ret (r_true r)) (* if self.train_step != -1: *)
      else if (train_step =? 0)%Z then (s3, Raised)     (*   `% 0` raises *)
      else if (Z.of_nat (eval_counter s3) mod train_step =? 0)%Z
           then (do_train s3, Ret (r_true r))           (*   if self.eval_counter % self.train_step == 0: self.train() *)
           else (s3, Ret (r_true r)).

    (* SurrogateModelPredict.evaluate *)
    Definition predict_evaluate (s : state) (r : req) : state * (kind * outcome) :=
      if trained s && has_hook then
        let s1 := log_hook s (r_vec r) in               (* values = self.problem.predict(individual) *)
        match r_hook r with
        | Some v => (count_pred s1, (KPred, Ret v))     (* values is not None: predict_counter += 1 *)
        | None => let '(s2, o) := evaluate_individual s1 r in (s2, (KEval, o))
        end
      else let '(s2, o) := evaluate_individual s r in (s2, (KEval, o)).
  End Predict.

  (* SurrogateModelEval.evaluate: self.eval_counter += 1; return self.problem.evaluate(individual) *)
  Definition passthrough_evaluate (s : state) (r : req) : state * (kind * outcome) :=
    let s1 := count_eval s in
    (log_obj s1 (r_vec r), (KEval, Ret (r_true r))).

  (* a sequence of requests; a raised exception is caught by the caller, who goes on *)
  Fixpoint run (step : state -> req -> state * (kind * outcome)) (s : state) (reqs : list req)
    : state * list (kind * outcome) :=
    match reqs with
    | [] => (s, [])
    | r :: rs => let '(s1, o) := step s r in
                 let '(s2, os) := run step s1 rs in (s2, o :: os)
    end.

  (* SurrogateModel.read_from_data_store:
       for individual in self.problem.individuals: self.add_data(individual.vector, individual.costs)
     EVERY individual stored with the problem is copied, whatever its state: an individual that
     was never evaluated (EMPTY / IN_PROGRESS / FAILED) contributes its vector with whatever its
     `costs` attribute holds (the empty list for a fresh Individual).  `inds` is the list of
     (vector, costs) of problem.individuals at the moment of the call.  No counter is touched,
     nothing is trained, and calling it twice copies the same individuals twice. *)
  Definition read_from_data_store (s : state) (inds : list (V * C)) : state :=
    fold_left (fun s p => add_data s (fst p) (snd p)) inds s.

  (* the user assigns `surrogate.trained = b` *)
  Definition set_trained (s : state) (b : bool) : state :=
    {| trained := b; eval_counter := eval_counter s; predict_counter := predict_counter s;
       x_data := x_data s; y_data := y_data s; train_log := train_log s; obj_log := obj_log s;
       hook_log := hook_log s |}.

  (* ------------------------------------------------------------------------------------------
     Sessions: what a user can do with the surrogate wrappers of one problem between requests.
     A wrapper object = its class (pass-through or predicting), its current train_step, its
     train() oracle and its bookkeeping state; several wrapper objects may exist and
     `problem.surrogate` designates the one that answers requests (Job.evaluate always goes
     through problem.surrogate).  The ghost logs are kept per wrapper object. *)
  Record wrapper := { w_pass : bool; w_ts : Z; w_tape : nat -> bool; w_st : state }.

  Inductive event :=
  | EReq (r : req)                    (* problem.surrogate.evaluate(individual) *)
  | ESeed (inds : list (V * C))       (* problem.individuals = inds; problem.surrogate.read_from_data_store() *)
  | ETrain                            (* the user calls problem.surrogate.train() *)
  | ESetStep (ts : Z)                 (* problem.surrogate.train_step = ts *)
  | ESetTrained (b : bool)            (* problem.surrogate.trained = b *)
  | EUse (k : nat).                   (* problem.surrogate = wrappers[k] *)

  Definition with_st (w : wrapper) (s : state) : wrapper :=
    {| w_pass := w_pass w; w_ts := w_ts w; w_tape := w_tape w; w_st := s |}.

  Definition wrapper_step (has_hook : bool) (w : wrapper) : state -> req -> state * (kind * outcome) :=
    if w_pass w then passthrough_evaluate else predict_evaluate (w_ts w) has_hook (w_tape w).

  (* one event on the wrapper that is problem.surrogate; SurrogateModelEval.train is `pass` *)
  Definition wrapper_event (has_hook : bool) (w : wrapper) (e : event) : wrapper * option (kind * outcome) :=
    match e with
    | EReq r => let '(s, o) := wrapper_step has_hook w (w_st w) r in (with_st w s, Some o)
    | ESeed inds => (with_st w (read_from_data_store (w_st w) inds), None)
    | ETrain => (if w_pass w then w else with_st w (do_train (w_tape w) (w_st w)), None)
    | ESetStep ts => ({| w_pass := w_pass w; w_ts := ts; w_tape := w_tape w; w_st := w_st w |}, None)
    | ESetTrained b => (with_st w (set_trained (w_st w) b), None)
    | EUse _ => (w, None)
    end.

  Record session := { cur : nat; slots : list wrapper }.

  Fixpoint set_nth {A : Type} (l : list A) (k : nat) (a : A) : list A :=
    match l, k with
    | [], _ => []
    | _ :: t, 0 => a :: t
    | h :: t, S k' => h :: set_nth t k' a
    end.

  Definition session_event (has_hook : bool) (ss : session) (e : event) : session * option (kind * outcome) :=
    match e with
    | EUse k => ((if k <? length (slots ss) then {| cur := k; slots := slots ss |} else ss), None)
    | _ => match nth_error (slots ss) (cur ss) with
           | Some w => let '(w', o) := wrapper_event has_hook w e in
                       ({| cur := cur ss; slots := set_nth (slots ss) (cur ss) w' |}, o)
           | None => (ss, None)
           end
    end.

  Fixpoint session_run (has_hook : bool) (ss : session) (es : list event)
    : session * list (option (kind * outcome)) :=
    match es with
    | [] => (ss, [])
    | e :: es' => let '(s1, o) := session_event has_hook ss e in
                  let '(s2, os) := session_run has_hook s1 es' in (s2, o :: os)
    end.
End Surrogate.

Arguments req : clear implicits.
Arguments state : clear implicits.
Arguments outcome : clear implicits.
Arguments wrapper : clear implicits.
Arguments event : clear implicits.
Arguments session : clear implicits.
