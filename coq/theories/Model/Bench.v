(* C15 - single-objective benchmarks of artap/benchmark_functions.py and artap/benchmark_robust.py
   as functions  list R -> R  over Coq's real numbers (regime R4).

   Each model mirrors the formula the CODE computes (not the docstring):
   - Zakharov adds the square of the same weighted sum twice,
   - XinSheYang (1), XinSheYang2 and XinSheYang3 overwrite their accumulators inside the loop, so only the
     LAST coordinate (and the last random draw) reaches the result,
   - Perm squares term by term, Rastrigin / EqualityConstr / Perm use `self.dimension` (= length of the vector),
   - Schwefel uses alpha = 418.9828872724339 per coordinate (after fix F9; before: 418.982887),
   - EqualityConstr returns -prod only if np.isclose(sum c^2, 1., rtol=0., atol=1e-9), else 0,
   - ModifiedEasom has no parity factor (fix F4), Synthetic5D/10D are maximised (fix F5).
   Float operations are read as the real operations they round (x ** 2. = x^2, np.fabs = Rabs, np.pi = PI,
   np.e = exp 1); the correspondence compares with relative tolerance 1e-9.
   Definitions only: no proofs here. *)
From Coq Require Import Reals List.
Import ListNotations.
Local Open Scope R_scope.

(* ---------------------------------------------------------------- generic pieces *)
Definition tol : R := 1 / 1000.

Inductive direction := Minimize | Maximize.

(* v is not better than the documented optimum by more than tol, in the declared direction *)
Definition not_better (d : direction) (opt v : R) : Prop :=
  match d with Minimize => opt - tol <= v | Maximize => v <= opt + tol end.

Definition in_box (lb ub : R) (x : list R) : Prop := Forall (fun c => lb <= c <= ub) x.

(* per-coordinate boxes *)
Definition in_boxes (box : list (R * R)) (x : list R) : Prop :=
  Forall2 (fun b c => fst b <= c <= snd b) box x.

Fixpoint sum_map (f : R -> R) (x : list R) : R :=
  match x with [] => 0 | c :: t => f c + sum_map f t end.

Fixpoint prod_map (f : R -> R) (x : list R) : R :=
  match x with [] => 1 | c :: t => f c * prod_map f t end.

(* enumerate(x): the index i (0-based) is passed as a nat, the formulas use INR (S i) = i + 1 *)
Fixpoint sum_idx (f : nat -> R -> R) (i : nat) (x : list R) : R :=
  match x with [] => 0 | c :: t => f i c + sum_idx f (S i) t end.

Fixpoint prod_idx (f : nat -> R -> R) (i : nat) (x : list R) : R :=
  match x with [] => 1 | c :: t => f i c * prod_idx f (S i) t end.

Definition dimR (x : list R) : R := INR (length x).

(* ---------------------------------------------------------------- the benchmark formulas *)

(* Rosenbrock: for i in range(dimension-1): a = 1-x[i]; b = x[i+1]-x[i]**2; scores += a*a + b*b*100 *)
Fixpoint rosenbrock (x : list R) : R :=
  match x with
  | a :: t => match t with
              | b :: _ => ((1 - a) * (1 - a) + (b - a ^ 2) * (b - a ^ 2) * 100) + rosenbrock t
              | [] => 0
              end
  | [] => 0
  end.

(* Ackley: -20 exp(-0.2 sqrt(sum c^2 / n)) - exp(sum cos(2 pi c) / n) + 20 + e *)
Definition ackley (x : list R) : R :=
  - 20 * exp (- (2 / 10) * sqrt (sum_map (fun c => c ^ 2) x / dimR x))
  - exp (sum_map (fun c => cos (2 * PI * c)) x / dimR x) + 20 + exp 1.

Definition sphere (x : list R) : R := sum_map (fun c => c ^ 2) x.

(* Schwefel: fitness -= c sin(sqrt|c|); fitness += 418.9828872724339 (fix F9) *)
Definition schwefel_alpha : R := 4189828872724339 / 10000000000000.
Definition schwefel_term (c : R) : R := schwefel_alpha - c * sin (sqrt (Rabs c)).
Definition schwefel (x : list R) : R := sum_map schwefel_term x.

(* ModifiedEasom (after fix F4): product = -1 * prod cos(c)^2 ; result product * exp(-sum (c-pi)^2) *)
Definition easom (x : list R) : R :=
  (-1 * prod_map (fun c => cos c ^ 2) x) * exp (- sum_map (fun c => (c - PI) ^ 2) x).

(* EqualityConstr (after fix F3): product = prod (c sqrt n), summa = sum c*c,
   -product if |summa - 1| <= 1e-9 (np.isclose(summa, 1., rtol=0., atol=1e-9)) else 0 *)
Definition eqc_atol : R := 1 / 1000000000.
Definition eqc_prod (x : list R) : R := prod_map (fun c => c * sqrt (dimR x)) x.
Definition eqc_sum (x : list R) : R := sum_map (fun c => c * c) x.
Definition eqconstr (x : list R) : R :=
  if Rle_dec (Rabs (eqc_sum x - 1)) eqc_atol then -1 * eqc_prod x else 0.

(* Griewank: summa += c^2/4000 ; produkt *= cos(c / sqrt(i+1)) ; summa - produkt + 1 *)
Definition griewank (x : list R) : R :=
  sum_map (fun c => c ^ 2 / 4000) x - prod_idx (fun i c => cos (c / sqrt (INR (S i)))) 0 x + 1.

(* Michalewicz (m = 10): f += sin(c) sin((i+1) c c / pi)^20 ; -f *)
Definition micha_term (k : R) (c : R) : R := sin c * sin (k * c * c / PI) ^ 20.
Definition michalewicz (x : list R) : R := - sum_idx (fun i c => micha_term (INR (S i)) c) 0 x.

(* Perm (b = 10): for i in 1..dimension: for j, d in enumerate(x): f += (j+1+b) (d^i - 1/(j+1)^i)^2 *)
Definition perm_inner (i : nat) (x : list R) : R :=
  sum_idx (fun j d => (INR (S j) + 10) * (d ^ i - 1 / INR (S j) ^ i) ^ 2) 0 x.
Fixpoint perm_outer (k : nat) (x : list R) : R :=      (* sum over i = 1..k *)
  match k with O => 0 | S k' => perm_outer k' x + perm_inner k x end.
Definition perm (x : list R) : R := perm_outer (length x) x.

(* Rastrigin: 10*dimension + sum (c^2 - 10 cos(2 pi c)) *)
Definition rastrigin (x : list R) : R :=
  10 * dimR x + sum_map (fun c => c ^ 2 - 10 * cos (2 * PI * c)) x.

(* SixHump (2-D): (4 - 2.1 x^2 + x^4/3) x^2 + x y - 4 y^2 + 4 y^4 *)
Definition sixhump2 (a b : R) : R :=
  (4 - (21 / 10) * a ^ 2 + a ^ 4 / 3) * a ^ 2 + a * b - 4 * b ^ 2 + 4 * b ^ 4.
Definition sixhump (x : list R) : R :=
  match x with a :: b :: _ => sixhump2 a b | _ => 0 end.

(* Schubert (2-D, n = 5): f1 = sum_{i=1..5} i cos(i + (i+1) x0), f2 likewise in x1; f1*f2 *)
Definition schubert_g (t : R) : R :=
  1 * cos (1 + 2 * t) + 2 * cos (2 + 3 * t) + 3 * cos (3 + 4 * t) + 4 * cos (4 + 5 * t) + 5 * cos (5 + 6 * t).
Definition schubert (x : list R) : R :=
  match x with a :: b :: _ => schubert_g a * schubert_g b | _ => 0 end.

(* Zakharov as coded: f1 = sum c^2, f2 = f3 = sum 0.5 (i+1) c ; f1 + f2^2 + f3^2 *)
Definition zakharov (x : list R) : R :=
  let f2 := sum_idx (fun i c => (1 / 2) * INR (S i) * c) 0 x in
  sum_map (fun c => c ^ 2) x + f2 ^ 2 + f2 ^ 2.

(* XinSheYang (1) as coded: the loop OVERWRITES f1 = |c|, f2 = sin(c^2): only the last coordinate counts;
   f1 = f2 = 0 for the empty vector, which is the formula at c = 0 *)
Definition xsy1 (x : list R) : R := let c := last x 0 in Rabs c * exp (- sin (c ^ 2)).

(* XinSheYang2 as coded (beta = 15, m = 5): overwritten accumulators, last coordinate only;
   the initial values f1 = f2 = 0, f3 = 1 are the formula at c = 0 *)
Definition xsy2_1 (c : R) : R := (exp (-1 * (c / 15) ^ 10) - 2 * exp (-1 * c ^ 2)) * cos c ^ 2.
Definition xsy2 (x : list R) : R := xsy2_1 (last x 0).

(* XinSheYang3 as coded: for i, c in enumerate(x): eps = uniform(0,1); f1 = eps |c - 1/(i+1)| (overwritten).
   The draws are an oracle tape `eps` (one per coordinate, in call order). *)
Fixpoint xsy3_loop (i : nat) (eps x : list R) (f1 : R) : R :=
  match x, eps with
  | c :: x', e :: eps' => xsy3_loop (S i) eps' x' (e * Rabs (c - 1 / INR (S i)))
  | _, _ => f1
  end.
Definition xsy3 (eps x : list R) : R := xsy3_loop 0 eps x 0.

(* Booth (2-D) *)
Definition booth (x : list R) : R :=
  match x with a :: b :: _ => (a + 2 * b - 7) ^ 2 + (2 * a + b - 5) ^ 2 | _ => 0 end.

(* GramacyLee (1-D): sin(10 pi x)/(2 x) + (x-1)^4 *)
Definition gramacy1 (a : R) : R := sin (10 * PI * a) / (2 * a) + (a - 1) ^ 4.
Definition gramacylee (x : list R) : R := match x with a :: _ => gramacy1 a | _ => 0 end.

(* Alpine: sum |c sin c + 0.1 c| *)
Definition alpine (x : list R) : R := sum_map (fun c => Rabs (c * sin c + (1 / 10) * c)) x.

(* ---- benchmark_robust.py *)
Definition gauss (m c w t : R) : R := m * exp (- (t - c) ^ 2 / w).

Definition synthetic1d_1 (t : R) : R :=
  gauss 1 1 (1/2) t + gauss 2 (5/4) (45/1000) t + gauss (1/2) (3/2) (128/10000) t
  + gauss 2 (16/10) (5/1000) t + gauss (5/2) (18/10) (2/100) t
  + gauss (5/2) (22/10) (2/100) t + gauss 2 (24/10) (5/1000) t
  + gauss 2 (275/100) (45/1000) t + gauss 1 3 (1/2) t + gauss 2 6 (32/100) t
  + gauss (22/10) 7 (18/100) t + gauss (24/10) 8 (1/2) t
  + gauss (23/10) (95/10) (1/2) t + gauss (32/10) 11 (18/100) t + gauss (12/10) 12 (18/100) t.
Definition synthetic1d (x : list R) : R := match x with a :: _ => synthetic1d_1 a | _ => 0 end.

Definition gauss2 (m c1 c2 w a b : R) : R := m * exp (- ((a - c1) ^ 2 + (b - c2) ^ 2) / w).
Definition synthetic2d_2 (a b : R) : R :=
  gauss2 (7/10) 1 1 (18/100) a b + gauss2 (75/100) 1 3 (32/100) a b + gauss2 1 3 1 2 a b
  + gauss2 (12/10) 3 4 (32/100) a b + gauss2 1 5 2 (72/100) a b.
Definition synthetic2d (x : list R) : R := match x with a :: b :: _ => synthetic2d_2 a b | _ => 0 end.

(* atom_nd(width, multiplier, x, z): exp(sum (x_i - z_i)^2 / -width) * multiplier, i over range(len x) *)
Fixpoint sqdist (x z : list R) : R :=
  match x, z with c :: x', d :: z' => (c - d) ^ 2 + sqdist x' z' | _, _ => 0 end.
Definition atom_nd (w m : R) (x z : list R) : R := exp (sqdist x z / - w) * m.

Definition syn5_atoms : list (R * R * list R) :=
  [ (3/10, 7/10,   [10; 1; 6; 7; 8]);
    (4/10, 75/100, [1; 3; 8; 95/10; 2]);
    (1, 1,         [3; 1; 3; 2; 5]);
    (4/10, 12/10,  [3; 4; 13/10; 5; 5]);
    (6/10, 1,      [5; 2; 96/10; 73/10; 86/10]);
    (5/10, 6/10,   [75/10; 8; 9; 32/10; 46/10]);
    (1/10, 5/10,   [57/10; 93/10; 22/10; 84/10; 71/10]);
    (1, 2/10,      [55/10; 72/10; 58/10; 23/10; 45/10]);
    (2/10, 4/10,   [47/10; 32/10; 55/10; 71/10; 33/10]);
    (3/10, 1/10,   [97/10; 84/10; 6/10; 32/10; 85/10]) ].

Definition syn10_atoms : list (R * R * list R) :=
  [ (3/10, 7/10,   [10; 1; 6; 7; 8; 1; 1; 6; 7; 8]);
    (4/10, 75/100, [1; 3; 8; 95/10; 2; 1; 3; 8; 95/10; 2]);
    (1, 1,         [3; 1; 3; 2; 5; 3; 1; 3; 2; 5]);
    (4/10, 12/10,  [3; 4; 13/10; 5; 5; 3; 4; 13/10; 5; 5]);
    (6/10, 1,      [5; 2; 96/10; 73/10; 86/10; 5; 2; 96/10; 73/10; 86/10]);
    (5/10, 6/10,   [75/10; 8; 9; 32/10; 46/10; 75/10; 8; 9; 32/10; 46/10]);
    (1/10, 5/10,   [57/10; 93/10; 22/10; 84/10; 71/10; 57/10; 93/10; 22/10; 84/10; 71/10]);
    (1, 2/10,      [55/10; 72/10; 58/10; 23/10; 45/10; 55/10; 72/10; 58/10; 23/10; 45/10]);
    (2/10, 4/10,   [47/10; 32/10; 55/10; 71/10; 33/10; 47/10; 32/10; 55/10; 71/10; 33/10]);
    (3/10, 1/10,   [97/10; 84/10; 6/10; 32/10; 85/10; 97/10; 84/10; 6/10; 32/10; 85/10]) ].

Definition atoms_sum (atoms : list (R * R * list R)) (x : list R) : R :=
  fold_right (fun a acc => atom_nd (fst (fst a)) (snd (fst a)) x (snd a) + acc) 0 atoms.
Definition synthetic5d (x : list R) : R := atoms_sum syn5_atoms x.
Definition synthetic10d (x : list R) : R := atoms_sum syn10_atoms x.

(* ---------------------------------------------------------------- declared data of each class
   box (per coordinate), direction, documented optimum, documented coordinates (None where the class
   documents no coordinates: Michalewicz 5/10, Schubert), accepted dimensions *)
Record bench := {
  b_f : list R -> R;
  b_dims : nat -> Prop;                      (* dimensions the constructor accepts / the class fixes *)
  b_box : nat -> list (R * R);
  b_dir : direction;
  b_opt : nat -> R;
  b_coords : nat -> option (list R) }.

Definition cube (lb ub : R) (n : nat) : list (R * R) := repeat (lb, ub) n.
Definition any_dim (n : nat) : Prop := (1 <= n)%nat.
Definition inv_seq (n : nat) : list R := map (fun j => 1 / INR (S j)) (seq 0 n).   (* 1, 1/2, ..., 1/n *)

Definition rosenbrock_b := {| b_f := rosenbrock; b_dims := any_dim; b_box := cube (-5) 10; b_dir := Minimize;
  b_opt := fun _ => 0; b_coords := fun n => Some (repeat 1 n) |}.
Definition ackley_b := {| b_f := ackley; b_dims := any_dim; b_box := cube (-32) 32; b_dir := Minimize;
  b_opt := fun _ => 0; b_coords := fun n => Some (repeat 0 n) |}.
Definition sphere_b := {| b_f := sphere; b_dims := any_dim; b_box := cube (-(512/100)) (512/100); b_dir := Minimize;
  b_opt := fun _ => 0; b_coords := fun n => Some (repeat 0 n) |}.
(* with the full-precision alpha (fix F9) every term is >= 0, in every dimension.  The documented coordinates 420.9687
   are rounded: the value there is 2.7e-10 per coordinate, so the documented 0 is met within 1e-3 while n <= 3.6e6;
   the bound n <= 3 000 000 is part of the declared dimensions (it only matters for the value clause) *)
Definition schwefel_b := {| b_f := schwefel; b_dims := fun n => (1 <= n)%nat /\ INR n <= 3000000; b_box := cube (-500) 500;
  b_dir := Minimize; b_opt := fun _ => 0; b_coords := fun n => Some (repeat (4209687 / 10000) n) |}.
Definition easom_b := {| b_f := easom; b_dims := any_dim; b_box := cube (-2 * PI) (2 * PI); b_dir := Minimize;
  b_opt := fun _ => -1; b_coords := fun n => Some (repeat PI n) |}.
(* isclose lets sum c^2 reach 1 + 1e-9, where the product is (1+1e-9)^(n/2): within 1e-3 while n <= 10^6 *)
Definition eqconstr_b := {| b_f := eqconstr; b_dims := fun n => (1 <= n)%nat /\ INR n <= 1000000; b_box := cube 0 1;
  b_dir := Minimize; b_opt := fun _ => -1; b_coords := fun n => Some (repeat (1 / sqrt (INR n)) n) |}.
Definition griewank_b := {| b_f := griewank; b_dims := any_dim; b_box := cube (-512) 512; b_dir := Minimize;
  b_opt := fun _ => 0; b_coords := fun n => Some (repeat 0 n) |}.
Definition michalewicz_b := {| b_f := michalewicz; b_dims := fun n => n = 2%nat \/ n = 5%nat \/ n = 10%nat;
  b_box := cube 0 PI; b_dir := Minimize;
  b_opt := fun n => match n with 2%nat => - (18013 / 10000) | 5%nat => - (4687658 / 1000000) | _ => - (966015 / 100000) end;
  b_coords := fun n => match n with 2%nat => Some [22 / 10; 157 / 100] | _ => None end |}.
Definition perm_b := {| b_f := perm; b_dims := any_dim; b_box := fun n => cube (- INR n) (INR n) n; b_dir := Minimize;
  b_opt := fun _ => 0; b_coords := fun n => Some (inv_seq n) |}.
Definition rastrigin_b := {| b_f := rastrigin; b_dims := any_dim; b_box := cube (-(512/100)) (512/100); b_dir := Minimize;
  b_opt := fun _ => 0; b_coords := fun n => Some (repeat 0 n) |}.
Definition two_dim (n : nat) : Prop := n = 2%nat.
Definition one_dim (n : nat) : Prop := n = 1%nat.
Definition sixhump_b := {| b_f := sixhump; b_dims := two_dim; b_box := fun _ => [(-3, 3); (-2, 2)]; b_dir := Minimize;
  b_opt := fun _ => - (10316 / 10000); b_coords := fun _ => Some [898 / 10000; - (7126 / 10000)] |}.
Definition schubert_b := {| b_f := schubert; b_dims := two_dim; b_box := fun _ => [(-10, 10); (-10, 10)]; b_dir := Minimize;
  b_opt := fun _ => - (1867309 / 10000); b_coords := fun _ => None |}.
Definition zakharov_b := {| b_f := zakharov; b_dims := any_dim; b_box := cube (-5) 10; b_dir := Minimize;
  b_opt := fun _ => 0; b_coords := fun n => Some (repeat 0 n) |}.
Definition xsy1_b := {| b_f := xsy1; b_dims := any_dim; b_box := cube (-2 * PI) (2 * PI); b_dir := Minimize;
  b_opt := fun _ => 0; b_coords := fun n => Some (repeat 0 n) |}.
Definition xsy2_b := {| b_f := xsy2; b_dims := any_dim; b_box := cube (-20) 20; b_dir := Minimize;
  b_opt := fun _ => -1; b_coords := fun n => Some (repeat 0 n) |}.
(* one benchmark per tape of draws; every draw of uniform(0,1) lies in [0,1] *)
Definition xsy3_b (eps : list R) := {| b_f := xsy3 eps; b_dims := fun n => (1 <= n)%nat /\ length eps = n;
  b_box := cube (-5) 5; b_dir := Minimize; b_opt := fun _ => 0; b_coords := fun n => Some (inv_seq n) |}.
Definition booth_b := {| b_f := booth; b_dims := two_dim; b_box := fun _ => [(-5, 5); (-5, 5)]; b_dir := Minimize;
  b_opt := fun _ => 0; b_coords := fun _ => Some [1; 3] |}.
Definition gramacylee_b := {| b_f := gramacylee; b_dims := one_dim; b_box := fun _ => [(1 / 2, 5 / 2)]; b_dir := Minimize;
  b_opt := fun _ => - (869011134989500 / 1000000000000000);
  b_coords := fun _ => Some [548563444114526 / 1000000000000000] |}.
Definition alpine_b := {| b_f := alpine; b_dims := any_dim; b_box := cube 0 10; b_dir := Minimize;
  b_opt := fun _ => 0; b_coords := fun n => Some (repeat 0 n) |}.
Definition synthetic1d_b := {| b_f := synthetic1d; b_dims := one_dim; b_box := fun _ => [(0, 12)]; b_dir := Maximize;
  b_opt := fun _ => 323 / 100; b_coords := fun _ => Some [11] |}.
Definition synthetic2d_b := {| b_f := synthetic2d; b_dims := two_dim; b_box := fun _ => [(0, 5); (0, 5)]; b_dir := Maximize;
  b_opt := fun _ => 121112 / 100000; b_coords := fun _ => Some [3; 4] |}.
Definition synthetic5d_b := {| b_f := synthetic5d; b_dims := fun n => n = 5%nat; b_box := cube 0 5; b_dir := Maximize;
  b_opt := fun _ => 12 / 10; b_coords := fun _ => Some [3; 4; 13 / 10; 5; 5] |}.
Definition synthetic10d_b := {| b_f := synthetic10d; b_dims := fun n => n = 10%nat; b_box := cube 0 5; b_dir := Maximize;
  b_opt := fun _ => 12 / 10; b_coords := fun _ => Some [3; 4; 13 / 10; 5; 5; 3; 4; 13 / 10; 5; 5] |}.

(* ---------------------------------------------------------------- the property clauses, for any benchmark *)

(* the documented optimum is taken (within tol) at the documented coordinates, which lie in the box;
   where no coordinates are documented: at some point of the box *)
Definition opt_value_stmt (b : bench) : Prop :=
  forall n, b_dims b n ->
    match b_coords b n with
    | Some c => in_boxes (b_box b n) c /\ Rabs (b_f b c - b_opt b n) <= tol
    | None => exists c, in_boxes (b_box b n) c /\ Rabs (b_f b c - b_opt b n) <= tol
    end.

(* no point of the box is better than the documented optimum by more than tol *)
Definition opt_bound_stmt (b : bench) : Prop :=
  forall n x, b_dims b n -> in_boxes (b_box b n) x -> not_better (b_dir b) (b_opt b n) (b_f b x).
