(* Model of the result queries of artap/results.py (class Results) and of the
   population helpers of artap/problem.py they are built on
   (Problem.populations / population / last_population), over the list of recorded
   individuals `problem.individuals`.  Order-only code (regime R1): values are only
   compared and moved, so the model is polymorphic in the value type T with its
   boolean strict order `ltb` (Python's `<`).

   A recorded individual is (id, population tag, vector, costs); `r_id` is the
   position at which the harness recorded it and stands for object identity. *)
From Coq Require Import List ZArith Bool.
From Artap Require Import Base.Ord.
Import ListNotations.
Local Open Scope Z_scope.

Record record (T : Type) := { r_id : nat; r_tag : Z; r_vec : list T; r_costs : list T }.
Arguments r_id {T}. Arguments r_tag {T}. Arguments r_vec {T}. Arguments r_costs {T}.
Arguments Build_record {T}.

(* declared criteria of a goal function: the dict has no 'criteria' key, it is
   'minimize', or it is anything else ('maximize') *)
Inductive criteria := CritAbsent | CritMinimize | CritOther.

(* Python's sorted()/list.sort(): the stable sort.  For a strict weak order the
   stable sorted arrangement is unique, so stable insertion sort computes it. *)
Section Sort.
  Context {A : Type} (lt : A -> A -> bool).
  Fixpoint insert (x : A) (l : list A) : list A :=
    match l with
    | [] => [x]
    | y :: l' => if lt y x then y :: insert x l' else x :: y :: l'
    end.
  Fixpoint isort (l : list A) : list A :=
    match l with [] => [] | x :: l' => insert x (isort l') end.
End Sort.

(* list(zip( *rows )): columns up to the shortest row *)
Section Zip.
  Context {A : Type}.
  Fixpoint heads (rows : list (list A)) : option (list A * list (list A)) :=
    match rows with
    | [] => Some ([], [])
    | [] :: _ => None
    | (x :: r) :: rows' =>
        match heads rows' with
        | Some (hs, ts) => Some (x :: hs, r :: ts)
        | None => None
        end
    end.
  Fixpoint zip_fuel (n : nat) (rows : list (list A)) : list (list A) :=
    match n with
    | O => []
    | S n' => match heads rows with
              | Some (hs, ts) => hs :: zip_fuel n' ts
              | None => []
              end
    end.
  Definition zipstar (rows : list (list A)) : list (list A) :=
    match rows with [] => [] | r :: _ => zip_fuel (length r) rows end.
End Zip.

Section Res.
  Context {T : Type} (ltb : T -> T -> bool).
  Notation rec := (record T).

  (* Problem.population(tag): one pass over problem.individuals *)
  Definition population_of (tag : Z) (rs : list rec) : list rec :=
    filter (fun r => r_tag r =? tag) rs.

  (* Problem.last_population(): max_index starts at -1 and follows `>` *)
  Definition last_tag (rs : list rec) : Z :=
    fold_left (fun m r => if m <? r_tag r then r_tag r else m) rs (-1).
  Definition last_population (rs : list rec) : list rec := population_of (last_tag rs) rs.

  (* Results.population(population_id=-1) *)
  Definition results_population (pid : Z) (rs : list rec) : list rec :=
    if pid =? -1 then last_population rs else population_of pid rs.

  (* Problem.populations(): dict keyed by tag, insertion (first appearance) order *)
  Fixpoint group_insert (r : rec) (g : list (Z * list rec)) : list (Z * list rec) :=
    match g with
    | [] => [(r_tag r, [r])]
    | (t, l) :: g' => if t =? r_tag r then (t, l ++ [r]) :: g' else (t, l) :: group_insert r g'
    end.
  Definition populations (rs : list rec) : list (Z * list rec) :=
    fold_left (fun g r => group_insert r g) rs [].
  Definition grouped (rs : list rec) : list rec := concat (map snd (populations rs)).

  (* Results.table / parameters / costs *)
  Definition row (r : rec) : list T := r_vec r ++ r_costs r.
  Definition table_rows (rs : list rec) : list (list T) := map row (grouped rs).
  Definition table (transpose : bool) (rs : list rec) : list (list T) :=
    if transpose then zipstar (table_rows rs) else table_rows rs.
  Definition parameters (rs : list rec) : list (list T) := map r_vec (grouped rs).

  Variable d : T.        (* never read when the indices are in range (the driver checks) *)
  Definition vec_at (i : nat) (r : rec) : T := nth i (r_vec r) d.
  Definition cost_at (i : nat) (r : rec) : T := nth i (r_costs r) d.

  (* Results.costs(): one list per goal, n = len(individuals[0].costs), recording order *)
  Definition costs_table (rs : list rec) : option (list (list T)) :=
    match rs with
    | [] => None
    | r0 :: _ => Some (map (fun i => map (cost_at i) rs) (seq 0 (length (r_costs r0))))
    end.

  (* tuple comparison of Python: first component unless `==`, then the second *)
  Definition pair_ltb (x y : T * T) : bool :=
    if eqv ltb (fst x) (fst y) then ltb (snd x) (snd y) else ltb (fst x) (fst y).
  (* Results.sort_list: [x for _, x in sorted(zip(list_1, list_2))] *)
  Definition sort_list (l1 l2 : list T) : list T := map snd (isort pair_ltb (combine l1 l2)).
  (* the idiom  b = sort_list(a, b); a.sort()  shared by the three listings *)
  Definition sort_both (sorted : bool) (ks vs : list T) : list T * list T :=
    if sorted then (isort ltb ks, sort_list ks vs) else (ks, vs).

  (* goal_on_parameter(parameter, goal, population_id, sorted) -> [parameter_values, goal_values] *)
  Definition goal_on_parameter (pi gi : nat) (pid : Z) (sorted : bool) (rs : list rec) : list T * list T :=
    let inds := results_population pid rs in
    sort_both sorted (map (vec_at pi) inds) (map (cost_at gi) inds).
  (* parameter_on_goal(goal, parameter, population_id, sorted) -> [goal_values, parameter_values] *)
  Definition parameter_on_goal (gi pi : nat) (pid : Z) (sorted : bool) (rs : list rec) : list T * list T :=
    let inds := results_population pid rs in
    sort_both sorted (map (cost_at gi) inds) (map (vec_at pi) inds).
  Definition parameter_on_parameter (p1 p2 : nat) (pid : Z) (sorted : bool) (rs : list rec) : list T * list T :=
    let inds := results_population pid rs in
    sort_both sorted (map (vec_at p1) inds) (map (vec_at p2) inds).

  (* goal_on_index / parameter_on_index: [range(n)] + one list per goal (parameter), or the named one;
     ngoals = len(problem.costs), nparams = len(problem.parameters) *)
  Definition goal_on_index (which : option nat) (ngoals : nat) (pid : Z) (rs : list rec) : nat * list (list T) :=
    let inds := results_population pid rs in
    (length inds,
     match which with
     | Some j => [map (cost_at j) inds]
     | None => map (fun j => map (cost_at j) inds) (seq 0 ngoals)
     end).
  Definition parameter_on_index (which : option nat) (nparams : nat) (pid : Z) (rs : list rec) : nat * list (list T) :=
    let inds := results_population pid rs in
    (length inds,
     match which with
     | Some j => [map (vec_at j) inds]
     | None => map (fun j => map (vec_at j) inds) (seq 0 nparams)
     end).

  (* pareto_individuals / pareto_front(population_id): the individuals of the queried population whose
     feature 'front_number' is 1 (front1: that recorded feature), and their costs, one list per goal *)
  Definition pareto_individuals (front1 : rec -> bool) (pid : Z) (rs : list rec) : list rec :=
    filter front1 (results_population pid rs).
  Definition pareto_front (front1 : rec -> bool) (ngoals : nat) (pid : Z) (rs : list rec) : list (list T) :=
    let inds := pareto_individuals front1 pid rs in map (fun j => map (cost_at j) inds) (seq 0 ngoals).
  (* pareto_values(): the cost vectors of the last population when it has more than one member
     (the computed set handed to the indicators by performance_measure) *)
  Definition pareto_values (rs : list rec) : list (list T) :=
    let l := last_population rs in if Nat.ltb 1 (length l) then map r_costs l else [].

  (* Python's min(iterable, key=) / max(iterable, key=): the FIRST extremal element *)
  Fixpoint first_min (key : rec -> T) (best : rec) (l : list rec) : rec :=
    match l with
    | [] => best
    | x :: l' => first_min key (if ltb (key x) (key best) then x else best) l'
    end.
  Fixpoint first_max (key : rec -> T) (best : rec) (l : list rec) : rec :=
    match l with
    | [] => best
    | x :: l' => first_max key (if ltb (key best) (key x) then x else best) l'
    end.

  Definition maximised (c : criteria) : bool :=
    match c with CritOther => true | _ => false end.

  (* find_optimum(name): idx = 0 or goal_index(name); crit = criteria declared for that goal;
     None = ValueError (min of an empty list) *)
  Definition find_optimum (idx : nat) (crit : criteria) (rs : list rec) : option rec :=
    match rs with
    | [] => None
    | r :: rs' => Some (if maximised crit then first_max (cost_at idx) r rs'
                        else first_min (cost_at idx) r rs')
    end.
End Res.
