(* Model of the generation loops of artap: GeneticAlgorithm.generate, NSGAII.run,
   EpsMOEA.run (with Selector.pop_acceptance), OMOPSO.run / SMPSO.run, the evaluation
   step (Algorithm.evaluate -> Evaluator.evaluate_serial -> Job.evaluate) as far as the
   bookkeeping sees it, and Problem.populations().

   The loops are state machines over ABSTRACT operator results:
     - the variation operators (tournament, crossover, mutation, velocity / position /
       turbulence) are a tape of candidate vectors, in the order the code produces them;
     - the objective is a tape with one entry per evaluated design: the vector of the first
       call, the replacement vectors drawn after each transient failure, the final costs;
     - the sorter + truncation (fast_nondominated_sorting; nondominated_truncate) is a
       function `select` (specified by hypotheses in Proofs/RunsProofs.v, see C02 / C03);
     - random.choice of pop_acceptance is an oracle.
   `rid` is the identity of the Python object (allocated from a counter, as
   Individual.counter does); it is never compared with the implementation's ids. *)
From Coq Require Import List Bool Arith.
Import ListNotations.
Local Open Scope nat_scope.

Record rind (V C : Type) : Type := mk_rind { rid : nat; rvec : V; rcost : C }.
Arguments mk_rind {V C} _ _ _.
Arguments rid {V C} _.
Arguments rvec {V C} _.
Arguments rcost {V C} _.

(* one evaluated design on the objective tape *)
Record ev_entry (V C : Type) : Type :=
  mk_ev { e_vec : V;            (* vector of the first objective call *)
          e_repl : list V;      (* vector of every later call = replacement after a failure *)
          e_cost : C }.         (* signed costs of the successful call *)
Arguments mk_ev {V C} _ _ _.
Arguments e_vec {V C} _.
Arguments e_repl {V C} _.
Arguments e_cost {V C} _.

Fixpoint remove_nth {A : Type} (n : nat) (l : list A) : list A :=
  match l with
  | [] => []
  | x :: l' => match n with 0 => l' | S n' => x :: remove_nth n' l' end
  end.

(* list.remove: drop the first element satisfying p; None = ValueError *)
Fixpoint remove_first {A : Type} (p : A -> bool) (l : list A) : option (list A) :=
  match l with
  | [] => None
  | x :: l' => if p x then Some l'
               else match remove_first p l' with Some r => Some (x :: r) | None => None end
  end.

(* set(list) with key equality `same entry x`, representatives in insertion order *)
Section Dedupe.
  Context {A : Type} (same : A -> A -> bool).
  Definition set_add_by (acc : list A) (x : A) : list A :=
    if existsb (fun e => same e x) acc then acc else acc ++ [x].
  Definition dedupe_by (l : list A) : list A := fold_left set_add_by l [].
End Dedupe.

(* Problem.populations(): dict tag -> list, keys in first-occurrence order *)
Section Populations.
  Context {A : Type}.
  Fixpoint pop_insert (t : nat) (x : A) (d : list (nat * list A)) : list (nat * list A) :=
    match d with
    | [] => [(t, [x])]
    | (t', l) :: d' => if Nat.eqb t' t then (t', l ++ [x]) :: d' else (t', l) :: pop_insert t x d'
    end.
  Definition populations (recs : list (nat * A)) : list (nat * list A) :=
    fold_left (fun d r => pop_insert (fst r) (snd r) d) recs [].
  (* Problem.population(t) *)
  Definition population (recs : list (nat * A)) (t : nat) : list A :=
    map snd (filter (fun r => Nat.eqb (fst r) t) recs).
End Populations.

Section Runs.
  Context {V C : Type}.
  Variable veq : V -> V -> bool.      (* Individual.__eq__ on the vectors: a.__eq__(b) *)
  Variable vexact : V -> V -> bool.   (* bitwise identity, used only to check the tapes *)
  Variable cmp : C -> C -> nat.       (* comparator verdict: 1 first dominates, 2 second dominates *)

  Definition ind : Type := rind V C.
  Definition cand : Type := (nat * V)%type.      (* an unevaluated Individual: identity, vector *)

  (* ---------------- GeneticAlgorithm.generate (algorithm_genetic.py 35-73) -------------- *)
  (* any(child == offspring for offspring in offsprings): explicit ==, no identity short-cut *)
  Definition repeated (c : cand) (offs : list cand) : bool :=
    existsb (fun o => veq (snd c) (snd o)) offs.

  (* body of the while loop for one pair of mutated children (v1, v2):
       if len(offsprings) == 0: offsprings.append(child1)
       if any(child1 == o ...) and len(offsprings) < N: pass  else: offsprings.append(child1)
       if any(child2 == o ...) and len(offsprings) < N: pass  elif len(offsprings) < N: offsprings.append(child2) *)
  Definition gen_first (offs : list cand) (c1 : cand) : list cand :=
    match offs with [] => [c1] | _ :: _ => offs end.
  Definition gen_add1 (N : nat) (c1 : cand) (o1 : list cand) : list cand :=
    if repeated c1 o1 && (length o1 <? N) then o1 else o1 ++ [c1].
  Definition gen_add2 (N : nat) (c2 : cand) (o2 : list cand) : list cand :=
    if repeated c2 o2 && (length o2 <? N) then o2
    else if length o2 <? N then o2 ++ [c2] else o2.
  Definition gen_step (N : nat) (offs : list cand) (ctr : nat) (vv : V * V) : list cand :=
    gen_add2 N (S ctr, snd vv) (gen_add1 N (ctr, fst vv) (gen_first offs (ctr, fst vv))).

  (* the stream is the fuel; a stream that ends before N offspring exist, or that is not used
     up when the loop stops, does not describe a terminating call: None *)
  Fixpoint generate (N : nat) (stream : list (V * V)) (offs : list cand) (ctr : nat)
    : option (list cand * nat) :=
    match stream with
    | [] => if N <=? length offs then Some (offs, ctr) else None
    | vv :: s' => if N <=? length offs then None
                  else generate N s' (gen_step N offs ctr vv) (S (S ctr))
    end.

  (* ---------------- evaluation: Evaluator.evaluate_serial + Job.evaluate ---------------- *)
  (* up to 5 attempts; every failure replaces the vector; the first success ends the job.
     Result: the evaluated design and its part of the objective call log (vector, succeeded) *)
  Definition job (c : cand) (e : ev_entry V C) : option (ind * list (V * bool)) :=
    if vexact (snd c) (e_vec e) && (length (e_repl e) <? 5)
    then Some (mk_rind (fst c) (last (e_repl e) (snd c)) (e_cost e),
               map (fun v => (v, false)) (removelast (snd c :: e_repl e))
               ++ [(last (e_repl e) (snd c), true)])
    else None.

  Fixpoint eval_batch (cs : list cand) (es : list (ev_entry V C)) : option (list ind * list (V * bool)) :=
    match cs, es with
    | [], [] => Some ([], [])
    | c :: cs', e :: es' =>
        match job c e with
        | None => None
        | Some (x, lg) =>
            match eval_batch cs' es' with
            | None => None
            | Some (xs, lgs) => Some (x :: xs, lg ++ lgs)
            end
        end
    | _, _ => None
    end.

  Definition successes (log : list (V * bool)) : nat := length (filter (fun c => snd c) log).
  Definition failures (log : list (V * bool)) : nat := length (filter (fun c => negb (snd c)) log).

  (* Individual.copy of NSGA-II: new object, same vector, same costs *)
  Definition copy_all (ps : list ind) (ctr : nat) : list ind :=
    map (fun ip => mk_rind (fst ip) (rvec (snd ip)) (rcost (snd ip))) (combine (seq ctr (length ps)) ps).

  Definition mk_cands (vs : list V) (ctr : nat) : list cand := combine (seq ctr (length vs)) vs.

  (* ---------------- NSGAII.run (algorithm_NSGAII.py 47-112) ---------------- *)
  Variable select : list ind -> nat -> list ind.   (* sort, then nondominated_truncate(pool, N) *)

  Record transition : Type :=
    mk_tr { t_parents : list ind; t_offs : list ind; t_copies : list ind; t_next : list ind }.

  Record gen_in : Type := mk_gen { g_stream : list (V * V); g_eval : list (ev_entry V C) }.

  Record state : Type :=
    mk_state { s_par : list ind;                 (* `individuals` *)
               s_rec : list (nat * ind);         (* problem.individuals with population_id *)
               s_log : list (V * bool);          (* objective call log *)
               s_ctr : nat;                      (* next object identity *)
               s_trace : list transition }.      (* ghost: what each generation step saw *)

  Definition nsga2_init (init : list V) (es : list (ev_entry V C)) : option state :=
    match eval_batch (mk_cands init 0) es with
    | None => None
    | Some (inds, lg) =>
        Some {| s_par := inds; s_rec := map (fun x => (1, x)) inds; s_log := lg;
                s_ctr := length init; s_trace := [] |}
    end.

  (* one pass of `for it in range(G-1)` *)
  Definition nsga2_step (N it : nat) (st : state) (g : gen_in) : option state :=
    match generate N (g_stream g) [] (s_ctr st) with
    | None => None
    | Some (cands, c1) =>
        match eval_batch cands (g_eval g) with
        | None => None
        | Some (offs, lg) =>
            let copies := copy_all (s_par st) c1 in
            let next := select (offs ++ copies) N in
            Some {| s_par := next;
                    s_rec := s_rec st ++ map (fun x => (it + 2, x)) next;
                    s_log := s_log st ++ lg;
                    s_ctr := c1 + length copies;
                    s_trace := s_trace st ++ [mk_tr (s_par st) offs copies next] |}
        end
    end.

  Fixpoint nsga2_loop (N it k : nat) (st : state) (gens : list gen_in) : option state :=
    match k with
    | 0 => match gens with [] => Some st | _ :: _ => None end
    | S k' => match gens with
              | [] => None
              | g :: gens' => match nsga2_step N it st g with
                              | None => None
                              | Some st' => nsga2_loop N (S it) k' st' gens'
                              end
              end
    end.

  (* max_population_size = N, max_population_number = G *)
  Definition nsga2_run (N G : nat) (init : list V) (e0 : list (ev_entry V C)) (gens : list gen_in)
    : option state :=
    match nsga2_init init e0 with
    | None => None
    | Some st => nsga2_loop N 0 (G - 1) st gens
    end.

  (* ---------------- Selector.pop_acceptance (operators.py 1134-1159) ---------------- *)
  (* ch = what random.choice returned, as a position in `individuals`; None = it was not called *)
  Definition dominated_positions (pop : list ind) (x : ind) : list nat :=
    filter (fun i => match nth_error pop i with
                     | Some p => Nat.eqb (cmp (rcost x) (rcost p)) 1
                     | None => false end) (seq 0 (length pop)).
  Definition is_dominated (pop : list ind) (x : ind) : bool :=
    existsb (fun p => Nat.eqb (cmp (rcost x) (rcost p)) 2) pop.
  (* item == value inside list.remove: identity, else item.__eq__(value) *)
  Definition item_equal (value item : ind) : bool :=
    Nat.eqb (rid item) (rid value) || veq (rvec item) (rvec value).

  Definition pop_acceptance (pop : list ind) (x : ind) (ch : option nat) : option (list ind) :=
    match dominated_positions pop x with
    | d :: doms =>
        match ch with
        | Some c => if existsb (Nat.eqb c) (d :: doms) then Some (remove_nth c pop ++ [x]) else None
        | None => None
        end
    | [] =>
        if is_dominated pop x then match ch with None => Some pop | Some _ => None end
        else match ch with
             | Some c => match nth_error pop c with
                         | Some y => match remove_first (item_equal y) pop with
                                     | Some r => Some (r ++ [x])
                                     | None => None
                                     end
                         | None => None
                         end
             | None => None
             end
    end.

  (* ---------------- EpsMOEA.run (algorithm_genetic.py 117-183) ---------------- *)
  Record egen_in : Type :=
    mk_egen { eg_stream : list (V * V); eg_eval : list (ev_entry V C); eg_choice : list (option nat) }.

  Record estate : Type :=
    mk_estate { es_pop : list ind; es_rec : list (nat * ind); es_log : list (V * bool); es_ctr : nat;
                es_sizes : list nat }.      (* ghost: len(individuals) after every pop_acceptance *)

  (* for individual in offsprings: pop_acceptance; (archive.add;) tag; record *)
  Fixpoint accept_all (tag : nat) (pop : list ind) (recs : list (nat * ind)) (sizes : list nat)
           (offs : list ind) (chs : list (option nat)) : option (list ind * list (nat * ind) * list nat) :=
    match offs, chs with
    | [], [] => Some (pop, recs, sizes)
    | x :: offs', ch :: chs' =>
        match pop_acceptance pop x ch with
        | None => None
        | Some pop' => accept_all tag pop' (recs ++ [(tag, x)]) (sizes ++ [length pop']) offs' chs'
        end
    | _, _ => None
    end.

  Definition eps_init (init : list V) (es : list (ev_entry V C)) : option estate :=
    match eval_batch (mk_cands init 0) es with
    | None => None
    | Some (inds, lg) =>
        Some {| es_pop := inds; es_rec := map (fun x => (0, x)) inds; es_log := lg;
                es_ctr := length init; es_sizes := [] |}
    end.

  Definition eps_step (N it : nat) (st : estate) (g : egen_in) : option estate :=
    match generate N (eg_stream g) [] (es_ctr st) with
    | None => None
    | Some (cands, c1) =>
        match eval_batch cands (eg_eval g) with
        | None => None
        | Some (offs, lg) =>
            match accept_all (it + 1) (es_pop st) (es_rec st) (es_sizes st) offs (eg_choice g) with
            | None => None
            | Some (pop', recs', sizes') =>
                Some {| es_pop := pop'; es_rec := recs'; es_log := es_log st ++ lg; es_ctr := c1;
                        es_sizes := sizes' |}
            end
        end
    end.

  Fixpoint eps_loop (N it k : nat) (st : estate) (gens : list egen_in) : option estate :=
    match k with
    | 0 => match gens with [] => Some st | _ :: _ => None end
    | S k' => match gens with
              | [] => None
              | g :: gens' => match eps_step N it st g with
                              | None => None
                              | Some st' => eps_loop N (S it) k' st' gens'
                              end
              end
    end.

  Definition eps_run (N G : nat) (init : list V) (e0 : list (ev_entry V C)) (gens : list egen_in)
    : option estate :=
    match eps_init init e0 with
    | None => None
    | Some st => eps_loop N 0 G st gens
    end.

  (* ---------------- OMOPSO.run / SMPSO.run (algorithm_swarm.py 270-330, 470-527) -------- *)
  (* offsprings = CopySelector.select(individuals); velocity, position, turbulence rewrite the
     vectors in place (pg_vecs = the vectors when evaluate is entered); evaluate;
     update_global_best (SMPSO: crowding_distance(swarm) sorts the list `offsprings` IN PLACE,
     objective by objective; the resulting order is the oracle pg_perm, checked to be a
     permutation of the positions); record in that order *)
  Record pgen_in : Type := mk_pgen { pg_vecs : list V; pg_eval : list (ev_entry V C); pg_perm : list nat }.

  Definition is_perm_of_positions (perm : list nat) (n : nat) : bool :=
    Nat.eqb (length perm) n && forallb (fun i => i <? n) perm &&
    forallb (fun i => existsb (Nat.eqb i) perm) (seq 0 n).
  Definition permute {A : Type} (perm : list nat) (l : list A) : list A :=
    flat_map (fun i => match nth_error l i with Some x => [x] | None => [] end) perm.

  Record pstate : Type :=
    mk_pstate { ps_pop : list ind; ps_rec : list (nat * ind); ps_log : list (V * bool); ps_ctr : nat }.

  Definition pso_init (init : list V) (es : list (ev_entry V C)) : option pstate :=
    match eval_batch (mk_cands init 0) es with
    | None => None
    | Some (inds, lg) =>
        Some {| ps_pop := inds; ps_rec := map (fun x => (0, x)) inds; ps_log := lg; ps_ctr := length init |}
    end.

  Definition pso_step (it : nat) (st : pstate) (g : pgen_in) : option pstate :=
    if Nat.eqb (length (pg_vecs g)) (length (ps_pop st)) then
      match eval_batch (mk_cands (pg_vecs g) (ps_ctr st)) (pg_eval g) with
      | None => None
      | Some (offs0, lg) =>
          if is_perm_of_positions (pg_perm g) (length offs0) then
          let offs := permute (pg_perm g) offs0 in
          Some {| ps_pop := offs; ps_rec := ps_rec st ++ map (fun x => (it + 1, x)) offs;
                  ps_log := ps_log st ++ lg; ps_ctr := ps_ctr st + length offs |}
          else None
      end
    else None.

  Fixpoint pso_loop (it k : nat) (st : pstate) (gens : list pgen_in) : option pstate :=
    match k with
    | 0 => match gens with [] => Some st | _ :: _ => None end
    | S k' => match gens with
              | [] => None
              | g :: gens' => match pso_step it st g with
                              | None => None
                              | Some st' => pso_loop (S it) k' st' gens'
                              end
              end
    end.

  Definition pso_run (G : nat) (init : list V) (e0 : list (ev_entry V C)) (gens : list pgen_in)
    : option pstate :=
    match pso_init init e0 with
    | None => None
    | Some st => pso_loop 0 G st gens
    end.
End Runs.
