(* Model of artap/archive.py: Archive.add (snapshot loop with in-place deletion at
   index - number_of_deleted_solutions, both breaks) and Archive.truncate. *)
From Coq Require Import List Arith Bool.
From Artap Require Import Base.StableSort.
Import ListNotations.

Section Arch.
  Context {C : Type}.                      (* individuals *)
  Variable cmp : C -> C -> nat.            (* comparator on signed costs: first argument = newcomer *)
  Variable ceq : C -> C -> bool.           (* individual.costs_signed == current.costs_signed *)

  Fixpoint remove_nth (n : nat) (l : list C) : list C :=
    match n, l with
    | 0, _ :: t => t
    | S n, h :: t => h :: remove_nth n t
    | _, [] => []
    end.

  (* for index, current in enumerate(list(contents)): ... ; returns (live list, is_dominated, is_contained) *)
  Fixpoint add_loop (x : C) (snap : list C) (index deleted : nat) (live : list C) : list C * bool * bool :=
    match snap with
    | [] => (live, false, false)
    | y :: snap' =>
        match cmp x y with
        | 1 => add_loop x snap' (S index) (S deleted) (remove_nth (index - deleted) live)
        | 2 => (live, true, false)
        | 0 => if ceq x y then (live, false, true) else add_loop x snap' (S index) deleted live
        | _ => add_loop x snap' (S index) deleted live      (* no branch taken for other verdicts *)
        end
    end.

  Definition archive_add (a : list C) (x : C) : list C * bool :=
    match a with
    | [] => ([x], true)
    | _ => let '(live, d, c) := add_loop x a 0 0 a in
           if negb d && negb c then (live ++ [x], true) else (live, false)
    end.

  Definition archive_adds (a : list C) (xs : list C) : list C :=
    fold_left (fun a x => fst (archive_add a x)) xs a.

  (* truncate(size, getter, larger_preferred): sorted by feature, reversed if larger preferred, sliced *)
  Variable key_leb : C -> C -> bool.       (* not (key y < key x) *)
  Definition archive_truncate (a : list C) (size : nat) (larger_preferred : bool) : list C :=
    let r := ssort key_leb a in
    firstn size (if larger_preferred then rev r else r).
End Arch.

(* Archive.remove(solution): list.remove deletes the first member that is == to the solution
   (Individual.__eq__, see C20) and reports True; ValueError is caught and reported as False. *)
Section Remove.
  Context {C : Type}.
  Variable ieq : C -> C -> bool.           (* member == solution *)
  Fixpoint remove_first (s : C) (l : list C) : option (list C) :=
    match l with
    | [] => None
    | y :: l' => if ieq y s then Some l'
                 else match remove_first s l' with Some r => Some (y :: r) | None => None end
    end.
  Definition archive_remove (a : list C) (s : C) : list C * bool :=
    match remove_first s a with Some r => (r, true) | None => (a, false) end.
End Remove.
