(* Design-of-experiment generators as far as property C08 is concerned: how a design matrix produced by the
   pyDOE routines is mapped into the parameter box.
     doe.py        construct_df (full factorial, Plackett-Burman, Box-Behnken: a matrix of level indices),
                   construct_df_from_random_matrix (LHS, Halton: a matrix with entries in [0, 1))
     operators.py  FullFactorGenerator / PlackettBurmanGenerator / BoxBehnkenGenerator (the level lists),
                   UniformGenerator (the equidistant grid)
   The design matrix itself (which level / which point of the unit cube) is an oracle input: properties C12 and
   C13 are about it, C08 only needs that it indexes existing levels / lies in the unit cube.
   Executable definitions only. *)
From Coq Require Import List Bool ZArith QArith Qabs.
Import ListNotations.

Section Levels.
  Context {T : Type}.

  (* construct_df:  for index in range(len(col)): row.append(factor_lists[index][int(col[index])])
     an index beyond the level list / more columns than factors is an IndexError (None) *)
  Fixpoint construct_row (levels : list (list T)) (idx : list nat) {struct idx} : option (list T) :=
    match idx with
    | [] => Some []
    | i :: is =>
        match levels with
        | [] => None
        | l :: ls => match nth_error l i, construct_row ls is with
                     | Some x, Some r => Some (x :: r)
                     | _, _ => None
                     end
        end
    end.

  Fixpoint construct_df (levels : list (list T)) (x : list (list nat)) : option (list (list T)) :=
    match x with
    | [] => Some []
    | row :: rows => match construct_row levels row, construct_df levels rows with
                     | Some r, Some rs => Some (r :: rs)
                     | _, _ => None
                     end
    end.

  (* FullFactorGenerator(center=False), PlackettBurmanGenerator: dict_vars[name] = [l_b, u_b] *)
  Definition levels2 (p : T * T) : list T := [fst p; snd p].
  (* FullFactorGenerator(center=True): [l_b, (l_b + u_b) / 2.0, u_b];  BoxBehnkenGenerator: [l_b, u_b] with the
     mid-point appended and the list sorted, which is the same list when l_b <= mid <= u_b *)
  Variable mid : T * T -> T.
  Definition levels3 (p : T * T) : list T := [fst p; mid p; snd p].
End Levels.

Local Open Scope Q_scope.

(* construct_df_from_random_matrix: factor_lists[index][0] + w[index] * fabs(factor_lists[index][1] - factor_lists[index][0]) *)
Definition scale_coord (p : Q * Q) (w : Q) : Q := fst p + w * Qabs (snd p - fst p).

Fixpoint scale_row (ps : list (Q * Q)) (w : list Q) {struct w} : option (list Q) :=
  match w with
  | [] => Some []
  | x :: w' =>
      match ps with
      | [] => None
      | p :: ps' => match scale_row ps' w' with Some r => Some (scale_coord p x :: r) | None => None end
      end
  end.

Fixpoint scale_rows (ps : list (Q * Q)) (x : list (list Q)) : option (list (list Q)) :=
  match x with
  | [] => Some []
  | w :: x' => match scale_row ps w, scale_rows ps x' with
               | Some r, Some rs => Some (r :: rs)
               | _, _ => None
               end
  end.

Definition q_mid (p : Q * Q) : Q := (fst p + snd p) / 2.

(* UniformGenerator: delta = (ub - lb) / (number - 1); level i = lb + i * delta, i = 0 .. number-1 *)
Definition grid_level (p : Q * Q) (number : nat) (i : nat) : Q :=
  fst p + inject_Z (Z.of_nat i) * ((snd p - fst p) / (inject_Z (Z.of_nat number) - 1)).
Definition grid_levels (number : nat) (p : Q * Q) : list Q := map (grid_level p number) (seq 0 number).
