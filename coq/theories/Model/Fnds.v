(* Model of artap/operators.py Selector.fast_nondominated_sorting (lines 1171-1211), as the code is.

   A population is a list of individuals (id, signed cost vector); the comparator is a parameter
   (`self.comparator.compare`, verdicts 0 / 1 = first dominates / 2 = second dominates).
   The per-individual bookkeeping the code keeps in `features` is modelled by three tables indexed
   by the POSITION of the individual in the population:
       cnt  = features['domination_counter']   (a Python int: Z, it is decremented without a guard)
       dom  = features['dominate']             (list of the IDS of the individuals it dominates)
       frt  = features['front_number']         (None or an int)
   `pareto_front[k]` (a list of individuals) is a list of positions.  Ids are turned back into
   individuals by `Selector.individual`, a linear search for the first member with that id.

   Phase 1 (lines 1181-1195): for i, for j > i: one comparator call per unordered pair, verdict 1
   and verdict 2 update the two tables of both members; after its own row, p joins front 1 when
   its counter is 0.
   Phase 2 (lines 1197-1206): while the last front is not empty: for each member p of that front,
   for each id in p's dominated list: look the individual up, decrement its counter, and when the
   counter is 0 AND it carries no front number yet, number it and append it to the next front.
   The Python `while` needs no fuel; the model's `peel` takes fuel `length pop + 1` and returns
   None on exhaustion (FndsProofs.fnds_total: it never happens).
   The trailing call of crowding_distance per front belongs to C03; `fnds_fronts` exposes the
   fronts (positions, in the order the code appended them) for that purpose. *)
From Coq Require Import List ZArith Bool Arith.
Import ListNotations.
Local Open Scope nat_scope.

Record ind (C : Type) : Type := mk_ind { iid : nat; cost : C }.
Arguments mk_ind {C} _ _.
Arguments iid {C} _.
Arguments cost {C} _.

Definition upd {A : Type} (f : nat -> A) (k : nat) (v : A) : nat -> A :=
  fun i => if Nat.eqb i k then v else f i.

Record st : Type := mk_st { cnt : nat -> Z; dom : nat -> list nat; frt : nat -> option nat }.

Definition st0 : st := {| cnt := fun _ => 0%Z; dom := fun _ => []; frt := fun _ => None |}.

Definition is_none {A : Type} (o : option A) : bool := match o with None => true | Some _ => false end.

Section Fnds.
  Context {C : Type} (cmp : C -> C -> nat).

  (* lines 1183-1190: the body of the inner loop for the pair of positions (i, j) *)
  Definition pair_step (pop : list (ind C)) (i j : nat) (s : st) : st :=
    match nth_error pop i, nth_error pop j with
    | Some p, Some q =>
        match cmp (cost p) (cost q) with
        | 1 => {| cnt := upd (cnt s) j (cnt s j + 1)%Z; dom := upd (dom s) i (dom s i ++ [iid q]); frt := frt s |}
        | 2 => {| cnt := upd (cnt s) i (cnt s i + 1)%Z; dom := upd (dom s) j (dom s j ++ [iid p]); frt := frt s |}
        | _ => s
        end
    | _, _ => s
    end.

  (* lines 1181-1195: one iteration of the outer loop (row i, then the front-1 test) *)
  Definition row (pop : list (ind C)) (n i : nat) (sf : st * list nat) : st * list nat :=
    let s := fold_left (fun s j => pair_step pop i j s) (seq (S i) (n - S i)) (fst sf) in
    if (cnt s i =? 0)%Z
    then ({| cnt := cnt s; dom := dom s; frt := upd (frt s) i (Some 1) |}, snd sf ++ [i])
    else (s, snd sf).

  Definition phase1 (pop : list (ind C)) : st * list nat :=
    fold_left (fun sf i => row pop (length pop) i sf) (seq 0 (length pop)) (st0, []).

  (* Selector.individual: first position carrying the id *)
  Fixpoint find_from (l : list (ind C)) (k id : nat) : option nat :=
    match l with
    | [] => None
    | x :: l' => if Nat.eqb (iid x) id then Some k else find_from l' (S k) id
    end.
  Definition find_pos (pop : list (ind C)) (id : nat) : option nat := find_from pop 0 id.

  (* lines 1202-1206 for one dominated id; fn = the front number being filled *)
  Definition dec_step (pop : list (ind C)) (fn : nat) (sf : st * list nat) (id : nat) : st * list nat :=
    match find_pos pop id with
    | None => sf                                    (* unreachable: ids come from the population *)
    | Some q =>
        let s := fst sf in
        let c := (cnt s q - 1)%Z in
        let s1 := {| cnt := upd (cnt s) q c; dom := dom s; frt := frt s |} in
        if (c =? 0)%Z && is_none (frt s q)
        then ({| cnt := cnt s1; dom := dom s1; frt := upd (frt s1) q (Some fn) |}, snd sf ++ [q])
        else (s1, snd sf)
    end.

  (* lines 1200-1206: one pass over the members of the current front *)
  Definition pass (pop : list (ind C)) (fn : nat) (cur : list nat) (s : st) : st * list nat :=
    fold_left (fun sf p => fold_left (dec_step pop fn) (dom (fst sf) p) sf) cur (s, []).

  (* lines 1197-1209: fn = number of the front `cur`; acc = the fronts before it *)
  Fixpoint peel (fuel : nat) (pop : list (ind C)) (fn : nat) (cur : list nat) (s : st)
           (acc : list (list nat)) : option (st * list (list nat)) :=
    match fuel with
    | 0 => None
    | S fuel' =>
        match cur with
        | [] => Some (s, acc)
        | _ :: _ =>
            let sn := pass pop (S fn) cur s in
            peel fuel' pop (S fn) (snd sn) (fst sn) (acc ++ [cur])
        end
    end.

  Definition fnds_run (pop : list (ind C)) : option (st * list (list nat)) :=
    let sf := phase1 pop in
    peel (S (length pop)) pop 1 (snd sf) (fst sf) [].

  (* features['front_number'] of each individual after the call, in population order *)
  Definition fnds (pop : list (ind C)) : option (list (option nat)) :=
    match fnds_run pop with
    | None => None
    | Some (s, _) => Some (map (frt s) (seq 0 (length pop)))
    end.

  (* the other two features after the call, and the list of fronts handed to crowding_distance *)
  Definition fnds_counters (pop : list (ind C)) : option (list Z) :=
    match fnds_run pop with
    | None => None
    | Some (s, _) => Some (map (cnt s) (seq 0 (length pop)))
    end.
  Definition fnds_dominate (pop : list (ind C)) : option (list (list nat)) :=
    match fnds_run pop with
    | None => None
    | Some (s, _) => Some (map (dom s) (seq 0 (length pop)))
    end.
  Definition fnds_fronts (pop : list (ind C)) : option (list (list nat)) :=
    match fnds_run pop with
    | None => None
    | Some (_, fronts) => Some fronts
    end.
End Fnds.
