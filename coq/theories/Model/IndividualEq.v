(* Model of artap/individual.py Individual.__eq__ / __hash__ and of the Python
   container operations that use them (x in list, list.remove, set(list)).
   T = coordinate type, absdiff a b = abs(a - b), tol = 1e-10, h = hash of the
   vector tuple (an oracle function of the vector only). *)
From Coq Require Import List Bool ZArith.
Import ListNotations.

Section IndEq.
  Context {T : Type} (ltb : T -> T -> bool) (absdiff : T -> T -> T) (tol : T).

  Definition close (a b : T) : bool := ltb (absdiff a b) tol.

  (* for i in range(len(self.vector)): if not abs(self[i] - other[i]) < 1e-10: return False
     return True.   None = IndexError (other is shorter and no earlier coordinate differs) *)
  Fixpoint ind_eq (v w : list T) : option bool :=
    match v with
    | [] => Some true
    | a :: v' =>
        match w with
        | [] => None
        | b :: w' => if close a b then ind_eq v' w' else Some false
        end
    end.

  Definition eqb_ind (v w : list T) : bool :=
    match ind_eq v w with Some true => true | _ => false end.

  (* individuals as seen by containers: (id, vector) with hash h vector *)
  Variable h : list T -> Z.
  Definition indiv : Type := (nat * list T)%type.
  Definition ivec (x : indiv) := snd x.
  Definition ihash (x : indiv) : Z := h (ivec x).

  (* `x in l` / any(x == o for o in l): item == x is evaluated as item.__eq__(x) for `in`
     and list.remove; identity (same id) short-cuts to True *)
  Definition item_eq (item x : indiv) : bool :=
    Nat.eqb (fst item) (fst x) || eqb_ind (ivec item) (ivec x).

  Definition mem (x : indiv) (l : list indiv) : bool := existsb (fun item => item_eq item x) l.

  Fixpoint list_remove (x : indiv) (l : list indiv) : option (list indiv) :=   (* None = ValueError *)
    match l with
    | [] => None
    | y :: l' => if item_eq y x then Some l'
                 else match list_remove x l' with Some r => Some (y :: r) | None => None end
    end.

  (* set(list): an element is merged into an existing entry when the hashes are equal and
     entry == element; result in insertion order of the representatives (the iteration order
     of a real set is hash order: compared as a set of ids) *)
  Definition same_key (entry x : indiv) : bool :=
    Z.eqb (ihash entry) (ihash x) && item_eq entry x.
  Definition set_add (acc : list indiv) (x : indiv) : list indiv :=
    if existsb (fun e => same_key e x) acc then acc else acc ++ [x].
  Definition dedupe (l : list indiv) : list indiv := fold_left set_add l [].

  (* the duplicate test of GeneticAlgorithm.generate: any(child == o for o in offsprings) *)
  Definition child_repeated (child : indiv) (offs : list indiv) : bool :=
    existsb (fun o => eqb_ind (ivec child) (ivec o)) offs.
End IndEq.
