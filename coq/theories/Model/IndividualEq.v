(* Model of artap/individual.py Individual.__eq__ / __hash__ and of the Python
   container operations that use them (x in list, list.remove, set(list)).
   T = coordinate type, absdiff a b = abs(a - b), tol = 1e-10, h = hash of the
   vector tuple (an oracle function of the vector only). *)
From Coq Require Import List Bool ZArith Arith.
Import ListNotations.

Section IndEq.
  Context {T : Type} (ltb : T -> T -> bool) (absdiff : T -> T -> T) (tol : T).

  Definition close (a b : T) : bool := ltb (absdiff a b) tol.

  (* for i in range(len(self.vector)): if not abs(self[i] - other[i]) < 1e-10: return False
     return True.   None = IndexError (other is shorter and no earlier coordinate differs) *)
  Fixpoint ind_eq (v w : list T) : option bool :=
    match v with
    | [] => Some true
    | a :: v' =>
        match w with
        | [] => None
        | b :: w' => if close a b then ind_eq v' w' else Some false
        end
    end.

  Definition eqb_ind (v w : list T) : bool :=
    match ind_eq v w with Some true => true | _ => false end.

  (* individuals as seen by containers: (object, vector) with hash h vector.  The first component
     is the identity of the Python object (what `is` compares), NOT the attribute Individual.id.
     The model individual has no other component: Individual.id, costs, costs_signed, state,
     population_id, algorithm_id, features, custom, parents, children and the class of the object
     do not exist here, so every result below is independent of them by construction (the
     correspondence varies all of them on the real objects). *)
  Variable h : list T -> Z.
  Definition indiv : Type := (nat * list T)%type.
  Definition ivec (x : indiv) := snd x.
  Definition ihash (x : indiv) : Z := h (ivec x).

  (* `x in l` / any(x == o for o in l): item == x is evaluated as item.__eq__(x) for `in`
     and list.remove; identity (same id) short-cuts to True *)
  Definition item_eq (item x : indiv) : bool :=
    Nat.eqb (fst item) (fst x) || eqb_ind (ivec item) (ivec x).

  Definition mem (x : indiv) (l : list indiv) : bool := existsb (fun item => item_eq item x) l.

  Fixpoint list_remove (x : indiv) (l : list indiv) : option (list indiv) :=   (* None = ValueError *)
    match l with
    | [] => None
    | y :: l' => if item_eq y x then Some l'
                 else match list_remove x l' with Some r => Some (y :: r) | None => None end
    end.

  (* set(list): an element is merged into an existing entry when the hashes are equal and
     entry == element; result in insertion order of the representatives (the iteration order
     of a real set is hash order: compared as a set of ids) *)
  Definition same_key (entry x : indiv) : bool :=
    Z.eqb (ihash entry) (ihash x) && item_eq entry x.
  Definition set_add (acc : list indiv) (x : indiv) : list indiv :=
    if existsb (fun e => same_key e x) acc then acc else acc ++ [x].
  Definition dedupe (l : list indiv) : list indiv := fold_left set_add l [].

  (* the duplicate test of GeneticAlgorithm.generate: any(child == o for o in offsprings) *)
  Definition child_repeated (child : indiv) (offs : list indiv) : bool :=
    existsb (fun o => eqb_ind (ivec child) (ivec o)) offs.

  (* GeneticAlgorithm.generate (algorithm_genetic.py 35-73), the part that decides which children
     survive.  The selector / crossover / mutator results are an input: the stream of child pairs
     (child1, child2) in the order the loop produces them.  One pass of the while body:
        if len(offsprings) == 0: offsprings.append(child1)
        if any(child1 == o for o in offsprings) and len(offsprings) < N: pass
        else: offsprings.append(child1)
        if any(child2 == o for o in offsprings) and len(offsprings) < N: pass
        elif len(offsprings) < N: offsprings.append(child2)                                   *)
  Definition gen_step (N : nat) (offs : list indiv) (c1 c2 : indiv) : list indiv :=
    let offs1 := match offs with [] => [c1] | _ => offs end in
    let offs2 := if child_repeated c1 offs1 && (length offs1 <? N)%nat then offs1 else offs1 ++ [c1] in
    if child_repeated c2 offs2 && (length offs2 <? N)%nat then offs2
    else if (length offs2 <? N)%nat then offs2 ++ [c2] else offs2.

  (* while len(offsprings) < N: ...   Result: the offspring list and the number of pairs of the
     stream that were not consumed (a stream that ends early leaves len < N). *)
  Fixpoint generate (N : nat) (pairs : list (indiv * indiv)) (offs : list indiv) : list indiv * nat :=
    if (N <=? length offs)%nat then (offs, length pairs)
    else match pairs with
         | [] => (offs, 0%nat)
         | (c1, c2) :: ps => generate N ps (gen_step N offs c1 c2)
         end.
End IndEq.
