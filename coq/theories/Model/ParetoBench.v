(* Model of artap/benchmark_pareto.py over Coq's real numbers (regime R4): DTLZI, DTLZII, DTLZIII,
   DTLZIV, ZDT1 (eval_g, eval_h) and BiObjectiveTestProblem.  Definitions only.

   The evaluate methods are mirrored loop by loop with the code's own index expressions
   (`x[j]`, `x[m - i - 1]`, `x[len(x) - i - 1]`, `x[nvar - k:]`), the hard-coded `k = 10` of
   DTLZII-IV, the order of the multiplications and `m = len(self.costs)` as the parameter `m`.
   `x[i]` is `nth i x 0`, `for v in range(0, n): acc = step acc v` is
   `fold_left step (seq 0 n) acc`, natural-number subtraction stands for Python's integer
   subtraction (they agree when the dimension is at least m resp. at least 10, which the
   theorems assume; below that Python wraps negative indices and the model does not). *)
From Coq Require Import Reals List Arith.
Import ListNotations.
Local Open Scope R_scope.

(* Python's sum(l): 0 + l[0] + l[1] + ... *)
Definition pysum (l : list R) : R := fold_left Rplus l 0.

(* for j in range(0, n): fi *= term j *)
Definition mul_loop (term : nat -> R) (n : nat) (fi : R) : R :=
  fold_left (fun fi j => fi * term j) (seq 0 n) fi.

(* for i in range(0, k): gm += term (x[len(x) - i - 1]) *)
Definition tail_loop (term : R -> R) (k : nat) (x : list R) (gm : R) : R :=
  fold_left (fun gm i => gm + term (nth (length x - i - 1) x 0)) (seq 0 k) gm.

(* ---------------------------------------------------------------- DTLZI.evaluate *)
Definition dtlz1_gterm (y : R) : R := (y - 0.5) * (y - 0.5) - cos (20 * PI * (y - 0.5)).

Definition dtlz1_g (m : nat) (x : list R) : R :=
  let nvar := length x in
  let k := (nvar - m + 1)%nat in
  let g := pysum (map dtlz1_gterm (skipn (nvar - k) x)) in
  100 * (INR k + g).

Definition dtlz1_obj (m : nat) (x : list R) (i : nat) : R :=
  let factor := 0.5 * (1 + dtlz1_g m x) in
  let fi := mul_loop (fun j => nth j x 0) (m - i - 1) factor in
  if (0 <? i)%nat then fi * (1 - nth (m - i - 1) x 0) else fi.

Definition dtlz1 (m : nat) (x : list R) : list R := map (dtlz1_obj m x) (seq 0 m).

(* ---------------------------------------------------------------- DTLZII.evaluate *)
Definition sq_term (y : R) : R := (y - 0.5) ^ 2.

Definition dtlz2_obj (m : nat) (x : list R) (i : nat) : R :=
  let fi := mul_loop (fun j => cos (0.5 * nth j x 0 * PI)) (m - i - 1) 1 in
  let fi := if (0 <? i)%nat then fi * sin (nth (m - i - 1) x 0 * PI / 2) else fi in
  let gm := tail_loop sq_term 10 x 0 in
  fi * (1 + gm).

Definition dtlz2 (m : nat) (x : list R) : list R := map (dtlz2_obj m x) (seq 0 m).

(* ---------------------------------------------------------------- DTLZIII.evaluate *)
Definition dtlz3_gterm (y : R) : R := (y - 0.5) ^ 2 - cos (20 * PI * (y - 0.5)).

Definition dtlz3_obj (m : nat) (x : list R) (i : nat) : R :=
  let fi := mul_loop (fun j => cos (0.5 * nth j x 0 * PI)) (m - i - 1) 1 in
  let fi := if (0 <? i)%nat then fi * sin (nth (m - i - 1) x 0 * PI / 2) else fi in
  let gm := tail_loop dtlz3_gterm 10 x 10 in          (* gm = float(k) *)
  fi * (1 + 100 * gm).

Definition dtlz3 (m : nat) (x : list R) : list R := map (dtlz3_obj m x) (seq 0 m).

(* ---------------------------------------------------------------- DTLZIV.evaluate *)
Definition dtlz4_alpha : nat := 100.

Definition dtlz4_obj (m : nat) (x : list R) (i : nat) : R :=
  let fi := mul_loop (fun j => cos (0.5 * nth j x 0 ^ dtlz4_alpha * PI)) (m - i - 1) 1 in
  let fi := if (0 <? i)%nat then fi * sin (nth (m - i - 1) x 0 ^ dtlz4_alpha * PI / 2) else fi in
  let gm := tail_loop sq_term 10 x 0 in
  fi * (1 + gm).

Definition dtlz4 (m : nat) (x : list R) : list R := map (dtlz4_obj m x) (seq 0 m).

(* ---------------------------------------------------------------- ZDT1 *)
Definition zdt1_eval_g (x : list R) : R :=
  let g := pysum x - nth 0 x 0 in
  let constant := 9 / (INR (length x) - 1) in
  constant * g + 1.

Definition zdt1_eval_h (f g : R) : R := 1 - sqrt (f / g).

Definition zdt1 (x : list R) : list R :=
  let g := zdt1_eval_g x in
  let h := zdt1_eval_h (nth 0 x 0) g in
  let f1 := nth 0 x 0 in
  let f2 := h * g in
  [f1; f2].

(* ---------------------------------------------------------------- BiObjectiveTestProblem *)
Definition biobj (x : list R) : list R :=
  let f1 := nth 0 x 0 in
  let f2 := (1 + nth 1 x 0) / nth 0 x 0 in
  [f1; f2].

(* The DTLZII-IV code before the `fix:` commit of finding F6 indexed the sine factor with
   x[m - i] instead of x[m - i - 1]; kept only to document the finding (Proofs: refuted). *)
Definition dtlz2_obj_F6 (m : nat) (x : list R) (i : nat) : R :=
  let fi := mul_loop (fun j => cos (0.5 * nth j x 0 * PI)) (m - i - 1) 1 in
  let fi := if (0 <? i)%nat then fi * sin (nth (m - i) x 0 * PI / 2) else fi in
  let gm := tail_loop sq_term 10 x 0 in
  fi * (1 + gm).

Definition dtlz2_F6 (m : nat) (x : list R) : list R := map (dtlz2_obj_F6 m x) (seq 0 m).

(* ---------------------------------------------------------------- specification vocabulary *)
Definition sum (l : list R) : R := fold_right Rplus 0 l.
Definition sum_sq (l : list R) : R := sum (map (fun y => y * y) l).
Definition norm2 (l : list R) : R := sqrt (sum_sq l).
Definition mean (l : list R) : R := sum l / INR (length l).
Definition lastn (k : nat) (x : list R) : list R := skipn (length x - k) x.
Definition in_box (lo hi : R) (x : list R) : Prop := Forall (fun y => lo <= y <= hi) x.
Definition all_nonneg (l : list R) : Prop := Forall (fun y => 0 <= y) l.

(* the families' distance functions of the distance variables x_M (Deb et al. 2002) *)
Definition g_multimodal (xm : list R) : R :=
  100 * (INR (length xm) + sum (map (fun y => (y - 0.5) ^ 2 - cos (20 * PI * (y - 0.5))) xm)).
Definition g_sphere (xm : list R) : R := sum (map (fun y => (y - 0.5) ^ 2) xm).
