(* Model of artap/operators.py: crowding_distance, nondominated_truncate / nondominated_cmp and
   TournamentSelector.select (lines 1214-1352).  Regime R2: T = cost type with the comparison ltb
   and the abstract operators add / sub / div / zero; crowding distances live in Ext T, where Inf
   stands for math.inf (inf + finite = inf, and nothing is smaller than -inf).
   Definitions only; quirks mirrored:
     - crowding_distance sorts the front list IN PLACE once per objective (stable list.sort on the
       objective value), so the order left by objective d is the input order of objective d+1;
     - the two ends get inf, interior positions get `+= (next - prev) / (max - min)` only when
       `max - min > 0.0`;
     - nondominated_truncate = list(set(population)) (iteration order = hash order: an oracle input),
       stable sort by nondominated_cmp (front ascending, crowding descending), slice;
     - the tournament draws random.sample(individuals, 2) and, on a tie, random.choice(candidates):
       both are oracle inputs (a tape the model checks for length). *)
From Coq Require Import List ZArith Bool Arith.
From Artap Require Import Base.StableSort Model.Dominance.
Import ListNotations.

Inductive Ext (T : Type) : Type := Fin (t : T) | Inf.
Arguments Fin {T} t.
Arguments Inf {T}.

Section Crowding.
  Context {T : Type} (ltb : T -> T -> bool) (add sub div : T -> T -> T) (zero : T).
  Context {A : Type} (costs : A -> list T).       (* the objective part of costs_signed *)

  (* features['crowding_distance'] += t *)
  Definition ext_add (e : Ext T) (t : T) : Ext T :=
    match e with Fin a => Fin (add a t) | Inf => Inf end.

  Definition obj (d : nat) (x : A) : T := nth d (costs x) zero.      (* x.costs_signed[d] *)
  Definition okey (d : nat) (p : A * Ext T) : T := obj d (fst p).
  (* list.sort(key=...) only asks `key(y) < key(x)`; "x may stay before y" *)
  Definition key_leb (d : nat) (p q : A * Ext T) : bool := negb (ltb (okey d q) (okey d p)).

  (* what position i of the sorted front receives for one objective; ks = the sorted keys *)
  Definition upd (ks : list T) (n : nat) (ip : nat * (A * Ext T)) : A * Ext T :=
    let '(i, (x, acc)) := ip in
    if (i =? 0) || (i =? n - 1) then (x, Inf)
    else
      let range := sub (nth (n - 1) ks zero) (nth 0 ks zero) in          (* max_distance *)
      if ltb zero range                                                    (* max_distance > 0.0 *)
      then (x, ext_add acc (div (sub (nth (i + 1) ks zero) (nth (i - 1) ks zero)) range))
      else (x, acc).

  (* the body of `for dim in range(...)`: state = the front list in its current order with the
     distances accumulated so far *)
  Definition cstep (l : list (A * Ext T)) (d : nat) : list (A * Ext T) :=
    let s := ssort (key_leb d) l in
    let n := length s in
    map (upd (map (okey d) s) n) (combine (seq 0 n) s).

  Definition nobj (f : list A) : nat :=                      (* len(front[0].costs_signed[:-1]) *)
    match f with [] => 0 | x :: _ => length (costs x) end.

  (* result: the front in the order the call leaves it in, each member with its distance *)
  Definition crowding (f : list A) : list (A * Ext T) :=
    if length f <=? 2 then map (fun x => (x, Inf)) f
    else fold_left cstep (seq 0 (nobj f)) (map (fun x => (x, Fin zero)) f).
End Crowding.

Section Truncate.
  Context {T : Type} (ltb : T -> T -> bool).
  Context {A : Type} (iid : A -> nat) (front : A -> nat) (cdist : A -> Ext T).
  Context (deq : A -> A -> bool).   (* "entry == element" as set() sees it: same hash and __eq__ *)

  Definition ext_ltb (a b : Ext T) : bool :=
    match a, b with
    | Fin x, Fin y => ltb x y
    | Fin _, Inf => true
    | Inf, _ => false
    end.

  (* nondominated_cmp p q < 0 : the only question sorted(key=cmp_to_key(...)) asks *)
  Definition nd_lt (p q : A) : bool :=
    if front p =? front q then ext_ltb (cdist q) (cdist p)     (* -p.cd < -q.cd *)
    else front p <? front q.
  Definition nd_leb (p q : A) : bool := negb (nd_lt q p).

  (* set(population): an element is dropped when an entry already in the set equals it *)
  Definition set_add (acc : list A) (x : A) : list A :=
    if existsb (fun e => deq e x) acc then acc else acc ++ [x].
  Definition dedupe (l : list A) : list A := fold_left set_add l [].

  Definition find_id (l : list A) (i : nat) : option A := find (fun x => iid x =? i) l.
  Fixpoint arrange (dd : list A) (order : list nat) : option (list A) :=
    match order with
    | [] => Some []
    | i :: o' => match find_id dd i, arrange dd o' with
                 | Some x, Some r => Some (x :: r)
                 | _, _ => None
                 end
    end.
  Fixpoint nodupb (l : list nat) : bool :=
    match l with [] => true | i :: l' => negb (existsb (Nat.eqb i) l') && nodupb l' end.

  (* order = the ids in the observed iteration order of list(set(population)); None when it is not
     a permutation of the de-duplicated population (fail closed) *)
  Definition truncate (pop : list A) (order : list nat) (k : nat) : option (list A) :=
    let dd := dedupe pop in
    if (length order =? length dd) && nodupb order then
      match arrange dd order with
      | Some l => Some (firstn k (ssort nd_leb l))
      | None => None
      end
    else None.
End Truncate.

Section Tournament.
  Context {T : Type} (ltb : T -> T -> bool).
  Context {A : Type} (front : A -> nat) (cost : A -> list T * Z).   (* costs_signed = objectives ++ [marker] *)

  (* smp = positions (in the population list) of random.sample's two picks, in the order returned;
     coin = index random.choice picked among the two candidates.  An entry that is present but not
     consumed, or needed but absent, is a tape mismatch (None).  Result: (winner, loser). *)
  Definition tournament2 (pop : list A) (smp : option (nat * nat)) (coin : option nat) : option (A * option A) :=
    match pop with
    | [x] => match smp, coin with None, None => Some (x, None) | _, _ => None end
    | _ =>
      match smp with
      | Some (i, j) =>
        if i =? j then None else
        match nth_error pop i, nth_error pop j with
        | Some c0, Some c1 =>
          let nocoin (r : A * option A) := match coin with None => Some r | Some _ => None end in
          if front c0 <? front c1 then nocoin (c0, Some c1)
          else if front c1 <? front c0 then nocoin (c1, Some c0)
          else match pareto_compare ltb (cost c0) (cost c1) with
               | 1 => nocoin (c0, Some c1)
               | 2 => nocoin (c1, Some c0)
               | _ => match coin with
                      | Some 0 => Some (c0, Some c1)
                      | Some 1 => Some (c1, Some c0)
                      | _ => None
                      end
               end
        | _, _ => None
        end
      | None => None
      end
    end.

  Definition tournament pop smp coin : option A := option_map fst (tournament2 pop smp coin).
End Tournament.
