(* Commit protocol of the SQLite store and crash points (C11), on top of the store model of
   Model/Store.v (C10).

   What job.py / datastore.py do with one design, as a sequence of steps that a process death can
   separate (job.py 27-49, datastore.py 157-178):
     state := IN_PROGRESS; costs := objective(vector); calc_signed_costs; state := EVALUATED;
     sync_individual = [ execute(upsert, [id, json.dumps(to_dict())]) ; commit() ] on a connection
     of its own (thread-safe mode); then the call returns.
   If the objective raises TimeoutError / RuntimeError (job.py 50-60) the individual gets a freshly drawn
   vector and state EMPTY and the loop tries again (SFail): the failure path performs NO store statement.
   sync_all is [ execute* ; commit ] on one connection.  IndividualNSGAII.copy() makes a new
   individual (new id, state EMPTY) that carries the vector, costs and signed costs of an evaluated one.

   The durable state is the committed table c_db: statements executed on a connection that has not
   committed are lost with the process (assumption on SQLite: atomic commit through the rollback
   journal; exercised, not modelled).  The objective and the signed-cost computation are inputs. *)
From Coq Require Import List ZArith Bool String.
From Artap Require Import Model.Store.
Import ListNotations.
Local Open Scope Z_scope.
Local Open Scope string_scope.
Local Open Scope list_scope.

Section Crash.
  Variable objective : list jv -> list jv.        (* problem.evaluate on a vector *)
  Variable signed : list jv -> list jv -> jv.     (* calc_signed_costs: vector (feasibility), costs *)

  (* c names a connection, i / j an individual id *)
  Inductive step :=
  | SStart (i : Z)                   (* state := IN_PROGRESS; the objective is entered *)
  | SCosts (i : Z)                   (* individual.costs := objective(vector) *)
  | SSigned (i : Z)                  (* calc_signed_costs *)
  | SDone (i : Z)                    (* state := EVALUATED *)
  | SFail (i : Z) (v : list jv)      (* objective raised: new random vector, state := EMPTY *)
  | SCopy (j i : Z)                  (* j := copy of i (vector, costs, signed costs; state EMPTY) *)
  | SExec (c i : Z)                  (* execute(upsert, [id, json.dumps(to_dict())]) on connection c *)
  | SCommit (c : Z)                  (* conn.commit() *)
  | SReturn (i : Z)                  (* a synchronisation of i has returned to its caller *)
  | SReopen                          (* the process is gone; a new one opens the file in write mode:
                                        read_from_datastore rebuilds an Individual from every committed row *)
  | SNew (i : Z) (v : list jv)       (* Individual(v) is created with id i (ids restart in a new process, so i may
                                        also be the id of an individual reloaded from the file: see c_old) *)
  | SExecOld (c i : Z).              (* execute(upsert, ..) for the individual that was *reloaded* from row i *)

  Record cstate := {
    c_mem : Z -> individual;               (* the Python objects created by this process, by id *)
    c_old : Z -> option individual;        (* the objects rebuilt from the rows when the file was re-opened, by id
                                              (a new individual may get the id of one of them: two objects, one id) *)
    c_pend : Z -> list (Z * jv);           (* statements executed but not committed, per connection *)
    c_db : store;                          (* the committed table: what a crash leaves behind *)
    c_synced : list Z;                     (* ghost: ids executed on a connection that has committed since *)
    c_ret : list Z;                        (* ids whose synchronisation has returned *)
    c_ph : Z -> nat }.                     (* ghost: 0 not evaluated, 1 in progress, 2 costs set, 3 signed costs set,
                                                     4 final (evaluated, or a copy of a final individual) *)

  Definition upd {A} (f : Z -> A) (k : Z) (v : A) : Z -> A := fun k' => if Z.eqb k' k then v else f k'.

  Definition set_state (x : individual) (s : istate) : individual :=
    {| i_id := i_id x; i_vector := i_vector x; i_costs := i_costs x; i_costs_signed := i_costs_signed x;
       i_state := s; i_population_id := i_population_id x; i_algorithm_id := i_algorithm_id x;
       i_custom := i_custom x; i_features := i_features x; i_parents := i_parents x; i_children := i_children x |}.
  Definition set_costs (x : individual) (c : list jv) : individual :=
    {| i_id := i_id x; i_vector := i_vector x; i_costs := c; i_costs_signed := i_costs_signed x;
       i_state := i_state x; i_population_id := i_population_id x; i_algorithm_id := i_algorithm_id x;
       i_custom := i_custom x; i_features := i_features x; i_parents := i_parents x; i_children := i_children x |}.
  Definition set_signed (x : individual) (c : jv) : individual :=
    {| i_id := i_id x; i_vector := i_vector x; i_costs := i_costs x; i_costs_signed := c;
       i_state := i_state x; i_population_id := i_population_id x; i_algorithm_id := i_algorithm_id x;
       i_custom := i_custom x; i_features := i_features x; i_parents := i_parents x; i_children := i_children x |}.
  Definition set_vector (x : individual) (v : list jv) : individual :=
    {| i_id := i_id x; i_vector := v; i_costs := i_costs x; i_costs_signed := i_costs_signed x;
       i_state := i_state x; i_population_id := i_population_id x; i_algorithm_id := i_algorithm_id x;
       i_custom := i_custom x; i_features := i_features x; i_parents := i_parents x; i_children := i_children x |}.
  (* IndividualNSGAII.copy: self.__class__(self.vector) with costs and costs_signed taken over *)
  Definition copy_of (x : individual) (j : Z) : individual :=
    {| i_id := j; i_vector := i_vector x; i_costs := i_costs x; i_costs_signed := i_costs_signed x;
       i_state := Empty; i_population_id := i_population_id x; i_algorithm_id := i_algorithm_id x;
       i_custom := i_custom x; i_features := i_features x; i_parents := []; i_children := [] |}.

  (* a fresh individual as Individual(vector) builds it *)
  Definition fresh (i : Z) (v : list jv) : individual :=
    {| i_id := i; i_vector := v; i_costs := []; i_costs_signed := JArr []; i_state := Empty;
       i_population_id := JNum (NInt (-1)); i_algorithm_id := JNum (NInt 0); i_custom := JObj [];
       i_features := []; i_parents := []; i_children := [] |}.

  Definition apply_pending (p : list (Z * jv)) (db : store) : store :=
    fold_left (fun d kr => upsert (fst kr) (snd kr) d) p db.

  Definition do_step (st : cstate) (x : step) : cstate :=
    match x with
    | SStart i =>
        {| c_mem := upd (c_mem st) i (set_state (c_mem st i) InProgress); c_old := c_old st; c_pend := c_pend st;
           c_db := c_db st; c_synced := c_synced st; c_ret := c_ret st; c_ph := upd (c_ph st) i 1%nat |}
    | SCosts i =>
        {| c_mem := upd (c_mem st) i (set_costs (c_mem st i) (objective (i_vector (c_mem st i)))); c_old := c_old st;
           c_pend := c_pend st; c_db := c_db st; c_synced := c_synced st; c_ret := c_ret st;
           c_ph := upd (c_ph st) i 2%nat |}
    | SSigned i =>
        {| c_mem := upd (c_mem st) i
                        (set_signed (c_mem st i) (signed (i_vector (c_mem st i)) (i_costs (c_mem st i)))); c_old := c_old st;
           c_pend := c_pend st; c_db := c_db st; c_synced := c_synced st; c_ret := c_ret st;
           c_ph := upd (c_ph st) i 3%nat |}
    | SDone i =>
        {| c_mem := upd (c_mem st) i (set_state (c_mem st i) Evaluated); c_old := c_old st; c_pend := c_pend st;
           c_db := c_db st; c_synced := c_synced st; c_ret := c_ret st; c_ph := upd (c_ph st) i 4%nat |}
    | SFail i v =>
        {| c_mem := upd (c_mem st) i (set_state (set_vector (c_mem st i) v) Empty); c_old := c_old st; c_pend := c_pend st;
           c_db := c_db st; c_synced := c_synced st; c_ret := c_ret st; c_ph := upd (c_ph st) i 0%nat |}
    | SCopy j i =>
        {| c_mem := upd (c_mem st) j (copy_of (c_mem st i) j); c_old := c_old st; c_pend := c_pend st;
           c_db := c_db st; c_synced := c_synced st; c_ret := c_ret st; c_ph := upd (c_ph st) j 4%nat |}
    | SExec c i =>
        {| c_mem := c_mem st; c_old := c_old st; c_pend := upd (c_pend st) c (c_pend st c ++ [(i, to_dict (c_mem st i))]);
           c_db := c_db st; c_synced := c_synced st; c_ret := c_ret st; c_ph := c_ph st |}
    | SCommit c =>
        {| c_mem := c_mem st; c_old := c_old st; c_pend := upd (c_pend st) c [];
           c_db := apply_pending (c_pend st c) (c_db st); c_synced := map fst (c_pend st c) ++ c_synced st;
           c_ret := c_ret st; c_ph := c_ph st |}
    | SReturn i =>
        {| c_mem := c_mem st; c_old := c_old st; c_pend := c_pend st; c_db := c_db st; c_synced := c_synced st;
           c_ret := i :: c_ret st; c_ph := c_ph st |}
    | SReopen =>
        {| c_mem := c_mem st;                        (* (no object of the old process is referred to again: c_ph = 0) *)
           c_old := fun i => option_map (loaded_of_row i) (lookup i (c_db st));
           c_pend := fun _ => [];                    (* the old connections died with their process *)
           c_db := c_db st; c_synced := c_synced st; c_ret := c_ret st; c_ph := fun _ => 0%nat |}
    | SNew i v =>
        {| c_mem := upd (c_mem st) i (fresh i v); c_old := c_old st; c_pend := c_pend st; c_db := c_db st;
           c_synced := c_synced st; c_ret := c_ret st; c_ph := upd (c_ph st) i 0%nat |}
    | SExecOld c i =>
        match c_old st i with
        | Some x =>
            {| c_mem := c_mem st; c_old := c_old st; c_pend := upd (c_pend st) c (c_pend st c ++ [(i_id x, to_dict x)]);
               c_db := c_db st; c_synced := c_synced st; c_ret := c_ret st; c_ph := c_ph st |}
        | None => st
        end
    end.

  Definition run_steps (tr : list step) (st : cstate) : cstate := fold_left do_step tr st.

  (* what a fresh process finds after the writer died: the committed table *)
  Definition recovered (st : cstate) : store := c_db st.
  (* statements whose commit may be under way at an arbitrary instant *)
  Definition in_flight (st : cstate) (conns : list Z) : list (Z * jv) := flat_map (c_pend st) conns.

  (* The order that Job.evaluate and the store impose on the steps, as a condition on the order of
     events only (it never looks at the table): the objective is entered for a design that is not
     being evaluated; costs, signed costs and the state follow in this order; only a final individual is
     copied or handed to execute; a synchronisation returns after a commit on the connection that
     executed its statement.  Checked on every observed trace, proved for every interleaving of job lists. *)
  Definition step_ok (st : cstate) (x : step) : bool :=
    match x with
    | SStart i => Nat.eqb (c_ph st i) 0 || Nat.eqb (c_ph st i) 4
    | SCosts i => Nat.eqb (c_ph st i) 1
    | SSigned i => Nat.eqb (c_ph st i) 2
    | SDone i => Nat.eqb (c_ph st i) 3
    | SFail i _ => Nat.eqb (c_ph st i) 1
    | SCopy j i => Nat.eqb (c_ph st i) 4 && Nat.eqb (c_ph st j) 0
    | SExec _ i => Nat.eqb (c_ph st i) 4
    | SCommit _ => true
    | SReturn i => existsb (Z.eqb i) (c_synced st)
    | SReopen => true
    | SNew _ _ => true
    | SExecOld _ i => match c_old st i with Some _ => true | None => false end
    end.

  Fixpoint legal (st : cstate) (tr : list step) : bool :=
    match tr with
    | [] => true
    | x :: tr' => step_ok st x && legal (do_step st x) tr'
    end.

  (* Job.evaluate on design i followed by sync_individual on its own connection (named i) *)
  Definition job (i : Z) : list step :=
    [SStart i; SCosts i; SSigned i; SDone i; SExec i i; SCommit i; SReturn i].
  (* a failed attempt of Job.evaluate (job.py 50-60): the objective is entered and raises TimeoutError /
     RuntimeError; the individual gets the freshly drawn replacement vector v and state EMPTY, and the loop
     tries again.  NO store statement: nothing is executed or committed between a failed attempt and the
     attempt that succeeds. *)
  Definition failed_attempt (i : Z) (v : list jv) : list step := [SStart i; SFail i v].
  (* Job.evaluate on design i whose first attempts fail (replacement vectors vs; the code allows at most
     four before it gives up, the model any number) and whose next attempt succeeds *)
  Definition job_retry (i : Z) (vs : list (list jv)) : list step := flat_map (failed_attempt i) vs ++ job i.
  (* a later sync_individual of an evaluated design by the algorithm, on connection c *)
  Definition resync (c i : Z) : list step := [SExec c i; SCommit c; SReturn i].
  (* sync_all on connection c over the recorded individuals *)
  Definition sync_all_steps (c : Z) (ids : list Z) : list step :=
    map (SExec c) ids ++ [SCommit c] ++ map SReturn ids.

  Fixpoint vector_of (designs : list (Z * list jv)) (i : Z) : list jv :=
    match designs with
    | [] => []
    | (k, v) :: ds => if Z.eqb k i then v else vector_of ds i
    end.

  Definition init_state (designs : list (Z * list jv)) (db0 : store) : cstate :=
    {| c_mem := fun i => fresh i (vector_of designs i); c_old := fun _ => None; c_pend := fun _ => []; c_db := db0;
       c_synced := []; c_ret := []; c_ph := fun _ => 0%nat |}.

  (* an individual whose stored image is complete: costs and signed costs belong to its vector, and it
     is EVALUATED (or the EMPTY-state copy of an evaluated one that NSGA-II records, or such an individual
     reloaded from the file by a later session) *)
  Definition consistent (x : individual) : Prop :=
    i_costs x = objective (i_vector x) /\ i_costs_signed x = signed (i_vector x) (i_costs x) /\
    (i_state x = Evaluated \/ i_state x = Empty \/ i_state x = Loaded).

  Definition good_row (k : Z) (r : jv) : Prop := exists x, r = to_dict x /\ i_id x = k /\ consistent x.
End Crash.

(* all interleavings of a family of step lists *)
Inductive merge {A : Type} : list (list A) -> list A -> Prop :=
| merge_done : forall ts, (forall t, In t ts -> t = []) -> merge ts []
| merge_pick : forall ts1 x t ts2 tr,
    merge (ts1 ++ t :: ts2) tr -> merge (ts1 ++ (x :: t) :: ts2) (x :: tr).

Definition prefix {A : Type} (p l : list A) : Prop := exists s, l = p ++ s.
