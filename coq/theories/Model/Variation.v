(* Model of the box-preserving variation / sampling code of artap (property C08):
     operators.py  Operator.clip, PmMutator.mutate, UniformMutator.mutate, NonUniformMutation.mutate,
                   SimulatedBinaryCrossover.cross
     utils.py      VectorAndNumbers.gen_number / gen_vector          (exact rationals, section GenQ)
     algorithm_swarm.py  OMOPSO/SMPSO/PSOGA.update_position, one particle     (position_update)
   Executable definitions only.  The order is a boolean `ltb` (Python's `<`); everything the
   code computes with `pow` (the pre-clip value of a mutated coordinate) and every random draw
   is an entry of an oracle tape that is an input of the model.  A parameter is the pair
   (lower bound, upper bound) taken from the problem's parameter list. *)
From Coq Require Import List Bool ZArith QArith Qround.
Import ListNotations.

Section Var.
  Context {T : Type} (ltb : T -> T -> bool).

  (* Python: min(a, b) returns a unless b < a;  max(a, b) returns a unless b > a *)
  Definition pmin (a b : T) : T := if ltb b a then b else a.
  Definition pmax (a b : T) : T := if ltb a b then b else a.

  (* Operator.clip(value, min_value, max_value) = max(min_value, min(value, max_value)) *)
  Definition clip (v lo hi : T) : T := pmax lo (pmin v hi).

  (* oracle tape: Draw = a result of random.random() / random.uniform(0, 1), in call order;
     Pre = the first argument of a clip call (the value of the float formula with pow) *)
  Inductive entry : Type := Draw (r : T) | Pre (x : T).

  Fixpoint skip_draws (k : nat) (tape : list entry) : option (list entry) :=
    match k with
    | O => Some tape
    | S k' => match tape with Draw _ :: t => skip_draws k' t | _ => None end
    end.

  Definition ocons (x : T) (r : option (list T)) : option (list T) :=
    match r with Some l => Some (x :: l) | None => None end.

  (* the common loop of the three mutators:
       for i, parameter in enumerate(self.parameters):
           if random.uniform(0, 1) < self.probability:
               vector.append(self.<op>(parent[i], l_b, u_b))      # k draws, then clip(pre, lb, ub)
           else:
               vector.append(parent[i])
     A parent shorter than the parameter list is an IndexError (None); a longer one is cut. *)
  Fixpoint mutate_with (k : nat) (prob : T) (params : list (T * T)) (parent : list T)
           (tape : list entry) : option (list T) :=
    match params with
    | [] => match tape with [] => Some [] | _ => None end
    | (lb, ub) :: ps =>
        match parent, tape with
        | x :: xs, Draw u :: t1 =>
            if ltb u prob then
              match skip_draws k t1 with
              | Some (Pre pre :: t2) => ocons (clip pre lb ub) (mutate_with k prob ps xs t2)
              | _ => None
              end
            else ocons x (mutate_with k prob ps xs t1)
        | _, _ => None
        end
    end.

  (* PmMutator.pm_mutation: rnd = random.uniform(0, 1); ...pow...; clip(x + deltaq * dx, lb, ub) *)
  Definition pm_mutate := mutate_with 1.
  (* UniformMutator.uniform_mutation: clip(x + (random.random() - 0.5) * perturbation, lb, ub) *)
  Definition uniform_mutate := mutate_with 1.
  (* NonUniformMutation.non_uniform_mutation: rand = random.random(); delta draws random.random()
     again inside pow; the coordinate is REPLACED by the delta, then clipped *)
  Definition nonuniform_mutate := mutate_with 2.

  (* SimulatedBinaryCrossover.cross.  `far a b` stands for abs(b - a) > EPSILON, `half` for 0.5.
       x1 = p1.copy(); x2 = p2.copy()
       if random.random() <= probability:
         for i, param in enumerate(parameters):
           if random.random() <= 0.5:
             if abs(x2[i] - x1[i]) > EPSILON:
               rand = random.random(); c1 = clip(pre1, lb, ub); c2 = clip(pre2, lb, ub)
               if random.random() <= 0.5: x1[i], x2[i] = c2, c1  else: x1[i], x2[i] = c1, c2
     Coordinates beyond the parameter list are copied unchanged. *)
  Variable far : T -> T -> bool.
  Variable half : T.

  Definition ocons2 (a b : T) (r : option (list T * list T)) : option (list T * list T) :=
    match r with Some (l1, l2) => Some (a :: l1, b :: l2) | None => None end.

  Fixpoint sbx_loop (params : list (T * T)) (x1 x2 : list T) (tape : list entry)
    : option (list T * list T) :=
    match params with
    | [] => match tape with [] => Some (x1, x2) | _ => None end
    | (lb, ub) :: ps =>
        match x1, x2, tape with
        | a :: x1', b :: x2', Draw r :: t1 =>
            if ltb half r then ocons2 a b (sbx_loop ps x1' x2' t1)
            else if far a b then
              match t1 with
              | Draw _ :: Pre p1 :: Pre p2 :: Draw s :: t2 =>
                  let c1 := clip p1 lb ub in
                  let c2 := clip p2 lb ub in
                  if ltb half s then ocons2 c1 c2 (sbx_loop ps x1' x2' t2)
                  else ocons2 c2 c1 (sbx_loop ps x1' x2' t2)
              | _ => None
              end
            else ocons2 a b (sbx_loop ps x1' x2' t1)
        | _, _, _ => None
        end
    end.

  Definition sbx_cross (prob : T) (params : list (T * T)) (p1 p2 : list T) (tape : list entry)
    : option (list T * list T) :=
    match tape with
    | Draw r0 :: t =>
        if ltb prob r0 then match t with [] => Some (p1, p2) | _ => None end
        else sbx_loop params p1 p2 t
    | _ => None
    end.

  (* swarm update_position, one particle (OMOPSO / PSOGA: bounce v = v * -1, SMPSO: v * 0.001):
       for parameter, i in zip(self.parameters, range(len(vector))):
           vector[i] = vector[i] + velocity[i]
           if vector[i] > ub: vector[i] = ub; velocity[i] = bounce velocity[i]
           if vector[i] < lb: vector[i] = lb; velocity[i] = bounce velocity[i]             *)
  Variable add : T -> T -> T.
  Variable bounce : T -> T.

  Definition position_coord (lb ub x v : T) : T * T :=
    let x1 := add x v in
    let '(x2, v2) := if ltb ub x1 then (ub, bounce v) else (x1, v) in
    if ltb x2 lb then (lb, bounce v2) else (x2, v2).

  (* zip(parameters, range(len(vector))): stops at the shorter of the two; coordinates beyond the
     parameter list keep their value; a velocity list shorter than that is an IndexError *)
  Fixpoint position_update (params : list (T * T)) (xs vs : list T) : option (list T * list T) :=
    match params, xs with
    | (lb, ub) :: ps, x :: xs' =>
        match vs with
        | v :: vs' => let '(x', v') := position_coord lb ub x v in
                      ocons2 x' v' (position_update ps xs' vs')
        | [] => None
        end
    | _, _ => Some (xs, vs)
    end.
End Var.

Arguments Draw {T} r.
Arguments Pre {T} x.

(* VectorAndNumbers.gen_number / gen_vector over exact rationals (regime R3):
     if precision == 0: precision = 1e-12
     number = random() * (bounds[1] - bounds[0]) + bounds[0]
     number = round(number / precision) * precision            # round: half to even *)
Local Open Scope Q_scope.

Definition round_half_even (y : Q) : Z :=
  let f := Qfloor y in
  match Qcompare (y - inject_Z f) (1 # 2) with
  | Lt => f
  | Gt => (f + 1)%Z
  | Eq => if Z.even f then f else (f + 1)%Z
  end.

(* the binary64 value of the literal 1e-12 = 0x1.19799812dea11p-40 *)
Definition default_precision : Q := 4951760157141521 # (2 ^ 92).

Definition effective_precision (p : Q) : Q := if Qeq_bool p 0 then default_precision else p.

Definition gen_number (r lb ub p : Q) : Q :=
  let p := effective_precision p in
  let x := r * (ub - lb) + lb in
  inject_Z (round_half_even (x / p)) * p.

(* gen_vector: one draw per parameter, in parameter order; a parameter is (lb, ub, precision),
   precision 0 when none is declared; None when the tape length differs *)
Fixpoint gen_vector (params : list (Q * Q * Q)) (draws : list Q) : option (list Q) :=
  match params, draws with
  | [], [] => Some []
  | (lb, ub, p) :: ps, r :: ds =>
      match gen_vector ps ds with Some l => Some (gen_number r lb ub p :: l) | None => None end
  | _, _ => None
  end.
