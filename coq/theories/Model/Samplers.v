(* Model of the space-filling samplers of artap (property C12), regime R3: exact rationals.

     artap/doe.py        construct_df_from_random_matrix, build_lhs / lhs / _lhsclassic,
                         build_halton / halton / _primes_from_2_to / _van_der_corput
     artap/operators.py  LHSGenerator, HaltonGenerator, UniformGenerator, RandomGenerator
     artap/utils.py      VectorAndNumbers.gen_number / gen_vector

   Random draws are oracle tapes that are inputs of the model: the matrix returned by
   RandomState.rand(samples, n), the index arrays returned by RandomState.permutation, the
   numbers returned by random.random().  Bounds are a list of (lower, upper) pairs, one per
   declared parameter, in declaration order.  Executable definitions only. *)
From Coq Require Import List ZArith QArith Qround Qabs Bool.
Import ListNotations.
Local Open Scope Q_scope.

Definition qn (k : nat) : Q := inject_Z (Z.of_nat k).
Definition mat (m : list (list Q)) (i j : nat) : Q := nth j (nth i m []) 0.
Definition column (j : nat) (m : list (list Q)) : list Q := map (fun row => nth j row 0) m.
Definition blo (bs : list (Q * Q)) (j : nat) : Q := fst (nth j bs (0, 0)).
Definition bhi (bs : list (Q * Q)) (j : nat) : Q := snd (nth j bs (0, 0)).

(* ---- doe.construct_df_from_random_matrix:  lb + w * fabs(ub - lb), row by row ---------- *)
Definition scale (lo hi w : Q) : Q := lo + w * Qabs (hi - lo).
Definition scale_row (bs : list (Q * Q)) (w : list Q) : list Q :=
  map (fun idx => scale (blo bs idx) (bhi bs idx) (nth idx w 0)) (seq 0 (length w)).
Definition scale_rows (bs : list (Q * Q)) (x : list (list Q)) : list (list Q) := map (scale_row bs) x.

(* ---- doe._lhsclassic (the criterion LHSGenerator -> build_lhs -> lhs(n, samples) uses) ------
   cut = linspace(0, 1, N + 1); u = rand(N, n); rdpoints[i, j] = u[i, j] * (cut[i+1] - cut[i]) + cut[i];
   for each column j a fresh order = permutation(range(N)); H[i, j] = rdpoints[order[i], j]. *)
Definition cut (N k : nat) : Q := qn k / qn N.
Definition rdpoint (N i : nat) (u : Q) : Q := u * (cut N (S i) - cut N i) + cut N i.
Definition lhs_classic (N n : nat) (u : list (list Q)) (perms : list (list nat)) : list (list Q) :=
  map (fun i => map (fun j => let r := nth i (nth j perms []) 0%nat in rdpoint N r (mat u r j)) (seq 0 n))
      (seq 0 N).
Definition build_lhs (N : nat) (bs : list (Q * Q)) (u : list (list Q)) (perms : list (list nat)) : list (list Q) :=
  scale_rows bs (lhs_classic N (length bs) u perms).

(* ---- doe._van_der_corput: the while loop (i, remainder = divmod(i, base); denom *= base;
   n_th_number += remainder / denom), with fuel; fuel i is enough for base >= 2 ------------- *)
Fixpoint vdc_loop (fuel base i : nat) (denom acc : Q) : Q :=
  match fuel with
  | O => acc
  | S f => if (i =? 0)%nat then acc
           else let denom' := denom * qn base in
                vdc_loop f base (i / base) denom' (acc + qn (i mod base) / denom')
  end.
Definition vdc_at (base i : nat) : Q := vdc_loop i base i 1 0.
Definition van_der_corput (n_sample base : nat) : list Q := map (vdc_at base) (seq 0 n_sample).

(* ---- doe._primes_from_2_to: the 2/3-wheel sieve ------------------------------------------
   sieve = ones(n // 3 + (n % 6 == 2)); for i in range(1, int(n ** 0.5) // 3 + 1): if sieve[i]:
   k = 3 * i + 1 | 1; sieve[k * k // 3 :: 2 * k] = False; sieve[k * (k - 2 * (i & 1) + 4) // 3 :: 2 * k] = False
   return r_[2, 3, (3 * nonzero(sieve)[0][1:] + 1) | 1].   int(n ** 0.5) is modelled by Nat.sqrt. *)
Fixpoint clear_from (idx start step : nat) (l : list bool) : list bool :=      (* l[start::step] = False *)
  match l with
  | [] => []
  | b :: t => (if (start <=? idx)%nat && ((idx - start) mod step =? 0)%nat then false else b)
              :: clear_from (S idx) start step t
  end.
Definition sieve_step (sieve : list bool) (i : nat) : list bool :=
  if nth i sieve false then
    let k := Nat.lor (3 * i + 1) 1 in
    let s1 := clear_from 0 (k * k / 3) (2 * k) sieve in
    clear_from 0 (k * (k + 4 - 2 * Nat.land i 1) / 3) (2 * k) s1
  else sieve.
Fixpoint nonzero_from (idx : nat) (l : list bool) : list nat :=
  match l with
  | [] => []
  | b :: t => if b then idx :: nonzero_from (S idx) t else nonzero_from (S idx) t
  end.
Definition primes_from_2_to (n : nat) : list nat :=
  let size := (n / 3 + (if (n mod 6 =? 2)%nat then 1 else 0))%nat in
  let sieve := fold_left sieve_step (seq 1 (Nat.sqrt n / 3)) (repeat true size) in
  2%nat :: 3%nat :: map (fun idx => Nat.lor (3 * idx + 1) 1) (tl (nonzero_from 0 sieve)).

(* ---- doe.halton: enlarge the sieve until it holds `dimension` primes; one van der Corput
   sequence of num_points + 1 terms per base; the first (burn-in, all-zero) point is dropped -- *)
Fixpoint halton_base_loop (fuel big dim : nat) : option (list nat) :=
  match fuel with
  | O => None
  | S f => let base := firstn dim (primes_from_2_to big) in
           if (length base =? dim)%nat then Some base else halton_base_loop f (big + 1000) dim
  end.
Definition halton_base (dim : nat) : option (list nat) := halton_base_loop (S dim) 10 dim.

Definition halton_unit (num_points : nat) (base : list nat) : list (list Q) :=
  let sample := map (van_der_corput (S num_points)) base in           (* one sequence per dimension *)
  tl (map (fun i => map (fun s => nth i s 0) sample) (seq 0 (S num_points))).   (* stack(axis=-1)[1:] *)
Definition build_halton (N : nat) (bs : list (Q * Q)) : option (list (list Q)) :=
  match halton_base (length bs) with
  | Some base => Some (scale_rows bs (halton_unit N base))
  | None => None
  end.

(* One row of that design in closed form: point number i, counted from 1 (the burn-in point 0 is
   dropped), is the scaled row of the i-th van der Corput terms.  `build_halton_at` returns the
   rows of the listed point numbers only (None when a number is outside 1..N); it is what the
   correspondence evaluates for large N, where only selected points are compared.
   Proofs/SamplersProofs.v (halton_selected_rows) proves it equal to picking those rows out of
   `build_halton N bs`. *)
Definition halton_row_at (bs : list (Q * Q)) (base : list nat) (i : nat) : list Q :=
  scale_row bs (map (fun b => vdc_at b i) base).
Definition point_in_range (N i : nat) : bool := (1 <=? i)%nat && (i <=? N)%nat.
Definition build_halton_at (N : nat) (bs : list (Q * Q)) (idxs : list nat) : option (list (list Q)) :=
  match halton_base (length bs) with
  | Some base => if forallb (point_in_range N) idxs then Some (map (halton_row_at bs base) idxs) else None
  | None => None
  end.

(* ---- operators.UniformGenerator: delta = (ub - lb) / (number - 1); levels lb + i * delta;
   itertools.product (the last parameter varies fastest) ------------------------------------ *)
Definition levels (k : nat) (b : Q * Q) : list Q :=
  let delta := (snd b - fst b) / inject_Z (Z.of_nat k - 1) in
  map (fun i => fst b + qn i * delta) (seq 0 k).
Fixpoint product (ls : list (list Q)) : list (list Q) :=
  match ls with
  | [] => [[]]
  | l :: r => flat_map (fun x => map (cons x) (product r)) l
  end.
Definition uniform_grid (k : nat) (bs : list (Q * Q)) : list (list Q) := product (map (levels k) bs).

(* ---- utils.VectorAndNumbers.gen_number / gen_vector, operators.RandomGenerator -------------
   number = random() * (ub - lb) + lb; number = round(number / precision) * precision, Python's
   round (half to even); precision 0 (not declared) is replaced by the double 1e-12. *)
Definition round_half_even (q : Q) : Z :=
  let f := Qfloor q in
  match Qcompare (q - inject_Z f) (1 # 2) with
  | Lt => f
  | Gt => (f + 1)%Z
  | Eq => if Z.even f then f else (f + 1)%Z
  end.
Definition default_precision : Q := 4951760157141521 # 4951760157141521099596496896.   (* float 1e-12 *)
Definition eff_precision (p : Q) : Q := if Qeq_bool p 0 then default_precision else p.
Definition gen_number (lo hi prec u : Q) : Q :=
  let p := eff_precision prec in
  let number := u * (hi - lo) + lo in
  inject_Z (round_half_even (number / p)) * p.

(* a declared parameter: (lower, upper, precision); the tape holds the random() results in call
   order; None = the tape is too short (fail closed) *)
Fixpoint gen_vector (ps : list (Q * Q * Q)) (tape : list Q) : option (list Q * list Q) :=
  match ps with
  | [] => Some ([], tape)
  | (lo, hi, prec) :: ps' =>
      match tape with
      | [] => None
      | u :: tape' =>
          match gen_vector ps' tape' with
          | Some (v, rest) => Some (gen_number lo hi prec u :: v, rest)
          | None => None
          end
      end
  end.
Fixpoint random_generate_loop (N : nat) (ps : list (Q * Q * Q)) (tape : list Q) : option (list (list Q) * list Q) :=
  match N with
  | O => Some ([], tape)
  | S N' =>
      match gen_vector ps tape with
      | Some (v, rest) =>
          match random_generate_loop N' ps rest with
          | Some (vs, rest') => Some (v :: vs, rest')
          | None => None
          end
      | None => None
      end
  end.
Definition random_generate (N : nat) (ps : list (Q * Q * Q)) (tape : list Q) : option (list (list Q)) :=
  match random_generate_loop N ps tape with
  | Some (vs, []) => Some vs
  | _ => None                   (* draws left over: fail closed *)
  end.
