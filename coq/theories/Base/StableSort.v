(* A stable sort (insertion sort from the right) standing for Python's sorted()/list.sort():
   for a total preorder the result of a stable sort is unique, so any stable sort models it.
   leb is the "not after" test derived from the key comparison. *)
From Coq Require Import List Bool Permutation Sorted Arith Lia.
Import ListNotations.

Section StableSort.
  Context {A : Type} (leb : A -> A -> bool).

  (* insert x after every element y with leb y x (y <= x): keeps equal keys in input order
     when folding from the right *)
  Fixpoint insert (x : A) (l : list A) : list A :=
    match l with
    | [] => [x]
    | y :: l' => if leb x y then x :: l else y :: insert x l'
    end.
  Definition ssort (l : list A) : list A := fold_right insert [] l.

  Lemma insert_perm x l : Permutation (insert x l) (x :: l).
  Proof.
    induction l as [|y l IH]; cbn; [reflexivity|].
    destruct (leb x y); [reflexivity|].
    rewrite IH. apply perm_swap.
  Qed.
  Lemma ssort_perm l : Permutation (ssort l) l.
  Proof.
    induction l as [|x l IH]; cbn; [reflexivity|].
    rewrite insert_perm. constructor. exact IH.
  Qed.
  Lemma ssort_length l : length (ssort l) = length l.
  Proof. apply Permutation_length, ssort_perm. Qed.
  Lemma ssort_in x l : In x (ssort l) <-> In x l.
  Proof. split; apply Permutation_in; [|symmetry]; apply ssort_perm. Qed.

  Hypothesis leb_total : forall x y, leb x y = true \/ leb y x = true.
  Hypothesis leb_trans : forall x y z, leb x y = true -> leb y z = true -> leb x z = true.

  Definition lebP (x y : A) : Prop := leb x y = true.

  Lemma insert_sorted x l : StronglySorted lebP l -> StronglySorted lebP (insert x l).
  Proof.
    induction l as [|y l IH]; intros S; cbn.
    - constructor; constructor.
    - inversion S as [|? ? S' F]; subst. destruct (leb x y) eqn:E.
      + constructor; [assumption|]. constructor; [exact E|].
        eapply Forall_impl; [|exact F]. intros z Hz. eapply leb_trans; eauto.
      + constructor; [apply IH; assumption|].
        assert (Hyx : leb y x = true) by (destruct (leb_total x y); congruence).
        apply Forall_forall. intros z Hz.
        apply (Permutation_in _ (insert_perm x l)) in Hz. destruct Hz as [<-|Hz]; [exact Hyx|].
        rewrite Forall_forall in F. apply F. exact Hz.
  Qed.
  Lemma ssort_sorted l : StronglySorted lebP (ssort l).
  Proof. induction l; cbn; [constructor | apply insert_sorted; assumption]. Qed.

  Lemma in_skipn_in (l : list A) : forall n y, In y (skipn n l) -> In y l.
  Proof.
    induction l as [|a l IH]; intros [|n] y Hy; cbn in *; auto.
    right. eapply IH; eauto.
  Qed.

  (* prefix/suffix of a sorted list: everything kept is <= everything dropped *)
  Lemma sorted_firstn_skipn : forall l n x y, StronglySorted lebP l ->
    In x (firstn n l) -> In y (skipn n l) -> leb x y = true.
  Proof.
    induction l as [|a l IH]; intros n x y S Hx Hy.
    - destruct n; cbn in Hx; contradiction.
    - destruct n as [|n]; cbn in Hx, Hy; [contradiction|].
      inversion S as [|? ? S' F]; subst. destruct Hx as [<-|Hx].
      + rewrite Forall_forall in F. apply F. eapply in_skipn_in; exact Hy.
      + eapply IH; eauto.
  Qed.
End StableSort.
