(* The float instance of the order interface.  fltb orders NaN above everything
   and coincides with the hardware comparison (hence with Python's `<`) on
   non-NaN arguments.  Axioms used: FloatAxioms.ltb_spec, FloatAxioms.eqb_spec
   (standard library) and the primitive float type/operations. *)
From Coq Require Import Floats ZArith Bool Lia.
From Artap Require Import Base.Ord.
Local Open Scope Z_scope.

Definition skey (f : spec_float) : Z * Z * Z :=
  match f with
  | S754_zero _ => (0, 0, 0)
  | S754_infinity s => (if s then -2 else 2, 0, 0)
  | S754_nan => (3, 0, 0)
  | S754_finite s m e => if s then (-1, - e, - Zpos m) else (1, e, Zpos m)
  end.

Definition klt (a b : Z * Z * Z) : Prop :=
  let '(a1,a2,a3) := a in let '(b1,b2,b3) := b in
  a1 < b1 \/ (a1 = b1 /\ (a2 < b2 \/ (a2 = b2 /\ a3 < b3))).

Definition notnan (f : spec_float) : Prop := f <> S754_nan.

Lemma SFltb_key f1 f2 : notnan f1 -> notnan f2 ->
  (SFltb f1 f2 = true <-> klt (skey f1) (skey f2)).
Proof.
  unfold notnan, SFltb, SFcompare, klt, skey.
  destruct f1 as [s1|s1| |s1 m1 e1], f2 as [s2|s2| |s2 m2 e2]; intros H1 H2;
    try congruence; try (destruct s1); try (destruct s2);
    try (split; [discriminate|lia]); try (split; [intros _; lia | reflexivity]).
  all: destruct (Z.compare_spec e1 e2) as [He|He|He]; cbn [CompOpp];
       try (split; [discriminate|lia]); try (split; [intros _; lia | reflexivity]).
  all: change (Pos.compare_cont Eq m1 m2) with (Pos.compare m1 m2);
       destruct (Pos.compare_spec m1 m2) as [Hm|Hm|Hm]; cbn [CompOpp];
       try (split; [discriminate|lia]); try (split; [intros _; lia | reflexivity]).
Qed.

Lemma klt_irrefl a : ~ klt a a.
Proof. destruct a as [[a1 a2] a3]; unfold klt; lia. Qed.
Lemma klt_trans a b c : klt a b -> klt b c -> klt a c.
Proof. destruct a as [[a1 a2] a3], b as [[b1 b2] b3], c as [[c1 c2] c3]; unfold klt; lia. Qed.
Lemma klt_negtrans a b c : ~ klt a b -> ~ klt b c -> ~ klt a c.
Proof. destruct a as [[a1 a2] a3], b as [[b1 b2] b3], c as [[c1 c2] c3]; unfold klt; lia. Qed.

Definition fltb (x y : float) : bool :=
  if PrimFloat.is_nan x then false else if PrimFloat.is_nan y then true else PrimFloat.ltb x y.

Lemma is_nan_spec x : PrimFloat.is_nan x = true <-> Prim2SF x = S754_nan.
Proof.
  unfold PrimFloat.is_nan. rewrite FloatAxioms.eqb_spec. unfold SFeqb, SFcompare.
  destruct (Prim2SF x) as [s|s| |s m e]; try (destruct s); cbn;
   rewrite ?Z.compare_refl, ?Pos.compare_cont_refl; cbn; split; congruence.
Qed.

Lemma fltb_key x y : PrimFloat.is_nan x = false -> PrimFloat.is_nan y = false ->
  (PrimFloat.ltb x y = true <-> klt (skey (Prim2SF x)) (skey (Prim2SF y))).
Proof.
  intros Hx Hy. rewrite ltb_spec. apply SFltb_key; intro E; apply is_nan_spec in E; congruence.
Qed.

Definition fkey (x : float) := skey (Prim2SF x).
Lemma fltb_spec x y : fltb x y = true <-> klt (fkey x) (fkey y).
Proof.
  unfold fltb, fkey.
  destruct (PrimFloat.is_nan x) eqn:Hx.
  - apply is_nan_spec in Hx. rewrite Hx. cbn. split; [discriminate|].
    destruct (Prim2SF y) as [s|s| |s m e]; try destruct s; cbn; lia.
  - destruct (PrimFloat.is_nan y) eqn:Hy.
    + apply is_nan_spec in Hy. rewrite Hy.
      assert (Prim2SF x <> S754_nan) by (intro E; apply is_nan_spec in E; congruence).
      split; [intros _|reflexivity].
      destruct (Prim2SF x) as [s|s| |s m e]; try destruct s; try congruence; cbn; lia.
    + apply fltb_key; assumption.
Qed.

Theorem fltb_irrefl x : fltb x x = false.
Proof. destruct (fltb x x) eqn:E; [|reflexivity]. apply fltb_spec in E. now apply klt_irrefl in E. Qed.
Theorem fltb_trans x y z : fltb x y = true -> fltb y z = true -> fltb x z = true.
Proof. rewrite !fltb_spec. apply klt_trans. Qed.
Theorem fltb_negtrans x y z : fltb x y = false -> fltb y z = false -> fltb x z = false.
Proof.
  intros A B. destruct (fltb x z) eqn:C; [|reflexivity].
  apply fltb_spec in C. exfalso. revert C.
  apply (klt_negtrans _ (fkey y)); rewrite <- fltb_spec; congruence.
Qed.
Theorem fltb_is_ltb x y :
  PrimFloat.is_nan x = false -> PrimFloat.is_nan y = false -> fltb x y = PrimFloat.ltb x y.
Proof. unfold fltb; intros -> ->; reflexivity. Qed.

Theorem fltb_SWO : SWO fltb.
Proof. constructor; [exact fltb_irrefl | exact fltb_trans | exact fltb_negtrans]. Qed.

(* float helpers shared by the executable drivers *)
Definition feqb (x y : float) : bool := PrimFloat.eqb x y.          (* Python == on floats *)
Definition fbits_eqb (x y : float) : bool :=                         (* bit-for-bit, NaN = NaN *)
  match Prim2SF x, Prim2SF y with
  | S754_zero a, S754_zero b => Bool.eqb a b
  | S754_infinity a, S754_infinity b => Bool.eqb a b
  | S754_nan, S754_nan => true
  | S754_finite a m e, S754_finite b m' e' => Bool.eqb a b && Pos.eqb m m' && Z.eqb e e'
  | _, _ => false
  end.
