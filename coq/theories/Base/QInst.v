(* Exact instances of the order interface (Z and Q), used for non-vacuity
   examples and for the exact-rational (R3) models. *)
From Coq Require Import ZArith QArith Bool Lia Lqa.
From Artap Require Import Base.Ord.

Theorem Zltb_SWO : SWO Z.ltb.
Proof. constructor; intros; lia. Qed.

Definition Qltb (x y : Q) : bool := negb (Qle_bool y x).

Lemma Qltb_spec x y : Qltb x y = true <-> (x < y)%Q.
Proof.
  unfold Qltb. rewrite negb_true_iff. destruct (Qle_bool y x) eqn:E.
  - apply Qle_bool_iff in E. split; [discriminate|]. intros. lra.
  - split; [intros _|reflexivity]. apply Qnot_le_lt. intro F. apply Qle_bool_iff in F. congruence.
Qed.

Lemma Qltb_false x y : Qltb x y = false <-> (y <= x)%Q.
Proof.
  unfold Qltb. rewrite negb_false_iff. apply Qle_bool_iff.
Qed.

Theorem Qltb_SWO : SWO Qltb.
Proof.
  constructor.
  - intros x. apply Qltb_false. lra.
  - intros x y z. rewrite !Qltb_spec. lra.
  - intros x y z. rewrite !Qltb_false. lra.
Qed.
