(* Order interface shared by all order-only (R1) models: a type with a boolean
   strict order satisfying the strict-weak-order laws.  Python's `<` on non-NaN
   floats is such an order (FloatInst.v); so are Z.ltb and Q's order (QInst.v). *)
From Coq Require Import Bool List.
Import ListNotations.

Record SWO {T : Type} (ltb : T -> T -> bool) : Prop := {
  lt_irrefl   : forall x, ltb x x = false;
  lt_trans    : forall x y z, ltb x y = true  -> ltb y z = true  -> ltb x z = true;
  lt_negtrans : forall x y z, ltb x y = false -> ltb y z = false -> ltb x z = false }.

Section Derived.
  Context {T : Type} (ltb : T -> T -> bool) (H : SWO ltb).

  Definition leb (x y : T) : bool := negb (ltb y x).
  Definition eqv (x y : T) : bool := negb (ltb x y) && negb (ltb y x).

  Lemma lt_asym x y : ltb x y = true -> ltb y x = false.
  Proof.
    intros A. destruct (ltb y x) eqn:E; [|reflexivity].
    pose proof (lt_irrefl _ H x). pose proof (lt_trans _ H _ _ _ A E). congruence.
  Qed.

  Lemma eqv_refl x : eqv x x = true.
  Proof. unfold eqv. rewrite (lt_irrefl _ H). reflexivity. Qed.

  Lemma eqv_sym x y : eqv x y = eqv y x.
  Proof. unfold eqv. apply andb_comm. Qed.

  Lemma eqv_trans x y z : eqv x y = true -> eqv y z = true -> eqv x z = true.
  Proof.
    unfold eqv. rewrite !andb_true_iff, !negb_true_iff. intros [A B] [C D].
    split; eapply (lt_negtrans _ H); eauto.
  Qed.

  Lemma lt_eqv_l x y z : eqv x y = true -> ltb x z = ltb y z.
  Proof.
    unfold eqv. rewrite andb_true_iff, !negb_true_iff. intros [A B].
    destruct (ltb x z) eqn:E, (ltb y z) eqn:F; try reflexivity.
    - rewrite (lt_negtrans _ H x y z A F) in E. discriminate.
    - rewrite (lt_negtrans _ H y x z B E) in F. discriminate.
  Qed.

  Lemma lt_eqv_r x y z : eqv x y = true -> ltb z x = ltb z y.
  Proof.
    unfold eqv. rewrite andb_true_iff, !negb_true_iff. intros [A B].
    destruct (ltb z x) eqn:E, (ltb z y) eqn:F; try reflexivity.
    - rewrite (lt_negtrans _ H z y x F B) in E. discriminate.
    - rewrite (lt_negtrans _ H z x y E A) in F. discriminate.
  Qed.

  Lemma leb_refl x : leb x x = true.
  Proof. unfold leb. rewrite (lt_irrefl _ H). reflexivity. Qed.

  Lemma leb_trans x y z : leb x y = true -> leb y z = true -> leb x z = true.
  Proof. unfold leb. rewrite !negb_true_iff. intros A B. eapply (lt_negtrans _ H); eauto. Qed.

  Lemma leb_total x y : leb x y = true \/ leb y x = true.
  Proof.
    unfold leb. destruct (ltb y x) eqn:E; [right|left; reflexivity].
    rewrite (lt_asym _ _ E). reflexivity.
  Qed.

  Lemma lt_le_trans x y z : ltb x y = true -> leb y z = true -> ltb x z = true.
  Proof.
    unfold leb. rewrite negb_true_iff. intros A B.
    destruct (ltb x z) eqn:E; [reflexivity|].
    rewrite (lt_negtrans _ H x z y E B) in A. discriminate.
  Qed.

  Lemma le_lt_trans x y z : leb x y = true -> ltb y z = true -> ltb x z = true.
  Proof.
    unfold leb. rewrite negb_true_iff. intros A B.
    destruct (ltb x z) eqn:E; [reflexivity|].
    rewrite (lt_negtrans _ H y x z A E) in B. discriminate.
  Qed.

  Lemma lt_leb x y : ltb x y = true -> leb x y = true.
  Proof. intros A. unfold leb. rewrite (lt_asym _ _ A). reflexivity. Qed.
End Derived.

(* generic helper used by every generated case file: indices at which the
   model's output differs from the implementation's observation *)
Section Mismatch.
  Context {A B : Type} (run : A -> B) (eqb : B -> B -> bool).
  Fixpoint mismatches_from (i : nat) (cases : list A) (expected : list B) : list nat :=
    match cases, expected with
    | c :: cs, e :: es =>
        if eqb (run c) e then mismatches_from (S i) cs es else i :: mismatches_from (S i) cs es
    | [], [] => []
    | _, _ => [i]            (* length mismatch: fail closed *)
    end.
  Definition mismatches := mismatches_from 0.
End Mismatch.
