(* Executable driver for the C01 correspondence: the float instance of both
   comparators, with the math.pow results of the tie-break as an oracle tape. *)
From Coq Require Import List ZArith Bool Floats.
From Artap Require Export Base.Ord Base.FloatInst Model.Dominance.
Import ListNotations.
Local Open Scope float_scope.

Definition eps_of (eps : list float) (i : nat) : float := nth (Nat.modulo i (length eps)) eps 1.
(* first loop: float(eps) == 0 is replaced by 1e-3 *)
Definition fsc (eps : list float) (i : nat) (x : float) : float :=
  let e := eps_of eps i in
  let e := if PrimFloat.eqb e 0 then 0x1.0624dd2f1a9fcp-10 else e in x / e.

(* second loop: pow(p_i - (p_i/eps)*eps, 2.0); the tape holds (argument, result) of each
   math.pow call in call order and the model checks the arguments bit for bit *)
Fixpoint tie_sums (eps : list float) (i : nat) (p q : list float) (tape : list (float * float))
         (d1 d2 : float) : option (float * float) :=
  match p, q with
  | a :: p', b :: q' =>
      let e := eps_of eps i in
      match tape with
      | (x1, r1) :: (x2, r2) :: tape' =>
          if fbits_eqb x1 (a - (a / e) * e) && fbits_eqb x2 (b - (b / e) * e)
          then tie_sums eps (S i) p' q' tape' (d1 + r1) (d2 + r2) else None
      | _ => None
      end
  | _, _ => match tape with [] => Some (d1, d2) | _ => None end
  end.

Record c01_case := { c1_eps : option (list float);          (* None = Pareto comparator *)
                     c1_p : list float; c1_pm : Z; c1_q : list float; c1_qm : Z;
                     c1_tape : list (float * float) }.

Definition ERR : nat := 99.

Definition c01_run (c : c01_case) : nat :=
  match c1_eps c with
  | None => match c1_tape c with
            | [] => pareto_compare fltb (c1_p c, c1_pm c) (c1_q c, c1_qm c)
            | _ => ERR end
  | Some eps =>
      match marker_verdict (c1_pm c) (c1_qm c) with
      | Some v => match c1_tape c with [] => v | _ => ERR end
      | None =>
          match escan fltb (fsc eps) 0 false false (c1_p c) (c1_q c) with
          | Some v => match c1_tape c with [] => v | _ => ERR end
          | None =>
              match tie_sums eps 0 (c1_p c) (c1_q c) (c1_tape c) 0 0 with
              | Some (d1, d2) =>
                  (* by construction equal to eps_compare with these sums *)
                  eps_compare fltb (fsc eps) d1 d2 (c1_p c, c1_pm c) (c1_q c, c1_qm c)
              | None => ERR
              end
          end
      end
  end.
