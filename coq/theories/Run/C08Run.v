(* Executable driver for the C08 correspondence: the float instance (fltb, PrimFloat arithmetic)
   of Model/Variation.v run on the recorded oracle tape, and the exact-rational gen_vector
   compared with the implementation's floats under the tolerance carried by the case. *)
From Coq Require Import List ZArith QArith Qabs Bool Floats.
From Artap Require Export Base.Ord Base.FloatInst Model.Variation Model.VariationRun Model.VariationGen.
Import ListNotations.

Local Open Scope float_scope.

Definition EPSILON : float := 0x1p-52.            (* sys.float_info.epsilon *)
Definition HALF : float := 0x1p-1.
Definition ffar (a b : float) : bool := fltb EPSILON (abs (b - a)).   (* abs(x2[i] - x1[i]) > EPSILON *)
Definition fflip (v : float) : float := v * (-0x1p+0).                 (* velocity[i] *= -1 *)
Definition fdamp (v : float) : float := v * 0x1.0624dd2f1a9fcp-10.     (* velocity[i] *= 0.001 *)

(* UniformMutator: the pre-clip value is plain float arithmetic, so the recorded oracle value is
   also checked against  x + (random.random() - 0.5) * perturbation  bit for bit *)
Fixpoint uniform_pre_ok (pert prob : float) (params : list (float * float)) (parent : list float)
         (tape : list (entry (T:=float))) : bool :=
  match params, parent, tape with
  | _ :: ps, x :: xs, Draw u :: t1 =>
      if fltb u prob then
        match t1 with
        | Draw r :: Pre pre :: t2 =>
            fbits_eqb pre (x + (r - HALF) * pert) && uniform_pre_ok pert prob ps xs t2
        | _ => true            (* malformed tapes are rejected by the model itself *)
        end
      else uniform_pre_ok pert prob ps xs t1
  | _, _, _ => true
  end.

Inductive op_kind := OpPm | OpUniform (pert : float) | OpNonUniform | OpSbx | OpFlip | OpDamp.

Record op_case := { o_kind : op_kind; o_prob : float; o_params : list (float * float);
                    o_p1 : list float; o_p2 : list float;          (* parent(s) / position, velocity *)
                    o_tape : list (entry (T:=float)) }.

Definition op_obs := option (list float * list float).

Definition c08_op_run (c : op_case) : op_obs :=
  let one (r : option (list float)) : op_obs :=
      match r with Some l => Some (l, []) | None => None end in
  match o_kind c with
  | OpPm => one (pm_mutate fltb (o_prob c) (o_params c) (o_p1 c) (o_tape c))
  | OpUniform pert =>
      if uniform_pre_ok pert (o_prob c) (o_params c) (o_p1 c) (o_tape c)
      then one (uniform_mutate fltb (o_prob c) (o_params c) (o_p1 c) (o_tape c)) else None
  | OpNonUniform => one (nonuniform_mutate fltb (o_prob c) (o_params c) (o_p1 c) (o_tape c))
  | OpSbx => sbx_cross fltb ffar HALF (o_prob c) (o_params c) (o_p1 c) (o_p2 c) (o_tape c)
  | OpFlip => match o_tape c with
              | [] => position_update fltb PrimFloat.add fflip (o_params c) (o_p1 c) (o_p2 c)
              | _ => None end
  | OpDamp => match o_tape c with
              | [] => position_update fltb PrimFloat.add fdamp (o_params c) (o_p1 c) (o_p2 c)
              | _ => None end
  end.

Fixpoint flist_eqb (a b : list float) : bool :=
  match a, b with
  | [], [] => true
  | x :: a', y :: b' => fbits_eqb x y && flist_eqb a' b'
  | _, _ => false
  end.

Definition op_obs_eqb (a b : op_obs) : bool :=
  match a, b with
  | None, None => true
  | Some (a1, a2), Some (b1, b2) => flist_eqb a1 b1 && flist_eqb a2 b2
  | _, _ => false
  end.

(* gen_vector: parameters (lb, ub, precision) and draws as the exact rationals of the floats the
   implementation used; observed vector and per-coordinate tolerance as exact rationals.
   Result: 0 = agrees, 1 = tape/length mismatch, 2 = some coordinate differs by more than its tolerance *)
Record gen_case := { g_params : list (Q * Q * Q); g_draws : list Q; g_impl : list Q; g_tol : list Q }.

Fixpoint qclose (m i t : list Q) : bool :=
  match m, i, t with
  | [], [], [] => true
  | x :: m', y :: i', e :: t' => Qle_bool (Qabs (x - y)) e && qclose m' i' t'
  | _, _, _ => false
  end.

Definition c08_gen_run (c : gen_case) : nat :=
  match gen_vector (g_params c) (g_draws c) with
  | None => 1%nat
  | Some v => if qclose v (g_impl c) (g_tol c) then 0%nat else 2%nat
  end.

(* ---------------------------------------------------------------------------------------------------------
   Run level: Model/VariationRun.v at binary64.  A case is a whole short run: the initial designs, the
   re-rolls of the initial evaluation and one script per generation; the observation is every vector the
   objective saw, in order, and the final population (and archive, eps-MOEA). *)
Definition fclose (a b : float) : bool := fltb (abs (a - b)) 0x1.b7cdfd9d7bdbbp-34.    (* abs(a - b) < 1e-10 *)

Inductive algo := ANsga2 | AEpsMoea | AOmopso | ASmpso | APsoga.

Record run_case := { r_algo : algo; r_N : nat; r_pc : float; r_pm : float; r_params : list (float * float);
                     r_pop0 : list (list float); r_rr0 : list (list (list float)); r_arch0 : list nat;
                     r_scripts : list (script (T:=float)) }.

Definition run_obs := option (list (list float) * list (list float) * list (list float)).

Definition c08_run_run (c : run_case) : run_obs :=
  let plain (r : option (list (list float) * list (list float))) : run_obs :=
      match r with Some (sub, pop) => Some (sub, pop, []) | None => None end in
  match r_algo c with
  | ANsga2 => plain (run_nsga2 fltb ffar HALF fclose (r_params c) (r_N c) (r_pc c) (r_pm c) (r_pop0 c) (r_rr0 c) (r_scripts c))
  | AEpsMoea =>
      match run_epsmoea fltb ffar HALF fclose (r_params c) (r_N c) (r_pc c) (r_pm c) (r_arch0 c) (r_pop0 c) (r_rr0 c) (r_scripts c) with
      | Some (sub, (pop, arch)) => Some (sub, pop, arch)
      | None => None
      end
  | AOmopso => plain (run_omopso fltb PrimFloat.add fflip (r_params c) (r_pm c) (r_pop0 c) (r_rr0 c) (r_scripts c))
  | ASmpso => plain (run_smpso fltb PrimFloat.add fdamp (r_params c) (r_pm c) (r_pop0 c) (r_rr0 c) (r_scripts c))
  | APsoga => plain (run_psoga fltb ffar HALF PrimFloat.add fflip (r_params c) (r_pc c) (r_pm c) (r_pop0 c) (r_rr0 c) (r_scripts c))
  end.

Fixpoint fll_eqb (a b : list (list float)) : bool :=
  match a, b with
  | [], [] => true
  | x :: a', y :: b' => flist_eqb x y && fll_eqb a' b'
  | _, _ => false
  end.

Definition run_obs_eqb (a b : run_obs) : bool :=
  match a, b with
  | None, None => true
  | Some (s1, p1, a1), Some (s2, p2, a2) => fll_eqb s1 s2 && fll_eqb p1 p2 && fll_eqb a1 a2
  | _, _ => false
  end.

Definition mk_breed (i1 i2 : nat) (t m1 m2 : list (entry (T:=float))) : breed (T:=float) := Build_breed i1 i2 t m1 m2.

(* ---------------------------------------------------------------------------------------------------------
   Design-of-experiment generators.  Level designs (full factorial with / without centre, Plackett-Burman,
   Box-Behnken): the level lists are rebuilt from the parameter bounds (mid-point in binary64), the index
   matrix is the one the pyDOE routine produced; rows compared bit for bit.  Scaled designs (LHS, Halton) and
   the uniform grid: exact-rational model compared under the tolerance carried by the case. *)
Definition fmid (p : float * float) : float := (fst p + snd p) / 0x1p+1.

Record lvl_case := { l_three : bool; l_params : list (float * float); l_x : list (list nat) }.

Definition c08_lvl_run (c : lvl_case) : option (list (list float)) :=
  construct_df (map (if l_three c then levels3 fmid else levels2) (l_params c)) (l_x c).

Definition lvl_obs_eqb (a b : option (list (list float))) : bool :=
  match a, b with
  | None, None => true
  | Some x, Some y => fll_eqb x y
  | _, _ => false
  end.

(* kind: None = scaled design (d_w = the row of the unit cube); Some n = uniform grid with n levels
   (d_idx = the level index of each coordinate) *)
Record sc_case := { d_grid : option nat; d_params : list (Q * Q); d_w : list Q; d_idx : list nat;
                    d_impl : list Q; d_tol : list Q }.

Definition c08_sc_run (c : sc_case) : nat :=
  let r := match d_grid c with
           | None => scale_row (d_params c) (d_w c)
           | Some n => construct_row (map (grid_levels n) (d_params c)) (d_idx c)
           end in
  match r with
  | None => 1%nat
  | Some v => if qclose v (d_impl c) (d_tol c) then 0%nat else 2%nat
  end.
