(* Executable driver for the C04 correspondence: the binary64 instance of Archive.add /
   Archive.truncate / Archive.remove with the Pareto comparator (acmp fltb) or the epsilon
   comparator (ecmp fltb (fsc eps) dist), i.e. the very functions the C04 theorems speak about.
   The math.pow results of the epsilon tie-break are an oracle: one tape of (argument, result)
   pairs per individual; the model checks the arguments bit for bit and sums the results.
   Individuals carry their design vector: several individuals of a case may share it (exactly
   or within the 1e-10 of Individual.__eq__).  Archive.add never looks at it (evictions are by
   position, the duplicate test is on costs_signed); Archive.remove -> list.remove compares with
   `==`, which is the vector equality of C20 (Model/IndividualEq.v item_eq: same object, or all
   coordinates of the member's vector within 1e-10 of the solution's). *)
From Coq Require Import List ZArith Bool Floats Arith.
From Artap Require Export Base.Ord Base.FloatInst Model.Dominance Model.Archive Model.IndividualEq Run.C01Run.
From Artap Require Import Proofs.ArchiveParetoInst Proofs.ArchiveEpsInst Proofs.ArchiveExtra.
Import ListNotations.
Local Open Scope float_scope.

Definition c04_ind : Type := @aind float.          (* (id within the case, (objectives, marker)) *)

Inductive c04_op :=
| OpAdd (i : nat)                         (* archive.add(ind_i) *)
| OpTrunc (size : nat) (larger : bool)    (* archive.truncate(size, getter, larger_preferred) *)
| OpRemove (i : nat)                      (* archive.remove(ind_i) *)
| OpBatch (l : list nat) (iadd : bool).   (* the bulk entry points: archive.append(x) (l = [x]) / archive.extend(l) when
                                             iadd = false, `archive += l` / `archive += x` when true: one archive.add per
                                             element, in order, every element offered whatever became of the earlier ones *)

Record c04_case := {
  c4_eps : option (list float);                 (* None = ParetoDominance, Some eps = EpsilonDominance(eps) *)
  c4_inds : list (list float * Z);              (* costs_signed of individual i: objectives, marker *)
  c4_vecs : list (list float);                  (* design vector of individual i (Individual.__eq__ looks at nothing else) *)
  c4_feat : list float;                         (* features[getter] of individual i *)
  c4_tapes : list (list (float * float));       (* pow oracle of individual i (epsilon comparator only) *)
  c4_ops : list c04_op }.

(* contents (ids, in order) and result (0 = False, 1 = True, 2 = None, 4 = the archive itself) after every operation;
   None = the pow oracle does not fit the individuals *)
Definition c04_obs : Type := option (list (list nat * nat)).

(* dist of one vector: sum_i pow(p_i - (p_i/eps_i)*eps_i, 2.0), left to right from 0.0 *)
Fixpoint dist_of (eps : list float) (i : nat) (p : list float) (tape : list (float * float)) (d : float)
  : option float :=
  match p with
  | a :: p' =>
      let e := eps_of eps i in
      match tape with
      | (x, r) :: tape' => if fbits_eqb x (a - (a / e) * e) then dist_of eps (S i) p' tape' (d + r) else None
      | [] => None
      end
  | [] => match tape with [] => Some d | _ => None end
  end.

Fixpoint all_some {A : Type} (l : list (option A)) : option (list A) :=
  match l with
  | [] => Some []
  | Some a :: l' => match all_some l' with Some r => Some (a :: r) | None => None end
  | None :: _ => None
  end.

Definition dists (c : c04_case) (eps : list float) : option (list float) :=
  all_some (map (fun it => dist_of eps 0 (fst (fst it)) (snd it) 0) (combine (c4_inds c) (c4_tapes c))).

Definition ind_of (c : c04_case) (i : nat) : c04_ind := (i, nth i (c4_inds c) ([], 0%Z)).
Definition feat_of (c : c04_case) (x : c04_ind) : float := nth (fst x) (c4_feat c) 0.
(* sorted(key=feature): x not after y  iff  not (feature y < feature x) *)
Definition key_leb (c : c04_case) : c04_ind -> c04_ind -> bool := key_leb_of fltb (feat_of c).
(* member == solution as list.remove evaluates it: identity short-cut, else Individual.__eq__ =
   abs(member.vector[k] - solution.vector[k]) < 1e-10 for every k (C20's model, binary64 instance:
   hardware subtraction, abs and <; the costs play no part) *)
Definition c04_absdiff (a b : float) : float := PrimFloat.abs (a - b).
Definition c04_tol : float := 0x1.b7cdfd9d7bdbbp-34.   (* 1e-10 *)
Definition vec_of (c : c04_case) (x : c04_ind) : list float := nth (fst x) (c4_vecs c) [].
Definition ind_eq_of (c : c04_case) (y s : c04_ind) : bool :=
  item_eq PrimFloat.ltb c04_absdiff c04_tol (fst y, vec_of c y) (fst s, vec_of c s).

Definition step (cmp : c04_ind -> c04_ind -> nat) (c : c04_case) (a : list c04_ind) (op : c04_op)
  : list c04_ind * nat :=
  match op with
  | OpAdd i => let '(a', ok) := archive_add cmp (aceq fltb) a (ind_of c i) in (a', if ok then 1%nat else 0%nat)
  | OpTrunc size larger => (archive_truncate (key_leb c) a size larger, 2%nat)
  | OpRemove i => let '(a', ok) := archive_remove (ind_eq_of c) a (ind_of c i) in (a', if ok then 1%nat else 0%nat)
  | OpBatch l iadd =>
      (* a fold of archive_add over the batch; 2 = returns None (append, extend), 4 = returns the archive itself (+=) *)
      (fold_left (fun a' i => fst (archive_add cmp (aceq fltb) a' (ind_of c i))) l a, if iadd then 4%nat else 2%nat)
  end.

Fixpoint run_ops (cmp : c04_ind -> c04_ind -> nat) (c : c04_case) (a : list c04_ind) (ops : list c04_op)
  : list (list nat * nat) :=
  match ops with
  | [] => []
  | op :: ops' => let '(a', r) := step cmp c a op in (map fst a', r) :: run_ops cmp c a' ops'
  end.

Definition c04_run (c : c04_case) : c04_obs :=
  match c4_eps c with
  | None => Some (run_ops (acmp fltb) c [] (c4_ops c))
  | Some eps =>
      match dists c eps with
      | Some ds => Some (run_ops (ecmp fltb (fsc eps) (fun x => nth (fst x) ds 0)) c [] (c4_ops c))
      | None => None
      end
  end.

Fixpoint list_beq {A : Type} (e : A -> A -> bool) (l1 l2 : list A) : bool :=
  match l1, l2 with
  | [], [] => true
  | a :: l1', b :: l2' => e a b && list_beq e l1' l2'
  | _, _ => false
  end.
Definition c04_obs_eqb (a b : c04_obs) : bool :=
  match a, b with
  | Some x, Some y =>
      list_beq (fun p q => list_beq Nat.eqb (fst p) (fst q) && Nat.eqb (snd p) (snd q)) x y
  | _, _ => false
  end.
