(* Executable driver of the C07 correspondence: the binary64 instance of Model/Parallel.v (small steps,
   any interleaving) next to Model/Job.v's `evaluate_serial` (the serial evaluation of the same batch).

   Input of one case = what the harness did with the real threads and what it saw:
     q_heap    the designs of the batch as they were before Algorithm.evaluate (id = position)
     q_batch   the batch (ids), in submission order
     q_outs    the scripted objective as a table (design, attempt) -> outcome  (a `local_env`)
     q_tape    the scripted replacement vectors, (design, attempt) -> vector
     q_cons    the constraint function as a table vector -> values
     q_trace   the OBSERVED global trace of gate events: (design, attempt, gate) in the order in which
               the scheduler let the real threads pass the objective gate / the sync gate; GRefused = SQLite
               (or the harness's fault injection) refused a write attempt of that design's row inside
               sync_individual: Model/Parallel.v XRefused, a step without effect that is erased here, legal
               only for a task that has passed its sync gate (all its model steps are consumed: it is writing)
   Output: whether the observed trace is an interleaving (merge) of the model's task step lists
   projected on the two observable step kinds, the model's final state for that interleaving
   (hidden steps placed where the real thread runs them: between its own gates), and the serial result. *)
From Coq Require Import List ZArith Bool Floats Arith.
From Artap Require Export Base.Ord Base.FloatInst Model.Job Model.Parallel Run.C05Run.
Import ListNotations.
Local Open Scope nat_scope.

Inductive gate := GObj | GSync | GRefused.

Record par_case := {
  q_signs : list bool;
  q_outs : list (nat * nat * outcome num);
  q_cons : list (fvec * fvec);
  q_tape : list (nat * nat * fvec);
  q_heap : list (ind num);
  q_batch : list nat;
  q_trace : list (nat * nat * gate) }.

Definition key_lookup {A : Type} (tbl : list (nat * nat * A)) (id att : nat) : option A :=
  match find (fun p => Nat.eqb (fst (fst p)) id && Nat.eqb (snd (fst p)) att) tbl with
  | Some p => Some (snd p)
  | None => None
  end.

(* the scripted world: outcome and replacement depend on (design, attempt) only *)
Definition par_env (c : par_case) : env num :=
  {| e_signs := q_signs c;
     e_obj := fun cl => match key_lookup (q_outs c) (c_id cl) (c_att cl) with Some o => o | None => Fatal 999 end;
     e_cons := fun v => match cons_lookup (q_cons c) v with Some g => g | None => [F nan] end;
     e_reroll := fun cl => match key_lookup (q_tape c) (c_id cl) (c_att cl) with Some v => v | None => [F nan] end |}.

Definition observable (s : step) : option gate :=
  match st_kind s with KObj => Some GObj | KSync => Some GSync | _ => None end.

Definition gate_eqb (a b : gate) : bool :=
  match a, b with GObj, GObj | GSync, GSync | GRefused, GRefused => true | _, _ => false end.

(* the leading steps a thread runs without passing a gate *)
Fixpoint split_hidden (l : list step) : list step * list step :=
  match l with
  | [] => ([], [])
  | s :: r => match observable s with
              | Some _ => ([], l)
              | None => let '(a, b) := split_hidden r in (s :: a, b)
              end
  end.

(* the thread of a task passes the gate (att, g): the steps it runs until it blocks at its next gate *)
Definition pop_event (l : list step) (att : nat) (g : gate) : option (list step * list step) :=
  let '(pre, rest) := split_hidden l in
  match rest with
  | s :: rest' =>
      match observable s with
      | Some g' => if gate_eqb g g' && Nat.eqb (st_att s) att
                   then let '(post, rest'') := split_hidden rest' in Some (pre ++ s :: post, rest'')
                   else None
      | None => None
      end
  | [] => None
  end.

Fixpoint upd_assoc (l : list (nat * list step)) (id : nat) (x : list step) : list (nat * list step) :=
  match l with
  | [] => []
  | p :: r => if Nat.eqb (fst p) id then (id, x) :: r else p :: upd_assoc r id x
  end.
Definition get_assoc (l : list (nat * list step)) (id : nat) : option (list step) :=
  match find (fun p => Nat.eqb (fst p) id) l with Some p => Some (snd p) | None => None end.

(* replay the observed gate events against the tasks' remaining steps *)
Fixpoint expand (rem : list (nat * list step)) (tr : list (nat * nat * gate)) (acc : list step)
  : bool * list step * list (nat * list step) :=
  match tr with
  | [] => (true, acc, rem)
  | (id, att, GRefused) :: tr' =>
      match get_assoc rem id with
      | Some [] => expand rem tr' acc
      | _ => (false, acc, rem)
      end
  | (id, att, g) :: tr' =>
      match get_assoc rem id with
      | Some l => match pop_event l att g with
                  | Some (blk, l') => expand (upd_assoc rem id l') tr' (acc ++ blk)
                  | None => (false, acc, rem)
                  end
      | None => (false, acc, rem)
      end
  end.

Definition init_of (c : par_case) : state num :=
  {| s_heap := q_heap c; s_pop := []; s_failed := []; s_store := []; s_calls := [] |}.

Definition rows_of (n : nat) (log : list (nat * ind num)) : list (option (ind num)) :=
  map (fun id => row_of id log) (seq 0 n).
Definition nrows (n : nat) (log : list (nat * ind num)) : nat :=
  length (filter (fun r => match r with Some _ => true | None => false end) (rows_of n log)).

Definition scall : Type := (nat * nat * fvec)%type.
Definition strip_f (c : call num) : scall := (c_id c, c_att c, c_vec c).

(* designs, problem.failed, store rows by id, number of rows, objective calls *)
Definition side_obs : Type :=
  (list (ind num) * list (ind num) * list (option (ind num)) * nat * list scall)%type.

Definition side_of (st : state num) : side_obs :=
  (s_heap st, s_failed st, rows_of (length (s_heap st)) (s_store st),
   nrows (length (s_heap st)) (s_store st), map strip_f (s_calls st)).

(* valid merge, parallel side (failed and calls as multisets), serial result, serial side (in order),
   model-level instance of the theorem (interleaved observation = serial observation) *)
Definition par_obs : Type := (bool * side_obs * result * side_obs * bool)%type.

Definition scall_eqb (a b : scall) : bool :=
  Nat.eqb (fst (fst a)) (fst (fst b)) && Nat.eqb (snd (fst a)) (snd (fst b)) && fvec_eqb (snd a) (snd b).

(* multiset equality by removing matches one at a time *)
Fixpoint remove_first {A : Type} (eqb : A -> A -> bool) (x : A) (l : list A) : option (list A) :=
  match l with
  | [] => None
  | y :: r => if eqb x y then Some r
              else match remove_first eqb x r with Some r' => Some (y :: r') | None => None end
  end.
Fixpoint perm_eqb {A : Type} (eqb : A -> A -> bool) (a b : list A) : bool :=
  match a with
  | [] => match b with [] => true | _ => false end
  | x :: a' => match remove_first eqb x b with Some b' => perm_eqb eqb a' b' | None => false end
  end.

Definition side_eqb (ordered : bool) (a b : side_obs) : bool :=
  let '(h1, f1, r1, n1, c1) := a in
  let '(h2, f2, r2, n2, c2) := b in
  list_eqb ind_eqb h1 h2 &&
  (if ordered then list_eqb ind_eqb f1 f2 else perm_eqb ind_eqb f1 f2) &&
  list_eqb (opt_eqb ind_eqb) r1 r2 && Nat.eqb n1 n2 &&
  (if ordered then list_eqb scall_eqb c1 c2 else perm_eqb scall_eqb c1 c2).

Definition par_run (c : par_case) : par_obs :=
  let e := par_env c in
  let tasks := map (fun id => (id, task_steps e (q_heap c) id)) (q_batch c) in
  let '(ok, full, rem) := expand tasks (q_trace c) [] in
  let complete := forallb (fun p => match snd p with [] => true | _ => false end) rem in
  let ps := run nltb nzero nroundp nsmul e full (lift (init_of c)) in
  let '(sst, r) := evaluate_serial nltb nzero nroundp nsmul e (init_of c) (q_batch c) in
  let po := side_of (p_st ps) in
  let so := side_of sst in
  (ok && complete, po, r, so, side_eqb false po so).

Definition par_obs_eqb (a b : par_obs) : bool :=
  let '(v1, p1, r1, s1, t1) := a in
  let '(v2, p2, r2, s2, t2) := b in
  Bool.eqb v1 v2 && side_eqb false p1 p2 && result_eqb r1 r2 && side_eqb true s1 s2 && Bool.eqb t1 t2.
