(* Executable driver for the C20 correspondence: binary64 instance of Individual equality
   (abs(a - b) < 1e-10 with the hardware comparison) and the container operations. *)
From Coq Require Import List ZArith Bool Floats.
From Artap Require Export Base.Ord Base.FloatInst Model.IndividualEq.
Import ListNotations.
Local Open Scope float_scope.

Definition fabsdiff (a b : float) : float := PrimFloat.abs (a - b).
Definition ftol : float := 0x1.b7cdfd9d7bdbbp-34.   (* 1e-10 *)

(* an individual of a case: (object token, Individual.id, vector, Python hash of the tuple).
   The object token numbers the distinct Python objects of the case (what `is` compares).
   Individual.id (the attribute; may coincide for different objects after from_dict / copy.copy /
   assignment) is carried for the replay only: the model does not look at it. *)
Definition c20_ind : Type := (nat * Z * list float * Z)%type.

Inductive c20_op :=
| OpEq (i j : nat)            (* pool[i] == pool[j] *)
| OpIn (i : nat) (l : list nat)      (* pool[i] in [pool[k] for k in l] *)
| OpRemove (i : nat) (l : list nat)  (* list.remove / Archive.remove: resulting ids or ValueError *)
| OpSet (l : list nat)               (* set([...]): surviving ids, sorted *)
| OpRepeated (i : nat) (l : list nat)  (* any(pool[i] == o for o in ...) *)
| OpGenerate (N : nat) (pairs : list (nat * nat)).
   (* GeneticAlgorithm.generate with max_population_size = N on the stream of child pairs
      (pool indices) that the scripted operators produced: surviving children, unused pairs *)

Inductive c20_obs := ObB (b : bool) | ObL (l : list nat) | ObErr | ObG (l : list nat) (left : nat).

Definition c20_obs_eqb (a b : c20_obs) : bool :=
  match a, b with
  | ObB x, ObB y => Bool.eqb x y
  | ObL x, ObL y => if list_eq_dec Nat.eq_dec x y then true else false
  | ObErr, ObErr => true
  | ObG x n, ObG y m => (if list_eq_dec Nat.eq_dec x y then true else false) && Nat.eqb n m
  | _, _ => false
  end.

Record c20_case := { c20_pool : list c20_ind; c20_op_ : c20_op }.

Definition get (pool : list c20_ind) (i : nat) : indiv (T := float) :=
  match nth_error pool i with Some (tok, _, v, _) => (tok, v) | None => (0%nat, []) end.
(* hash oracle: looked up by vector among the pool (bit-exact vector match) *)
Fixpoint vec_beq (v w : list float) : bool :=
  match v, w with
  | [], [] => true
  | a :: v', b :: w' => fbits_eqb a b && vec_beq v' w'
  | _, _ => false
  end.
Definition hash_of (pool : list c20_ind) (v : list float) : Z :=
  match find (fun x => vec_beq (snd (fst x)) v) pool with Some (_, _, _, hz) => hz | None => 0%Z end.

Fixpoint insert_sorted (x : nat) (l : list nat) : list nat :=
  match l with [] => [x] | y :: l' => if Nat.leb x y then x :: l else y :: insert_sorted x l' end.
Definition sort_nat (l : list nat) : list nat := fold_right insert_sorted [] l.

Definition c20_run (c : c20_case) : c20_obs :=
  let pool := c20_pool c in
  let g := get pool in
  match c20_op_ c with
  | OpEq i j => match ind_eq PrimFloat.ltb fabsdiff ftol (ivec (g i)) (ivec (g j)) with
                | Some b => ObB b | None => ObErr end
  | OpIn i l => ObB (mem PrimFloat.ltb fabsdiff ftol (g i) (map g l))
  | OpRemove i l => match list_remove PrimFloat.ltb fabsdiff ftol (g i) (map g l) with
                    | Some r => ObL (map fst r) | None => ObErr end
  | OpSet l => ObL (sort_nat (map fst (dedupe PrimFloat.ltb fabsdiff ftol (hash_of pool) (map g l))))
  | OpRepeated i l => ObB (child_repeated PrimFloat.ltb fabsdiff ftol (g i) (map g l))
  | OpGenerate N pairs =>
      let '(r, unused) := generate PrimFloat.ltb fabsdiff ftol N (map (fun p => (g (fst p), g (snd p))) pairs) [] in
      ObG (map fst r) unused
  end.
