(* Driver for the C16 correspondence.  The models are R-valued and therefore not executable:
   a case is a point goal
       Rabs (nth i (model x) 0 - y_impl) <= 1e-9 * (1 + Rabs y_impl)
   with x the exact rationals of the floats the implementation was given and y_impl the exact
   rational of the float it returned.  `c16_point` unfolds the model's own definitions (the loops
   are run by `cbv` on the list/nat structure only; the real-number operations stay symbolic) and
   closes the goal with the verified interval arithmetic of the Interval library. *)
From Coq Require Export Reals List Arith.
From Interval Require Export Tactic.
From Artap Require Export Model.ParetoBench.
Export ListNotations.
Local Open Scope R_scope.

Ltac c16_unfold :=
  cbv [dtlz1 dtlz1_obj dtlz1_g dtlz1_gterm dtlz2 dtlz2_obj dtlz3 dtlz3_obj dtlz3_gterm
       dtlz4 dtlz4_obj dtlz4_alpha sq_term zdt1 zdt1_eval_g zdt1_eval_h biobj
       pysum mul_loop tail_loop
       nth map seq fold_left length skipn Nat.sub Nat.add Nat.ltb Nat.leb INR].

Ltac c16_point := c16_unfold; interval with (i_prec 80).

(* number of objectives: executable on the list structure *)
Ltac c16_len := c16_unfold; reflexivity.

(* self-test of the driver on the all-0.5 point of DTLZ2 with m = 2: f = (cos(pi/4), sin(pi/4)) *)
Goal Rabs (nth 1 (dtlz2 2 [0.5; 0.5; 0.5; 0.5; 0.5; 0.5; 0.5; 0.5; 0.5; 0.5; 0.5]) 0 - 0.7071067811865476)
     <= 1e-9 * (1 + Rabs 0.7071067811865476).
Proof. c16_point. Qed.

Goal length (dtlz3 6 [0.5; 0.5; 0.5; 0.5; 0.5; 0.5; 0.5; 0.5; 0.5; 0.5; 0.5; 0.5; 0.5; 0.5; 0.5]) = 6%nat.
Proof. c16_len. Qed.
