(* Executable driver for the C10 correspondence: a store is created for a problem, a history
   of sync_individual / sync_all calls is applied, and the driver returns what a read-mode
   view of the file shows (problem meta, one entry per row with the fields from_dict restores
   plus the raw row's parents / children). *)
From Coq Require Import List ZArith Bool String.
From Artap Require Export Base.Ord Model.Store.
From Artap Require Import Proofs.StoreProofs.
Import ListNotations.
Local Open Scope Z_scope.
Local Open Scope string_scope.
Local Open Scope list_scope.

Record c10_case := {
  k_name : string; k_description : string; k_params : list jv; k_costs : list jv;
  k_ops : list op }.

(* the eleven observed fields of a row, in a fixed order; None = the view cannot build it *)
Definition row_fields (row : jv) : option (list jv) :=
  match from_dict row, obj_fields row with
  | Some v, Some kv =>
      match jget "parents" kv, jget "children" kv with
      | Some p, Some c =>
          Some [v_id v; v_vector v; v_costs v; v_costs_signed v; v_state v; v_population_id v;
                v_algorithm_id v; v_custom v; v_features v; p; c]
      | _, _ => None
      end
  | _, _ => None
  end.

Definition meta_obs := option (string * string * list jv * list jv).
Definition c10_obs := (meta_obs * list (Z * option (list jv)))%type.

(* None as meta = the constructor raised (duplicate / missing parameter or cost name) *)
Definition c10_run (c : c10_case) : c10_obs :=
  match create_structure (k_name c) (k_description c) (k_params c) (k_costs c) with
  | None => (None, [])
  | Some t =>
      let st := exec (k_ops c) (t_individuals t) in
      (match read_meta (with_individuals t st) with
       | Some m => Some (p_name m, p_description m, p_parameters m, p_costs m)
       | None => None
       end,
       map (fun kr => (fst kr, row_fields (snd kr))) st)
  end.

Definition opt_eqb {A} (eqb : A -> A -> bool) (a b : option A) : bool :=
  match a, b with
  | None, None => true
  | Some x, Some y => eqb x y
  | _, _ => false
  end.

Definition meta_eqb (a b : meta_obs) : bool :=
  opt_eqb (fun x y =>
             match x, y with
             | (n1, d1, p1, c1), (n2, d2, p2, c2) =>
                 String.eqb n1 n2 && String.eqb d1 d2 && list_eqb jv_eqb p1 p2 && list_eqb jv_eqb c1 c2
             end) a b.

Fixpoint find_row {A} (id : Z) (l : list (Z * A)) : option A :=
  match l with
  | [] => None
  | (k, v) :: l' => if Z.eqb k id then Some v else find_row id l'
  end.

(* the rows are compared as a map id -> fields (SELECT without ORDER BY promises no order);
   the model side has distinct keys (proved), the harness checks it for the implementation *)
Definition rows_eqb (model expected : list (Z * option (list jv))) : bool :=
  Nat.eqb (List.length model) (List.length expected) &&
  forallb (fun kr => match find_row (fst kr) model with
                     | Some f => opt_eqb (list_eqb jv_eqb) f (snd kr)
                     | None => false
                     end) expected.

Definition c10_eqb (model expected : c10_obs) : bool :=
  meta_eqb (fst model) (fst expected) && rows_eqb (snd model) (snd expected).

(* ---- large histories (red-team round 3): hundreds to thousands of recorded individuals.
   Evaluating `exec` on them in every run would be wasteful; the driver uses the PROVED closed form of the
   table instead (StoreProofs.upsert_one_row_last_wins / row_count): after any history on a store created empty
   the table has one row per distinct id, and the row of an id is the image of its last synchronisation.
   A case gives the number of distinct ids of the history (counted by the harness from its own description of
   the history, never from artap) and, for a sample of ids (block boundaries of every plausible block size,
   first / last positions, random ones), the last image of that id; the observation is the raw row count and
   the fields the view shows for the sampled ids.  `c10_big_sound` ties this driver to `exec`. *)
Record c10_big := { b_rows : Z; b_samples : list (Z * option individual) }.
Definition c10_big_obs := (Z * list (Z * option (option (list jv))))%type.

Definition c10_big_run (c : c10_big) : c10_big_obs :=
  (b_rows c, map (fun s => (fst s, option_map (fun x => row_fields (to_dict x)) (snd s))) (b_samples c)).

Definition c10_big_eqb (model expected : c10_big_obs) : bool :=
  Z.eqb (fst model) (fst expected) &&
  list_eqb (fun a b => Z.eqb (fst a) (fst b) && opt_eqb (opt_eqb (list_eqb jv_eqb)) (snd a) (snd b))
           (snd model) (snd expected).

(* the closed form is what `exec` computes: for every history `ops` whose distinct ids number `b_rows c` and
   whose last synchronisation of each sampled id is the sampled image (None = never synchronised) *)
Lemma c10_big_sound : forall ops c,
  Z.of_nat (List.length (nodup Z.eq_dec (map i_id (flatten ops)))) = b_rows c ->
  (forall id x, In (id, x) (b_samples c) -> last_sync id (flatten ops) = x) ->
  let st := exec ops [] in
  c10_big_run c =
  (Z.of_nat (List.length st),
   map (fun s => (fst s, option_map row_fields (lookup (fst s) st))) (b_samples c)).
Proof.
  intros ops c Hn Hs st. unfold c10_big_run. f_equal.
  - unfold st. rewrite row_count. symmetry. exact Hn.
  - apply map_ext_in. intros [id x] Hin. simpl. f_equal.
    destruct (upsert_one_row_last_wins ops [] (NoDup_nil _)) as [_ [Hl _]]. cbv zeta in Hl.
    unfold st. rewrite Hl. rewrite (Hs id x Hin). destruct x; reflexivity.
Qed.
