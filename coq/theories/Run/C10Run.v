(* Executable driver for the C10 correspondence: a store is created for a problem, a history
   of sync_individual / sync_all calls is applied, and the driver returns what a read-mode
   view of the file shows (problem meta, one entry per row with the fields from_dict restores
   plus the raw row's parents / children). *)
From Coq Require Import List ZArith Bool String.
From Artap Require Export Base.Ord Model.Store.
Import ListNotations.
Local Open Scope Z_scope.
Local Open Scope string_scope.
Local Open Scope list_scope.

Record c10_case := {
  k_name : string; k_description : string; k_params : list jv; k_costs : list jv;
  k_ops : list op }.

(* the eleven observed fields of a row, in a fixed order; None = the view cannot build it *)
Definition row_fields (row : jv) : option (list jv) :=
  match from_dict row, obj_fields row with
  | Some v, Some kv =>
      match jget "parents" kv, jget "children" kv with
      | Some p, Some c =>
          Some [v_id v; v_vector v; v_costs v; v_costs_signed v; v_state v; v_population_id v;
                v_algorithm_id v; v_custom v; v_features v; p; c]
      | _, _ => None
      end
  | _, _ => None
  end.

Definition meta_obs := option (string * string * list jv * list jv).
Definition c10_obs := (meta_obs * list (Z * option (list jv)))%type.

(* None as meta = the constructor raised (duplicate / missing parameter or cost name) *)
Definition c10_run (c : c10_case) : c10_obs :=
  match create_structure (k_name c) (k_description c) (k_params c) (k_costs c) with
  | None => (None, [])
  | Some t =>
      let st := exec (k_ops c) (t_individuals t) in
      (match read_meta (with_individuals t st) with
       | Some m => Some (p_name m, p_description m, p_parameters m, p_costs m)
       | None => None
       end,
       map (fun kr => (fst kr, row_fields (snd kr))) st)
  end.

Definition opt_eqb {A} (eqb : A -> A -> bool) (a b : option A) : bool :=
  match a, b with
  | None, None => true
  | Some x, Some y => eqb x y
  | _, _ => false
  end.

Definition meta_eqb (a b : meta_obs) : bool :=
  opt_eqb (fun x y =>
             match x, y with
             | (n1, d1, p1, c1), (n2, d2, p2, c2) =>
                 String.eqb n1 n2 && String.eqb d1 d2 && list_eqb jv_eqb p1 p2 && list_eqb jv_eqb c1 c2
             end) a b.

Fixpoint find_row {A} (id : Z) (l : list (Z * A)) : option A :=
  match l with
  | [] => None
  | (k, v) :: l' => if Z.eqb k id then Some v else find_row id l'
  end.

(* the rows are compared as a map id -> fields (SELECT without ORDER BY promises no order);
   the model side has distinct keys (proved), the harness checks it for the implementation *)
Definition rows_eqb (model expected : list (Z * option (list jv))) : bool :=
  Nat.eqb (List.length model) (List.length expected) &&
  forallb (fun kr => match find_row (fst kr) model with
                     | Some f => opt_eqb (list_eqb jv_eqb) f (snd kr)
                     | None => false
                     end) expected.

Definition c10_eqb (model expected : c10_obs) : bool :=
  meta_eqb (fst model) (fst expected) && rows_eqb (snd model) (snd expected).
