(* Driver for the C15 correspondence.  The models are R-valued, hence not executable: the harness
   generates one goal per case,
       Rabs (f_model [x1;..;xn] - y_impl) <= 1e-9 * (1 + Rabs y_impl)
   with xi, y_impl the exact rational values of the implementation's floats, closed by the tactics
   below (unfold the model on the concrete list, then the Interval tactic).  A goal that cannot be
   closed is a correspondence mismatch. *)
From Coq Require Export Reals List Lia Lra.
From Interval Require Export Tactic.
From Artap Require Export Model.Bench.
Export ListNotations.
Local Open Scope R_scope.

Ltac c15_unfold := cbv [rosenbrock ackley sphere schwefel schwefel_term schwefel_alpha easom griewank michalewicz
   micha_term perm perm_outer perm_inner rastrigin sixhump sixhump2 schubert schubert_g zakharov xsy1 xsy2 xsy2_1
   xsy3 xsy3_loop booth gramacylee gramacy1 alpine synthetic1d synthetic1d_1 gauss synthetic2d synthetic2d_2 gauss2
   synthetic5d synthetic10d atoms_sum syn5_atoms syn10_atoms atom_nd sqdist fold_right fst snd
   sum_map prod_map sum_idx prod_idx dimR length last INR eqc_prod eqc_sum eqc_atol].

Ltac c15_interval := first [ interval | interval with (i_prec 120) | interval with (i_prec 400) ].

(* point goal of a model without a branch *)
Ltac c15_point := c15_unfold; c15_interval.

(* point goal of EqualityConstr: decide the isclose test with Interval as well *)
Ltac c15_eqc :=
  unfold eqconstr;
  let Hc := fresh "Hclose" in
  match goal with |- context [Rle_dec ?a ?b] => destruct (Rle_dec a b) as [Hc | Hc] end;
  [ first [ c15_point | exfalso; revert Hc; apply Rlt_not_le; c15_point ]
  | first [ c15_point | exfalso; apply Hc; c15_point ] ].

(* declared data: box, optimum, coordinates, direction, accepted dimensions *)
Ltac c15_data_unfold := cbv [b_f b_dims b_box b_dir b_opt b_coords
   rosenbrock_b ackley_b sphere_b schwefel_b easom_b eqconstr_b griewank_b michalewicz_b perm_b rastrigin_b
   sixhump_b schubert_b zakharov_b xsy1_b xsy2_b xsy3_b booth_b gramacylee_b alpine_b
   synthetic1d_b synthetic2d_b synthetic5d_b synthetic10d_b
   cube any_dim two_dim one_dim inv_seq repeat nth map seq length fst snd INR].

Ltac c15_data :=
  c15_data_unfold;
  repeat match goal with |- _ /\ _ => split end;
  first [ reflexivity | lia | c15_interval
        | (let Hd := fresh "Hd" in intro Hd; repeat match goal with H : _ \/ _ |- _ => destruct H | H : _ /\ _ |- _ => destruct H end;
           first [ discriminate | lia ]) ].
