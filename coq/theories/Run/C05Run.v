(* Executable driver for the C05 / C06 correspondence: the binary64 instance of Model/Job.v
   run over a script of operations (what the harness does with one Problem):
     OpMk i       the harness creates an Individual object with the given fields (id = next position)
     OpEval ids   Algorithm.evaluate([objects ids])
     OpScalar x   algorithm.evaluator.evaluate_scalar(x)
     OpSweep vs   SweepAlgorithm(problem, generator).run() with generator.generate() = vs
   External behaviour observed on the implementation and given to the model as tapes:
     k_outs   outcome of the n-th invocation of the objective (Ok costs / Transient / Fatal kind)
     k_cons   the constraint function as a table vector -> values (keys compared bit for bit)
     k_tape   the vectors returned by VectorAndNumbers.gen_vector inside Job.evaluate, in order
   np.round(y, decimals=p) of a FLOAT is modelled bit-exactly: rint(y * 10^p) / 10^p (rint(y) for p = 0) with rint by
   the 2^52 trick; 10^p is exact in binary64 for p <= 22.  A number the implementation holds as an INTEGER object
   (a Python int returned by the objective, numpy integers derived from it) takes numpy's integer path:
   np.round(n, decimals = p >= 0) = n and sign * n is the exact integer product (no negative zero).  Numbers are
   therefore `num` = binary64 value + "is an integer object" (`F x` / `I x` in the generated cases; |n| < 2^53 so the
   value is exact); the tag steers `nroundp` / `nsmul` and is not part of the comparison (values bit for bit). *)
From Coq Require Import List ZArith Bool Floats.
From Artap Require Export Base.Ord Base.FloatInst Model.Job.
Import ListNotations.
Local Open Scope float_scope.


(* round half to even to an integer (C rint in the default rounding mode); keeps the sign of zero *)
Definition frint (x : float) : float :=
  let a := abs x in
  if a <? 0x1p+52 then (let r := (a + 0x1p+52) - 0x1p+52 in if get_sign x then - r else r) else x.
(* numpy: decimals = 0: rint; decimals > 0: multiply(y, 10^p); rint; true_divide(., 10^p) *)
Fixpoint fpow10 (p : nat) : float := match p with O => 1 | S p' => fpow10 p' * 10 end.
Definition froundp (p : nat) (y : float) : float :=
  match p with
  | O => frint y
  | _ => frint (y * fpow10 p) / fpow10 p
  end.
Definition fround7 (y : float) : float := froundp 7 y.
(* Python int sign (1 / -1) times np.float64 *)
Definition fsmul (maximise : bool) (x : float) : float := (if maximise then -1 else 1) * x.

(* numbers as the implementation holds them *)
Record num := mkn { nv : float; nint : bool }.
Definition F (x : float) : num := mkn x false.
Definition I (x : float) : num := mkn x true.
Definition nltb (a b : num) : bool := fltb (nv a) (nv b).
Definition nzero : num := F 0.
(* np.round: identity on integer objects (decimals >= 0), the float path otherwise *)
Definition nroundp (p : nat) (y : num) : num := if nint y then y else F (froundp p (nv y)).
(* sign * value: float product; for an integer object the integer product, whose zero has no sign *)
Definition nsmul (maximise : bool) (y : num) : num :=
  if nint y then (let r := fsmul maximise (nv y) in I (if (r =? 0) then 0 else r)) else F (fsmul maximise (nv y)).
Definition nbits_eqb (a b : num) : bool := fbits_eqb (nv a) (nv b).
Definition fvec := list num.

Inductive op :=
| OpMk (i : ind num)
| OpEval (ids : list nat)
| OpScalar (x : fvec)
| OpSweep (vs : list fvec).

Inductive opres := RUnit | RRes (r : result) | RScal (s : scalar_ret num).

Record job_case := {
  k_signs : list bool;
  k_outs : list (outcome num);
  k_cons : list (fvec * fvec);
  k_tape : list fvec;
  k_ops : list op }.

(* literal helper for the generated files *)
Definition mk (v c : fvec) (s : option (fvec * bool)) (st : dstate) (f : bool) (p : nat) : ind num :=
  {| ivec := v; icosts := c; isigned := s; istate := st; ifeas := f; iprec := p |}.

(* the job of one design in isolation (used for interleaved runs: 2-worker parallel, nested evaluation);
   its global call numbers are its attempt numbers *)
Definition par_design_case (signs : list bool) (v : fvec) (prec : nat) (outs : list (outcome num))
           (cons : list (fvec * fvec)) (tape : list fvec) : job_case :=
  {| k_signs := signs; k_outs := outs; k_cons := cons; k_tape := tape;
     k_ops := [OpMk (mk v [] None Empty false prec); OpEval [0%nat]] |}.

Fixpoint list_eqb {A : Type} (eqb : A -> A -> bool) (a b : list A) : bool :=
  match a, b with
  | [], [] => true
  | x :: a', y :: b' => eqb x y && list_eqb eqb a' b'
  | _, _ => false
  end.
Definition fvec_eqb : fvec -> fvec -> bool := list_eqb nbits_eqb.

Definition is_transient (o : outcome num) : bool := match o with Transient => true | _ => false end.
Definition count_transient (l : list (outcome num)) : nat := length (filter is_transient l).

Definition cons_lookup (tbl : list (fvec * fvec)) (v : fvec) : option fvec :=
  match find (fun p => fvec_eqb (fst p) v) tbl with Some p => Some (snd p) | None => None end.

Definition env_of (c : job_case) : env num :=
  {| e_signs := k_signs c;
     e_obj := fun cl => nth (c_no cl) (k_outs c) (Fatal 999);
     e_cons := fun v => match cons_lookup (k_cons c) v with Some g => g | None => [F nan] end;
     e_reroll := fun cl => nth (count_transient (firstn (c_no cl) (k_outs c))) (k_tape c) [F nan] |}.

Definition jstate := state num.

Definition run_op (e : env num) (st : jstate) (o : op) : jstate * opres :=
  match o with
  | OpMk i => (alloc st i, RUnit)
  | OpEval ids => let '(st', r) := evaluate_serial nltb nzero nroundp nsmul e st ids in (st', RRes r)
  | OpScalar x => let '(st', s) := evaluate_scalar nltb nzero nroundp nsmul e st x in (st', RScal s)
  | OpSweep vs => let '(st', r) := sweep nltb nzero nroundp nsmul e st vs in (st', RRes r)
  end.

Fixpoint run_ops (e : env num) (st : jstate) (ops : list op) : jstate * list opres :=
  match ops with
  | [] => (st, [])
  | o :: rest => let '(st1, r) := run_op e st o in
                 let '(st2, rs) := run_ops e st1 rest in (st2, r :: rs)
  end.

(* results of the operations, final objects, problem.individuals, problem.failed, sync log,
   objective call log (design, vector), tapes consistent (every scripted outcome and every
   re-rolled vector consumed, every constraint lookup answered) *)
Definition job_obs : Type :=
  list opres * list (ind num) * list nat * list (ind num) * list (nat * ind num) * list (nat * fvec) * bool.

Definition job_run (c : job_case) : job_obs :=
  let '(st, rs) := run_ops (env_of c) init_state (k_ops c) in
  (rs, s_heap st, s_pop st, s_failed st, s_store st,
   map (fun cl => (c_id cl, c_vec cl)) (s_calls st),
   Nat.eqb (length (s_calls st)) (length (k_outs c)) &&
   Nat.eqb (count_transient (k_outs c)) (length (k_tape c)) &&
   forallb (fun cl => match cons_lookup (k_cons c) (c_vec cl) with Some _ => true | None => false end) (s_calls st)).

(* bit-exact equality of observations *)
Definition opt_eqb {A : Type} (eqb : A -> A -> bool) (a b : option A) : bool :=
  match a, b with Some x, Some y => eqb x y | None, None => true | _, _ => false end.
Definition signed_eqb (a b : fvec * bool) : bool := fvec_eqb (fst a) (fst b) && Bool.eqb (snd a) (snd b).
Definition ind_eqb (a b : ind num) : bool :=
  fvec_eqb (ivec a) (ivec b) && fvec_eqb (icosts a) (icosts b) && opt_eqb signed_eqb (isigned a) (isigned b) &&
  dstate_eqb (istate a) (istate b) && Bool.eqb (ifeas a) (ifeas b) && Nat.eqb (iprec a) (iprec b).
Definition result_eqb (a b : result) : bool :=
  match a, b with
  | Done, Done | Raised5, Raised5 => true
  | RaisedFatal j, RaisedFatal k => Nat.eqb j k
  | _, _ => false
  end.
Definition scalar_eqb (a b : scalar_ret num) : bool :=
  match a, b with
  | SVal x, SVal y => nbits_eqb x y
  | SMark x, SMark y => Bool.eqb x y
  | SNone, SNone => true
  | SRaise x, SRaise y => result_eqb x y
  | _, _ => false
  end.
Definition opres_eqb (a b : opres) : bool :=
  match a, b with
  | RUnit, RUnit => true
  | RRes x, RRes y => result_eqb x y
  | RScal x, RScal y => scalar_eqb x y
  | _, _ => false
  end.
Definition nind_eqb (a b : nat * ind num) : bool := Nat.eqb (fst a) (fst b) && ind_eqb (snd a) (snd b).
Definition nvec_eqb (a b : nat * fvec) : bool := Nat.eqb (fst a) (fst b) && fvec_eqb (snd a) (snd b).

Definition job_obs_eqb (a b : job_obs) : bool :=
  let '(r1, h1, p1, f1, s1, c1, t1) := a in
  let '(r2, h2, p2, f2, s2, c2, t2) := b in
  list_eqb opres_eqb r1 r2 && list_eqb ind_eqb h1 h2 && list_eqb Nat.eqb p1 p2 && list_eqb ind_eqb f1 f2 &&
  list_eqb nind_eqb s1 s2 && list_eqb nvec_eqb c1 c2 && Bool.eqb t1 t2.
