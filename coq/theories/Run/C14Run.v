(* Executable driver for the C14 correspondence: Model/Evaluators.v at binary64 (PrimFloat,
   round-to-nearest-even: bit-identical to CPython / numpy scalar arithmetic), the user's
   objective, the sign/rounding conversion of Job.evaluate and the feasibility flag given as a
   table recorded on the implementation (vector -> costs -> signed costs, flag), looked up bit
   for bit; an argument missing from the table yields a poisoned answer, so a model that asks
   for a vector the implementation never evaluated disagrees visibly. *)
From Coq Require Import List ZArith Bool Floats.
From Artap Require Export Base.Ord Base.FloatInst Model.Evaluators.
Import ListNotations.
Local Open Scope nat_scope.

Definition fvec := list float.

Fixpoint list_eqb {A : Type} (eqb : A -> A -> bool) (a b : list A) : bool :=
  match a, b with
  | [], [] => true
  | x :: a', y :: b' => eqb x y && list_eqb eqb a' b'
  | _, _ => false
  end.
Definition fvec_eqb : fvec -> fvec -> bool := list_eqb fbits_eqb.
Definition opt_eqb {A : Type} (eqb : A -> A -> bool) (a b : option A) : bool :=
  match a, b with Some x, Some y => eqb x y | None, None => true | _, _ => false end.

Record c14_case := {
  c_wc : bool;                                     (* true = WORST_CASE, false = GRADIENT *)
  c_comp : bool;                                   (* the first objective returns exact Python floats *)
  c_m : nat;                                       (* declared user objectives *)
  c_tols : fvec;
  c_tolss : list fvec;                             (* red-team round 6: the tolerances current at the time of each
                                                      evaluate() call (problem.parameters was rebound / edited between
                                                      construction and a batch); [] = c_tols for every batch, i.e. the
                                                      runs of the theorems *)
  c_table : list (fvec * fvec * fvec * bool);      (* vector, costs, signed costs (numbers), flag *)
  c_batches : list (list fvec);
  c_again : list (list nat);                     (* per batch: designs created earlier (by creation index
                                                      among the submitted designs) that are handed to evaluate()
                                                      once more, after the new ones; all empty = the runs the
                                                      theorems are about *)
  c_pre : list (list bool);                        (* per batch, per new design: already evaluated by a plain
                                                      Evaluator before it is submitted (false / missing = EMPTY) *)
  c_fails : list (nat * fvec) }.                   (* the failure tape: (global call number of an objective call that
                                                      raised TimeoutError / RuntimeError, the vector gen_vector
                                                      returned for the re-draw), as scripted by / recorded on the
                                                      implementation run *)

(* the tape as the model's `fails`; the empty tape is literally the function of the failure-free theorems *)
Fixpoint look_fail (t : list (nat * fvec)) (k : nat) : option fvec :=
  match t with
  | [] => None
  | (k', w) :: t' => if Nat.eqb k k' then Some w else look_fail t' k
  end.
Definition tape_fails (t : list (nat * fvec)) : nat -> option fvec :=
  match t with [] => fun _ => None | _ => look_fail t end.
(* no job fails five times in a row (the code would raise RuntimeError: outside the model, fail closed);
   a run of consecutive failing call numbers belongs to one job *)
Definition tape_ok (t : list (nat * fvec)) : bool :=
  forallb (fun kw => let k := fst kw in
             negb (match look_fail t (k + 1), look_fail t (k + 2), look_fail t (k + 3), look_fail t (k + 4) with
                   | Some _, Some _, Some _, Some _ => true
                   | _, _, _, _ => false
                   end)) t.

Definition POISON : fvec := [nan; nan; nan; nan; nan; nan; nan].

Fixpoint look_vec (t : list (fvec * fvec * fvec * bool)) (v : fvec) : option (fvec * fvec * bool) :=
  match t with
  | [] => None
  | (k, c, s, b) :: t' => if fvec_eqb k v then Some (c, s, b) else look_vec t' v
  end.
Fixpoint look_costs (t : list (fvec * fvec * fvec * bool)) (c0 : fvec) : option fvec :=
  match t with
  | [] => None
  | (_, c, s, _) :: t' => if fvec_eqb c c0 then Some s else look_costs t' c0
  end.

Definition tab_f (t : list (fvec * fvec * fvec * bool)) (v : fvec) : fvec :=
  match look_vec t v with Some (c, _, _) => c | None => POISON end.
Definition tab_sgn (t : list (fvec * fvec * fvec * bool)) (c : fvec) : fvec :=
  match look_costs t c with Some s => s | None => POISON end.
Definition tab_infeas (t : list (fvec * fvec * fvec * bool)) (v : fvec) : bool :=
  match look_vec t v with Some (_, _, b) => b | None => false end.

(* CPython 3.12 builtin sum() (Python/bltinmodule.c) on a list of exact Python floats, start = int 0:
   the first item is added to 0 generically, the rest with Neumaier's compensated summation; the
   compensation is applied at the end unless it is zero or not finite. *)
Definition py_sum_step (fc : float * float) (x : float) : float * float :=
  let '(f, c) := fc in
  let t := PrimFloat.add f x in
  (t, if PrimFloat.leb (PrimFloat.abs x) (PrimFloat.abs f)
      then PrimFloat.add c (PrimFloat.add (PrimFloat.sub f t) x)
      else PrimFloat.add c (PrimFloat.add (PrimFloat.sub x t) f)).
Definition py_sum (l : fvec) : float :=
  match l with
  | [] => 0%float
  | x1 :: rest =>
      let '(f, c) := fold_left py_sum_step rest (PrimFloat.add 0%float x1, 0%float) in
      if negb (PrimFloat.eqb c 0%float) && PrimFloat.is_finite c then PrimFloat.add f c else f
  end.
(* the same on numpy.float64 items (not exact floats) or ints: 0 + x1 + x2 + ... from the left *)
Definition plain_sum (l : fvec) : float := fold_left PrimFloat.add l 0%float.

Definition DELTA : float := 0x1.a36e2eb1c432dp-14%float.     (* 1e-4 *)

(* one heap cell as observed: vector, costs, costs_signed, evaluated?, parents, children,
   features['sensitivity'], features['gradient'], number of failed objective calls on this individual *)
Definition dump : Type :=
  fvec * fvec * list (sval float) * bool * list nat * list nat * option float * option fvec * nat.

Definition dump_of (d : design float) : dump :=
  (d_vec _ d, d_costs _ d, d_signed _ d, match d_state _ d with EVALUATED => true | EMPTY => false end,
   d_parents _ d, d_children _ d, d_sens _ d, d_grad _ d, d_fail _ d).

(* cells in creation order, call log, processing log, |self.individuals|, |self.to_evaluate|,
   cells of the submitted designs per batch;  None = the evaluator raised (IndexError) *)
Definition c14_obs : Type :=
  option (list dump * list fvec * list (list nat) * nat * nat * list (list nat)).

Definition obs_of (r : st float * list (list nat)) : c14_obs :=
  let '(s, idss) := r in
  let h := s_heap _ s in
  Some (map (fun j => dump_of (h_get _ h j)) (seq 0 (h_next _ h)), s_log _ s, s_proc _ s,
        length (s_inds _ s), length (s_todo _ s), idss).

(* histories with designs that are not fresh (Model: wc_hist / g_hist, the functions of
   C14_worstcase_cost_shape and C14_gradient_with_resubmission): per batch the new designs
   (Pre when already evaluated by a plain Evaluator), then the designs submitted again *)
Fixpoint new_items (b : list fvec) (pre : list bool) : list (item float) :=
  match b with
  | [] => []
  | v :: b' => (if hd false pre then Pre v else New v) :: new_items b' (tl pre)
  end.
Fixpoint hist_items (bs : list (list fvec)) (ag : list (list nat)) (pre : list (list bool)) : list (list (item float)) :=
  match bs with
  | [] => []
  | b :: bs' => (new_items b (hd [] pre) ++ map Old (hd [] ag)) :: hist_items bs' (tl ag) (tl pre)
  end.

(* problem.parameters re-parametrised between batches (red-team round 6): every evaluate() call runs the model's
   wc_evaluate with the tolerance list current at that call; everything else is wc_hist.  With one and the same
   list for every batch it IS wc_hist (wc_hist_staged_constant), the function of C14_worstcase_cost_shape. *)
Section Staged.
  Variable T : Type.
  Variables (add sub mul : T -> T -> T) (abs : T -> T) (zero one mone : T) (psum : list T -> T) (m : nat).
  Variables (f sgn : list T -> list T) (infeas : list T -> bool) (fails : nat -> option (list T)).

  Fixpoint wc_hist_staged (s : st T) (created : list nat) (bs : list (list T * list (item T)))
    : st T * list (list nat) :=
    match bs with
    | [] => (s, [])
    | (tl, b) :: bs' =>
        let '(hl, ids, nw) := mk_batch T f sgn infeas fails (s_heap _ s, s_log _ s) created b in
        let '(s2, idss) :=
          wc_hist_staged (wc_evaluate T add sub mul abs zero one mone psum m tl f sgn infeas fails (with_hl T s hl) ids)
                         (created ++ nw) bs' in
        (s2, ids :: idss)
    end.

  Lemma wc_hist_staged_constant : forall tols bs s created,
    wc_hist_staged s created (map (pair tols) bs) =
    wc_hist T add sub mul abs zero one mone psum m tols f sgn infeas fails s created bs.
  Proof.
    intros tols bs; induction bs as [|b bs IH]; intros s created; simpl; [reflexivity|].
    destruct (mk_batch T f sgn infeas fails (s_heap T s, s_log T s) created b) as [[hl ids] nw].
    rewrite IH; reflexivity.
  Qed.
End Staged.

Definition c14_run (c : c14_case) : c14_obs :=
  let t := c_table c in
  let fails := tape_fails (c_fails c) in
  if negb (tape_ok (c_fails c)) then None else
  let psum := if c_comp c then py_sum else plain_sum in
  let wce := wc_evaluate float PrimFloat.add PrimFloat.sub PrimFloat.mul PrimFloat.abs
                         0%float 1%float (-1)%float psum (c_m c) (c_tols c) (tab_f t) (tab_sgn t) (tab_infeas t) fails in
  let ge := g_evaluate float PrimFloat.add PrimFloat.sub PrimFloat.div 0%float DELTA
                       (tab_f t) (tab_sgn t) (tab_infeas t) fails in
  if c_wc c && negb (match c_tolss c with [] => true | _ => false end) then
    (* the tolerances changed between batches: one list per batch (fail closed on a length mismatch) *)
    let items := hist_items (c_batches c) (c_again c) (c_pre c) in
    if Nat.eqb (length (c_tolss c)) (length items) then
      obs_of (wc_hist_staged float PrimFloat.add PrimFloat.sub PrimFloat.mul PrimFloat.abs
                             0%float 1%float (-1)%float psum (c_m c)
                             (tab_f t) (tab_sgn t) (tab_infeas t) fails (init float) [] (combine (c_tolss c) items))
    else None
  else
  if forallb (fun l => match l with [] => true | _ => false end) (c_again c) &&
     forallb (forallb negb) (c_pre c) then
    if c_wc c then
      obs_of (wc_batches float PrimFloat.add PrimFloat.sub PrimFloat.mul PrimFloat.abs
                         0%float 1%float (-1)%float psum (c_m c) (c_tols c)
                         (tab_f t) (tab_sgn t) (tab_infeas t) fails (init float) (c_batches c))
    else
      match g_batches float PrimFloat.add PrimFloat.sub PrimFloat.div 0%float DELTA
                      (tab_f t) (tab_sgn t) (tab_infeas t) fails (init float) (c_batches c) with
      | Some r => obs_of r
      | None => None
      end
  else
    let items := hist_items (c_batches c) (c_again c) (c_pre c) in
    if c_wc c then
      obs_of (wc_hist float PrimFloat.add PrimFloat.sub PrimFloat.mul PrimFloat.abs
                      0%float 1%float (-1)%float psum (c_m c) (c_tols c)
                      (tab_f t) (tab_sgn t) (tab_infeas t) fails (init float) [] items)
    else
      match g_hist float PrimFloat.add PrimFloat.sub PrimFloat.div 0%float DELTA
                   (tab_f t) (tab_sgn t) (tab_infeas t) fails (init float) [] items with
      | Some r => obs_of r
      | None => None
      end.

Definition sval_eqb (a b : sval float) : bool :=
  match a, b with
  | SV x, SV y => fbits_eqb x y
  | SB x, SB y => Bool.eqb x y
  | _, _ => false
  end.

Definition dump_eqb (a b : dump) : bool :=
  let '(v1, c1, s1, e1, p1, k1, x1, g1, r1) := a in
  let '(v2, c2, s2, e2, p2, k2, x2, g2, r2) := b in
  fvec_eqb v1 v2 && fvec_eqb c1 c2 && list_eqb sval_eqb s1 s2 && Bool.eqb e1 e2 &&
  list_eqb Nat.eqb p1 p2 && list_eqb Nat.eqb k1 k2 && opt_eqb fbits_eqb x1 x2 && opt_eqb fvec_eqb g1 g2 && Nat.eqb r1 r2.

Definition c14_obs_eqb (a b : c14_obs) : bool :=
  opt_eqb (fun x y =>
    let '(d1, l1, p1, i1, t1, s1) := x in
    let '(d2, l2, p2, i2, t2, s2) := y in
    list_eqb dump_eqb d1 d2 && list_eqb fvec_eqb l1 l2 && list_eqb (list_eqb Nat.eqb) p1 p2 &&
    Nat.eqb i1 i2 && Nat.eqb t1 t2 && list_eqb (list_eqb Nat.eqb) s1 s2) a b.
