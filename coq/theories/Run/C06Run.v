(* Executable driver for the C06 correspondence.  C06 runs the same binary64 instance of Model/Job.v
   as C05 (Run/C05Run.v: `job_case`, `job_run`, `job_obs_eqb`): serial histories under a fault schedule
   are scripts of operations with the objective's outcomes as a tape indexed by the global call number.

   A 2-worker parallel run (joblib threads) is compared design by design: whatever the interleaving,
   the calls of one job are its own attempts 0, 1, ... with its own re-rolled vectors, so the job of a
   design that was started is the one-design script `par_design_case` of Run/C05Run.v, with the outcomes and the gen_vector results
   that this design saw as tapes (its global call numbers are its attempt numbers). *)
From Coq Require Import List ZArith Bool Floats.
From Artap Require Export Run.C05Run.
Import ListNotations.

Definition c06_run : job_case -> job_obs := job_run.
Definition c06_obs_eqb : job_obs -> job_obs -> bool := job_obs_eqb.
