(* Executable driver for the C06 correspondence.  C06 runs the same binary64 instance of Model/Job.v
   as C05 (Run/C05Run.v: `job_case`, `job_run`, `job_obs_eqb`): serial histories under a fault schedule
   are scripts of operations with the objective's outcomes as a tape indexed by the global call number.

   A 2-worker parallel run (joblib threads) is compared design by design: whatever the interleaving,
   the calls of one job are its own attempts 0, 1, ... with its own re-rolled vectors, so the job of a
   design that was started is the one-design script `par_design_case` of Run/C05Run.v, with the outcomes and the gen_vector results
   that this design saw as tapes (its global call numbers are its attempt numbers). *)
From Coq Require Import List ZArith Bool Floats.
From Artap Require Export Run.C05Run.
Import ListNotations.

Definition c06_run : job_case -> job_obs := job_run.
Definition c06_obs_eqb : job_obs -> job_obs -> bool := job_obs_eqb.

(* The replacement design itself: Model/Reroll.v `gen_vector_desc` (which keys gen_vector reads for each
   parameter) run in exact rationals on the draws of random() that the implementation consumed, compared with
   the vector gen_vector returned (regime R3: per-coordinate tolerance computed by the harness, a few ulp; a
   coordinate whose quotient is within rounding error of a rounding tie, or whose value is within rounding
   error of an integer before int(), gets one step / one unit and is counted).
   Result: 0 = agrees, 1 = number of draws differs from the number of parameters, 2 = some coordinate differs *)
From Coq Require Import QArith Qabs.
From Artap Require Import Model.Reroll.

Record reroll_case := { r_params : list pdesc; r_draws : list Q; r_impl : list Q; r_tol : list Q }.

Fixpoint qclose3 (m i t : list Q) : bool :=
  match m, i, t with
  | [], [], [] => true
  | x :: m', y :: i', e :: t' => Qle_bool (Qabs (x - y)) e && qclose3 m' i' t'
  | _, _, _ => false
  end.

Definition c06_reroll_run (c : reroll_case) : nat :=
  match gen_vector_desc (r_params c) (r_draws c) with
  | None => 1%nat
  | Some v => if qclose3 v (r_impl c) (r_tol c) then 0%nat else 2%nat
  end.
