(* Executable driver for the C13 correspondence: the Generator classes of operators.py over
   Model/Doe.v with binary64 level values (compared bit for bit) and build_gsd on level counts. *)
From Coq Require Import List ZArith Bool Arith Floats.
From Artap Require Export Base.Ord Base.FloatInst Model.Doe.
From Artap Require Import Proofs.DoeFullfact.
Import ListNotations.
Local Open Scope nat_scope.

Inductive c13_case :=
| CFull (center : bool) (bounds : list (float * float))          (* FullFactorGenerator, init(center) *)
| CFullLevels (values : list (list float)) (nparams : nat)        (* FullFactorLevelsGenerator: zip(values, parameters) *)
| CPB (bounds : list (float * float))                             (* PlackettBurmanGenerator *)
| CBB (bounds : list (float * float))                             (* BoxBehnkenGenerator *)
| CGSDGen (values : list (list float)) (reduction : nat)          (* GSDGenerator, n = 1 *)
| CGSD (levels : list nat) (reduction n : nat)                    (* doe.build_gsd *)
| CFullAt (levels : list N) (idx : list N).                       (* doe.fullfact(levels): run count and the rows idx *)

Inductive c13_obs :=
| ORows (rows : list (list float))
| ODesigns (designs : list (list (list nat)))
| OSample (nrows : N) (rows : list (list Z))
| OErr (code : nat).

Definition err_code (e : err) : nat :=
  match e with EAssert => 1 | EValue => 2 | EType => 3 | EIndex => 4 end.

Definition obs_rows (r : res (list (list float))) : c13_obs :=
  match r with Ok rows => ORows rows | Err e => OErr (err_code e) end.

(* list.sort() of the three levels: stable insertion with fltb (Base/FloatInst.v: a total order that puts NaN
   last); on non-NaN floats fltb is Python's `<`, and NaN level values are excluded (ASSUMPTIONS in harness/c13.py) *)
Fixpoint finsert (x : float) (l : list float) : list float :=
  match l with
  | [] => [x]
  | y :: t => if fltb x y then x :: l else y :: finsert x t
  end.
Definition fsort (l : list float) : list float := fold_left (fun acc x => finsert x acc) l [].

(* [l_b, (l_b + u_b) / 2.0, u_b] *)
Definition full_levels (center : bool) (b : float * float) : list float :=
  let (lb, ub) := b in
  if center then [lb; ((lb + ub) / 2)%float; ub] else [lb; ub].

(* [l_b, u_b] with the mid-point appended and the list sorted *)
Definition bb_levels (b : float * float) : list float :=
  let (lb, ub) := b in fsort [lb; ub; ((lb + ub) / 2)%float].

(* Big designs (level counts / run counts around 2^15, 2^16) are not written out: the run count and the rows at the
   sampled positions idx are compared, the model's row q being digits levels q, which is row q of fullfact levels
   by Props/C13.v C13_fullfact_row_closed_form (and the index row behind row q of build_full_fact by
   C13_build_full_fact_row_closed_form).  Positions beyond the design give the empty row on both sides. *)
Definition full_at (levels : list N) (idx : list N) : c13_obs :=
  match levels with
  | [] => OErr 3
  | _ =>
    let lv := map N.to_nat levels in
    let n := fold_right N.mul 1%N levels in
    OSample n (map (fun q => if (q <? n)%N then map Z.of_nat (digits lv (N.to_nat q)) else []) idx)
  end.

Definition c13_run (c : c13_case) : c13_obs :=
  match c with
  | CFull center bounds => obs_rows (build_full_fact (map (full_levels center) bounds))
  | CFullLevels values nparams => obs_rows (build_full_fact (firstn nparams values))
  | CPB bounds => obs_rows (build_plackett_burman (map (fun b => [fst b; snd b]) bounds))
  | CBB bounds => obs_rows (build_box_behnken (map bb_levels bounds))
  | CGSDGen values reduction => obs_rows (gsd_generate values reduction)
  | CGSD levels reduction n =>
      match build_gsd levels reduction n with
      | Ok ds => ODesigns ds
      | Err e => OErr (err_code e)
      end
  | CFullAt levels idx => full_at levels idx
  end.

Fixpoint list_eqb {A} (eqb : A -> A -> bool) (x y : list A) : bool :=
  match x, y with
  | [], [] => true
  | a :: x', b :: y' => eqb a b && list_eqb eqb x' y'
  | _, _ => false
  end.

Definition c13_obs_eqb (a b : c13_obs) : bool :=
  match a, b with
  | ORows x, ORows y => list_eqb (list_eqb fbits_eqb) x y
  | ODesigns x, ODesigns y => list_eqb (list_eqb (list_eqb Nat.eqb)) x y
  | OSample n x, OSample m y => N.eqb n m && list_eqb (list_eqb Z.eqb) x y
  | OErr x, OErr y => Nat.eqb x y
  | _, _ => false
  end.
