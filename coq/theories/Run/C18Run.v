(* Executable driver for the C18 correspondence: the binary64 instance (fltb, PrimFloat
   arithmetic) of Model/Swarm.v, i.e. the very functions the C18 theorems speak about, run on
   the recorded draws.  Four kinds of cases: update_particle_best, update_velocity,
   update_position, and the history of the leaders archive over the generations of a run. *)
From Coq Require Import List ZArith Bool Floats Arith.
From Artap Require Export Base.Ord Base.FloatInst Model.Dominance Model.Archive Model.Variation Model.Swarm
  Run.C01Run.
From Artap Require Import Proofs.ArchiveParetoInst Proofs.SwarmProofs.
Import ListNotations.
Local Open Scope float_scope.

(* ---------- comparison helpers (bit for bit) ---------- *)
Fixpoint fl_eqb (a b : list float) : bool :=
  match a, b with
  | [], [] => true
  | x :: a', y :: b' => fbits_eqb x y && fl_eqb a' b'
  | _, _ => false
  end.
Fixpoint list_beq {A : Type} (e : A -> A -> bool) (l1 l2 : list A) : bool :=
  match l1, l2 with
  | [], [] => true
  | a :: l1', b :: l2' => e a b && list_beq e l1' l2'
  | _, _ => false
  end.
Definition opt_beq {A : Type} (e : A -> A -> bool) (a b : option A) : bool :=
  match a, b with
  | Some x, Some y => e x y
  | None, None => true
  | _, _ => false
  end.

(* ---------- update_particle_best ---------- *)
Record pb_case := { pb_pop : list (particle (T:=float)); pb_store : list (pbest (T:=float)) }.
Definition pb_obs : Type := option (list (pbest (T:=float))).
(* self.dominance = ParetoDominance() in all three algorithms *)
Definition pb_run (c : pb_case) : pb_obs :=
  update_particle_best (pareto_compare fltb) (pb_pop c) (pb_store c).
Definition pbest_eqb (a b : pbest (T:=float)) : bool :=
  fl_eqb (fst (fst a)) (fst (fst b)) && Z.eqb (snd (fst a)) (snd (fst b)) && fl_eqb (snd a) (snd b).
Definition pb_obs_eqb : pb_obs -> pb_obs -> bool := opt_beq (list_beq pbest_eqb).

(* ---------- update_velocity ---------- *)
Definition FOUR : float := 0x1p+2.
Definition TWO : float := 0x1p+1.
Definition fspeed := speed_constriction fltb PrimFloat.sub PrimFloat.div PrimFloat.opp TWO.

(* khi(c1, c2) is an oracle value (it is computed with `**`), except that it is 1.0 when rho <= 4 *)
Definition khi_ok (d : draws (T:=float)) : bool :=
  if PrimFloat.leb (d_c1 d + d_c2 d) FOUR then fbits_eqb (d_khi d) 1 else true.

Record vel_case := { vl_kind : vkind; vl_params : list (float * float);
                     vl_swarm : list (vparticle (T:=float)) }.
Definition vel_obs : Type := option (list (list float)).
Definition vel_run (c : vel_case) : vel_obs :=
  if forallb (fun p => khi_ok (v_draws p)) (vl_swarm c)
  then update_velocity fltb PrimFloat.add PrimFloat.sub PrimFloat.mul PrimFloat.div PrimFloat.opp TWO
                       (vl_kind c) (vl_params c) (vl_swarm c)
  else None.
Definition vel_obs_eqb : vel_obs -> vel_obs -> bool := opt_beq (list_beq fl_eqb).

(* ---------- update_position ---------- *)
Definition fflip (v : float) : float := v * (-0x1p+0).                 (* velocity[i] *= -1 *)
Definition fdamp (v : float) : float := v * 0x1.0624dd2f1a9fcp-10.     (* velocity[i] *= 0.001 *)

Record pos_case := { ps_damp : bool;                        (* true = SMPSO, false = OMOPSO / PSOGA *)
                     ps_params : list (float * float);
                     ps_swarm : list (list float * list float) }.
Definition pos_obs : Type := option (list (list float * list float)).
Definition pos_run (c : pos_case) : pos_obs :=
  update_position fltb PrimFloat.add (if ps_damp c then fdamp else fflip) (ps_params c) (ps_swarm c).
Definition pos_obs_eqb : pos_obs -> pos_obs -> bool :=
  opt_beq (list_beq (fun a b => fl_eqb (fst a) (fst b) && fl_eqb (snd a) (snd b))).

(* ---------- leaders archive over the generations of a run ---------- *)
Fixpoint lookup (tbl : list (nat * float)) (i : nat) : float :=
  match tbl with
  | [] => 0
  | (j, x) :: tbl' => if Nat.eqb i j then x else lookup tbl' i
  end.
(* sorted(key=features['crowding_distance']): x not after y iff not (key y < key x) *)
Definition lkey_leb (tbl : list (nat * float)) (x y : @aind float) : bool :=
  negb (fltb (lookup tbl (fst y)) (lookup tbl (fst x))).

Record ld_case := {
  ld_size : nat;                                 (* options['max_population_size'] *)
  ld_eps : list float;                           (* epsilons of the archive's comparator *)
  ld_inds : list (list float * Z);               (* costs_signed of individual i: objectives, marker *)
  ld_ties : list float;                          (* tie-break sum of individual i (math.pow oracle) *)
  ld_gens : list (list nat * list (nat * float)) (* per generation: offered ids in call order, and
                                                    (id, crowding_distance) of the members at truncate *)
}.
Definition ld_obs : Type := list (list nat).     (* ids in self.leaders after every generation *)

Definition ld_ind (c : ld_case) (i : nat) : @aind float := (i, nth i (ld_inds c) ([], 0%Z)).
Definition ld_cmp (c : ld_case) : @aind float -> @aind float -> nat :=
  lecmp fltb (fsc (ld_eps c)) (fun x => nth (fst x) (ld_ties c) 0).

Definition ld_run (c : ld_case) : ld_obs :=
  map (map fst)
      (leaders_trace (ld_cmp c) (aceq fltb) lkey_leb (ld_size c) []
                     (map (fun g => (map (ld_ind c) (fst g), snd g)) (ld_gens c))).
Definition ld_obs_eqb : ld_obs -> ld_obs -> bool := list_beq (list_beq Nat.eqb).
