(* Executable driver for the C19 correspondence: the surrogate wrappers of Model/Surrogate.v
   with vectors and objective values as lists of binary64 floats (opaque to the wrapper,
   compared bit for bit), the train() outcomes as a tape observed on the implementation.
   A case is a session (Model/Surrogate.v): requests interleaved with read_from_data_store(),
   user calls of train(), assignments of train_step / trained / problem.surrogate, over one or
   more wrapper objects that start in explicitly given (not necessarily fresh) states. *)
From Coq Require Import List ZArith Bool Floats.
From Artap Require Export Base.Ord Base.FloatInst Model.Surrogate.
Import ListNotations.
Local Open Scope nat_scope.

Definition fvec := list float.

(* One wrapper object of the problem at the start of the case: its class, its train_step, and the
   bookkeeping state observed on the real object (fresh, or a snapshot taken after a warm-up
   segment: counters advanced, training set seeded, so |x_data| <> eval_counter is possible);
   sl_tape = `trained` after the k-th train() call of this object from here on. *)
Record c19_slot := {
  sl_pass : bool;                 (* true = SurrogateModelEval, false = a SurrogateModelPredict subclass *)
  sl_ts : Z;                      (* train_step *)
  sl_trained : bool;
  sl_ec : nat; sl_pc : nat;       (* eval_counter, predict_counter *)
  sl_x : list fvec; sl_y : list fvec;
  sl_tape : list bool }.

Record c19_case := {
  c9_hook : bool;                 (* the problem defines `predict` *)
  c9_cur : nat;                   (* which wrapper is problem.surrogate at the start *)
  c9_slots : list c19_slot;
  c9_events : list (event fvec fvec) }.

(* per wrapper at the end: (trained, eval_counter, predict_counter), train_step, x_data, y_data,
   train log, objective log, hook log *)
Definition c19_slot_obs : Type :=
  (bool * nat * nat) * Z * list fvec * list fvec *
  list (nat * nat * nat) * list (fvec * nat * nat) * list (fvec * nat * nat).

(* returned values of the request events in order (None = the request raised), index of the wrapper
   that is problem.surrogate at the end, the wrappers *)
Definition c19_obs : Type := list (option fvec) * nat * list c19_slot_obs.

Definition mkreq (t : fvec * option fvec * fvec) : req fvec fvec :=
  {| r_vec := fst (fst t); r_hook := snd (fst t); r_true := snd t |}.
Definition ereq (t : fvec * option fvec * fvec) : event fvec fvec := EReq (mkreq t).

Definition slot_wrapper (sl : c19_slot) : wrapper fvec fvec :=
  {| w_pass := sl_pass sl; w_ts := sl_ts sl; w_tape := fun k => nth k (sl_tape sl) true;
     w_st := {| trained := sl_trained sl; eval_counter := sl_ec sl; predict_counter := sl_pc sl;
                x_data := sl_x sl; y_data := sl_y sl; train_log := []; obj_log := []; hook_log := [] |} |}.

Definition wrapper_obs (w : wrapper fvec fvec) : c19_slot_obs :=
  let s := w_st w in
  ((trained s, eval_counter s, predict_counter s), w_ts w, x_data s, y_data s,
   train_log s, obj_log s, hook_log s).

Fixpoint returned (outs : list (option (kind * outcome fvec))) : list (option fvec) :=
  match outs with
  | [] => []
  | None :: t => returned t
  | Some (_, Ret v) :: t => Some v :: returned t
  | Some (_, Raised) :: t => None :: returned t
  end.

Definition c19_run (c : c19_case) : c19_obs :=
  let '(ss, outs) := session_run (c9_hook c) {| cur := c9_cur c; slots := map slot_wrapper (c9_slots c) |}
                                 (c9_events c) in
  (returned outs, cur ss, map wrapper_obs (slots ss)).

(* bit-exact equality of observations *)
Fixpoint list_eqb {A : Type} (eqb : A -> A -> bool) (a b : list A) : bool :=
  match a, b with
  | [], [] => true
  | x :: a', y :: b' => eqb x y && list_eqb eqb a' b'
  | _, _ => false
  end.
Definition fvec_eqb : fvec -> fvec -> bool := list_eqb fbits_eqb.
Definition opt_eqb {A : Type} (eqb : A -> A -> bool) (a b : option A) : bool :=
  match a, b with Some x, Some y => eqb x y | None, None => true | _, _ => false end.
Definition nat3_eqb (a b : nat * nat * nat) : bool :=
  Nat.eqb (fst (fst a)) (fst (fst b)) && Nat.eqb (snd (fst a)) (snd (fst b)) && Nat.eqb (snd a) (snd b).
Definition vnn_eqb (a b : fvec * nat * nat) : bool :=
  fvec_eqb (fst (fst a)) (fst (fst b)) && Nat.eqb (snd (fst a)) (snd (fst b)) && Nat.eqb (snd a) (snd b).
Definition bnn_eqb (a b : bool * nat * nat) : bool :=
  Bool.eqb (fst (fst a)) (fst (fst b)) && Nat.eqb (snd (fst a)) (snd (fst b)) && Nat.eqb (snd a) (snd b).

Definition slot_obs_eqb (a b : c19_slot_obs) : bool :=
  let '(c1, z1, x1, y1, t1, o1, h1) := a in
  let '(c2, z2, x2, y2, t2, o2, h2) := b in
  bnn_eqb c1 c2 && Z.eqb z1 z2 && list_eqb fvec_eqb x1 x2 &&
  list_eqb fvec_eqb y1 y2 && list_eqb nat3_eqb t1 t2 && list_eqb vnn_eqb o1 o2 && list_eqb vnn_eqb h1 h2.

Definition c19_obs_eqb (a b : c19_obs) : bool :=
  let '(r1, k1, w1) := a in
  let '(r2, k2, w2) := b in
  list_eqb (opt_eqb fvec_eqb) r1 r2 && Nat.eqb k1 k2 && list_eqb slot_obs_eqb w1 w2.
