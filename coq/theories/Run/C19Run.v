(* Executable driver for the C19 correspondence: the surrogate wrappers of Model/Surrogate.v
   with vectors and objective values as lists of binary64 floats (opaque to the wrapper,
   compared bit for bit), the train() outcomes as a tape observed on the implementation. *)
From Coq Require Import List ZArith Bool Floats.
From Artap Require Export Base.Ord Base.FloatInst Model.Surrogate.
Import ListNotations.
Local Open Scope nat_scope.

Definition fvec := list float.

Record c19_case := {
  c9_pass : bool;                 (* true = SurrogateModelEval, false = a SurrogateModelPredict subclass *)
  c9_ts : Z;                      (* train_step *)
  c9_hook : bool;                 (* the problem defines `predict` *)
  c9_trained0 : bool;             (* `trained` before the first request *)
  c9_tape : list bool;            (* `trained` after the k-th train() call *)
  c9_reqs : list (fvec * option fvec * fvec) }.   (* vector, hook answer, true value *)

(* returned values (None = the request raised), (trained, eval_counter, predict_counter),
   x_data, y_data, train log, objective log, hook log *)
Definition c19_obs : Type :=
  list (option fvec) * (bool * nat * nat) * list fvec * list fvec *
  list (nat * nat * nat) * list (fvec * nat * nat) * list (fvec * nat * nat).

Definition mkreq (t : fvec * option fvec * fvec) : req fvec fvec :=
  {| r_vec := fst (fst t); r_hook := snd (fst t); r_true := snd t |}.

Definition c19_run (c : c19_case) : c19_obs :=
  let step := if c9_pass c then passthrough_evaluate
              else predict_evaluate (c9_ts c) (c9_hook c) (fun k => nth k (c9_tape c) true) in
  let '(s, outs) := run step (init (c9_trained0 c)) (map mkreq (c9_reqs c)) in
  (map (fun ko => match snd ko with Ret v => Some v | Raised => None end) outs,
   (trained s, eval_counter s, predict_counter s), x_data s, y_data s,
   train_log s, obj_log s, hook_log s).

(* bit-exact equality of observations *)
Fixpoint list_eqb {A : Type} (eqb : A -> A -> bool) (a b : list A) : bool :=
  match a, b with
  | [], [] => true
  | x :: a', y :: b' => eqb x y && list_eqb eqb a' b'
  | _, _ => false
  end.
Definition fvec_eqb : fvec -> fvec -> bool := list_eqb fbits_eqb.
Definition opt_eqb {A : Type} (eqb : A -> A -> bool) (a b : option A) : bool :=
  match a, b with Some x, Some y => eqb x y | None, None => true | _, _ => false end.
Definition nat3_eqb (a b : nat * nat * nat) : bool :=
  Nat.eqb (fst (fst a)) (fst (fst b)) && Nat.eqb (snd (fst a)) (snd (fst b)) && Nat.eqb (snd a) (snd b).
Definition vnn_eqb (a b : fvec * nat * nat) : bool :=
  fvec_eqb (fst (fst a)) (fst (fst b)) && Nat.eqb (snd (fst a)) (snd (fst b)) && Nat.eqb (snd a) (snd b).
Definition bnn_eqb (a b : bool * nat * nat) : bool :=
  Bool.eqb (fst (fst a)) (fst (fst b)) && Nat.eqb (snd (fst a)) (snd (fst b)) && Nat.eqb (snd a) (snd b).

Definition c19_obs_eqb (a b : c19_obs) : bool :=
  let '(r1, c1, x1, y1, t1, o1, h1) := a in
  let '(r2, c2, x2, y2, t2, o2, h2) := b in
  list_eqb (opt_eqb fvec_eqb) r1 r2 && bnn_eqb c1 c2 && list_eqb fvec_eqb x1 x2 &&
  list_eqb fvec_eqb y1 y2 && list_eqb nat3_eqb t1 t2 && list_eqb vnn_eqb o1 o2 && list_eqb vnn_eqb h1 h2.
