(* Executable driver for the C03 correspondence: binary64 instance of crowding distance,
   truncation and binary tournament.  Design equality is what set() applies to Individuals:
   same hash (recorded per individual) and (same object or Individual.__eq__), the latter from
   Model/IndividualEq.v. *)
From Coq Require Import List ZArith Bool Floats.
From Artap Require Export Base.Ord Base.FloatInst Base.StableSort Model.Dominance Model.IndividualEq Model.Selection.
Import ListNotations.
Local Open Scope float_scope.

Record c3ind := { c3id : nat; c3vec : list float; c3hash : Z;
                  c3cost : list float; c3mark : Z; c3front : nat; c3cd : Ext float }.

Definition c3absdiff (a b : float) : float := PrimFloat.abs (a - b).
Definition c3tol : float := 0x1.b7cdfd9d7bdbbp-34.   (* 1e-10 *)

Definition c3deq (e x : c3ind) : bool :=
  Z.eqb (c3hash e) (c3hash x) &&
  (Nat.eqb (c3id e) (c3id x) || eqb_ind PrimFloat.ltb c3absdiff c3tol (c3vec e) (c3vec x)).

Inductive c03_case :=
| CCrowd (f : list (nat * list float))                       (* a front: (id, objectives) in list order *)
| CTrunc (pop : list c3ind) (order : list nat) (k : nat)     (* ranked population, set order, size *)
| CTour (pop : list c3ind) (smp : option (nat * nat)) (coin : option nat).

Inductive c03_obs :=
| OCrowd (r : list (nat * Ext float))    (* (id, distance) of every member, sorted by id: the order the call
                                            leaves the list in is not part of the property and not compared *)
| OIds (r : list nat)                    (* ids of the truncated population, sorted: WHO survives is compared,
                                            the order of the returned list is not part of the property *)
| OWin (w : nat)                         (* id of the tournament winner *)
| OErr.

Definition ext_beq (a b : Ext float) : bool :=
  match a, b with
  | Fin x, Fin y => fbits_eqb x y
  | Inf, Inf => true
  | _, _ => false
  end.

Fixpoint list_beq {X : Type} (eqb : X -> X -> bool) (a b : list X) : bool :=
  match a, b with
  | [], [] => true
  | x :: a', y :: b' => eqb x y && list_beq eqb a' b'
  | _, _ => false
  end.

Definition c03_obs_eqb (a b : c03_obs) : bool :=
  match a, b with
  | OCrowd x, OCrowd y => list_beq (fun p q => Nat.eqb (fst p) (fst q) && ext_beq (snd p) (snd q)) x y
  | OIds x, OIds y => list_beq Nat.eqb x y
  | OWin x, OWin y => Nat.eqb x y
  | OErr, OErr => true
  | _, _ => false
  end.

Definition fcrowding (f : list (nat * list float)) : list ((nat * list float) * Ext float) :=
  crowding fltb PrimFloat.add PrimFloat.sub PrimFloat.div 0 (fun x : nat * list float => snd x) f.

Definition ftruncate (pop : list c3ind) (order : list nat) (k : nat) : option (list c3ind) :=
  truncate fltb c3id c3front c3cd c3deq pop order k.

Definition ftournament (pop : list c3ind) smp coin : option c3ind :=
  tournament fltb c3front (fun x => (c3cost x, c3mark x)) pop smp coin.

Definition uniform_len (f : list (nat * list float)) : bool :=
  match f with
  | [] => true
  | x :: _ => forallb (fun y => Nat.eqb (length (snd y)) (length (snd x))) f
  end.

Definition c03_run (c : c03_case) : c03_obs :=
  match c with
  | CCrowd f =>
      if uniform_len f
      then OCrowd (ssort (fun p q : nat * Ext float => Nat.leb (fst p) (fst q))
                         (map (fun p => (fst (fst p), snd p)) (fcrowding f)))
      else OErr
  | CTrunc pop order k =>
      match ftruncate pop order k with Some r => OIds (ssort Nat.leb (map c3id r)) | None => OErr end
  | CTour pop smp coin =>
      match ftournament pop smp coin with Some w => OWin (c3id w) | None => OErr end
  end.
