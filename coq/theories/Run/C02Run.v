(* Executable driver for the C02 correspondence: the sorter model at the binary64 Pareto
   comparator (ParetoDominance.compare = pareto_compare fltb), observed exactly where the
   property observes the code: features['front_number'] of every individual after the call,
   plus the two other features the sorter writes (final domination_counter, dominate id lists)
   and the list of fronts it hands to crowding_distance. *)
From Coq Require Import List ZArith Bool Floats.
From Artap Require Export Base.Ord Base.FloatInst Model.Dominance Model.Fnds.
Import ListNotations.
Local Open Scope nat_scope.

(* one individual of a case: (id, (objective values, feasibility marker)) *)
Definition c02_ind : Type := (nat * (list float * Z))%type.
Definition c02_case : Type := list c02_ind.

Definition c02_pop (c : c02_case) : list (ind (list float * Z)) :=
  map (fun x => mk_ind (fst x) (snd x)) c.

Record c02_obs := { o_front : list (option nat);        (* front_number per individual *)
                    o_counter : list Z;                  (* domination_counter after the call *)
                    o_dominate : list (list nat);        (* dominate (ids) *)
                    o_fronts : list (list nat) }.        (* fronts as lists of positions *)

Definition c02_run (c : c02_case) : option c02_obs :=
  let pop := c02_pop c in
  match fnds_run (pareto_compare fltb) pop with
  | None => None
  | Some (s, fronts) =>
      let idx := seq 0 (length pop) in
      Some {| o_front := map (frt s) idx; o_counter := map (cnt s) idx;
              o_dominate := map (dom s) idx; o_fronts := fronts |}
  end.

Definition optnat_eqb (a b : option nat) : bool :=
  match a, b with
  | None, None => true
  | Some x, Some y => Nat.eqb x y
  | _, _ => false
  end.

Fixpoint list_eqb {A : Type} (e : A -> A -> bool) (l m : list A) : bool :=
  match l, m with
  | [], [] => true
  | a :: l', b :: m' => e a b && list_eqb e l' m'
  | _, _ => false
  end.

Definition c02_obs_eqb (a b : option c02_obs) : bool :=
  match a, b with
  | Some x, Some y =>
      list_eqb optnat_eqb (o_front x) (o_front y) && list_eqb Z.eqb (o_counter x) (o_counter y) &&
      list_eqb (list_eqb Nat.eqb) (o_dominate x) (o_dominate y) &&
      list_eqb (list_eqb Nat.eqb) (o_fronts x) (o_fronts y)
  | _, _ => false
  end.
