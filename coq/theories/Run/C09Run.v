(* Executable driver for the C09 correspondence: the run models of Model/Runs.v at
   V = list of binary64 floats, C = (signed objective list, feasibility marker), the Pareto
   comparator of Model/Dominance.v, Individual.__eq__ of Model/IndividualEq.v, and the
   sorter + truncation as a recorded oracle (positions of the survivors in the pool). *)
From Coq Require Import List ZArith Bool Floats.
From Artap Require Export Base.Ord Base.FloatInst Model.Dominance Model.IndividualEq Model.Runs.
Import ListNotations.
Local Open Scope nat_scope.

Definition fvec := list float.
Definition fcost : Type := (list float * Z)%type.
Definition find : Type := rind fvec fcost.

Definition c9_absdiff (a b : float) : float := PrimFloat.abs (a - b).
Definition c9_tol : float := 0x1.b7cdfd9d7bdbbp-34%float.   (* 1e-10 *)
Definition c9_veq (v w : fvec) : bool := eqb_ind fltb c9_absdiff c9_tol v w.

Fixpoint list_eqb {A : Type} (eqb : A -> A -> bool) (a b : list A) : bool :=
  match a, b with
  | [], [] => true
  | x :: a', y :: b' => eqb x y && list_eqb eqb a' b'
  | _, _ => false
  end.
Definition fvec_eqb : fvec -> fvec -> bool := list_eqb fbits_eqb.
Definition c9_cmp (p q : fcost) : nat := pareto_compare fltb p q.

(* the recorded selector: (vectors of the pool, positions of the survivors in result order);
   looked up by the bit-exact vector list of the pool (the real selector is a function of the
   pool's vectors and costs, and the harness objective is a function of the vector) *)
Definition sel_table : Type := list (list fvec * list nat).
Fixpoint sel_lookup (tb : sel_table) (vs : list fvec) : option (list nat) :=
  match tb with
  | [] => None
  | (k, pos) :: tb' => if list_eqb fvec_eqb k vs then Some pos else sel_lookup tb' vs
  end.
Definition sel_oracle (tb : sel_table) (pool : list find) (k : nat) : list find :=
  match sel_lookup tb (map rvec pool) with
  | None => []
  | Some pos => flat_map (fun i => match nth_error pool i with Some x => [x] | None => [] end) pos
  end.

Definition entry : Type := ev_entry fvec fcost.

Inductive c09_case :=
| CaseNsga (N G : nat) (init : list fvec) (e0 : list entry) (gens : list (gen_in (V := fvec) (C := fcost)))
           (tb : sel_table)
| CaseEps (N G : nat) (init : list fvec) (e0 : list entry) (gens : list (egen_in (V := fvec) (C := fcost)))
| CasePso (G : nat) (init : list fvec) (e0 : list entry) (gens : list (pgen_in (V := fvec) (C := fcost)))
| CaseAcc (pop : list find) (x : find) (ch : option nat).

(* observation: did the model run; Problem.populations() as (tag, vectors in order);
   the objective call log; successful / failed calls; eps-MOEA working population sizes;
   for CaseAcc the identities of the resulting population *)
Record c09_obs := mk_obs { o_ok : bool; o_pops : list (nat * list fvec); o_log : list (fvec * bool);
                           o_succ : nat; o_fail : nat; o_sizes : list nat; o_ids : list nat }.

Definition obs_fail : c09_obs := mk_obs false [] [] 0 0 [] [].

Definition obs_of (recs : list (nat * find)) (log : list (fvec * bool)) (sizes : list nat) : c09_obs :=
  mk_obs true (map (fun tl => (fst tl, map rvec (snd tl))) (populations recs)) log
         (successes log) (failures log) sizes [].

Definition c09_run (c : c09_case) : c09_obs :=
  match c with
  | CaseNsga N G init e0 gens tb =>
      match nsga2_run c9_veq fvec_eqb (sel_oracle tb) N G init e0 gens with
      | Some st => obs_of (s_rec st) (s_log st) []
      | None => obs_fail
      end
  | CaseEps N G init e0 gens =>
      match eps_run c9_veq fvec_eqb c9_cmp N G init e0 gens with
      | Some st => obs_of (es_rec st) (es_log st) (es_sizes st)
      | None => obs_fail
      end
  | CasePso G init e0 gens =>
      match pso_run fvec_eqb G init e0 gens with
      | Some st => obs_of (ps_rec st) (ps_log st) []
      | None => obs_fail
      end
  | CaseAcc pop x ch =>
      match pop_acceptance c9_veq c9_cmp pop x ch with
      | Some r => mk_obs true [] [] 0 0 [length r] (map rid r)
      | None => obs_fail
      end
  end.

Definition nat_list_eqb : list nat -> list nat -> bool := list_eqb Nat.eqb.
Definition c09_obs_eqb (a b : c09_obs) : bool :=
  Bool.eqb (o_ok a) (o_ok b) &&
  list_eqb (fun x y => Nat.eqb (fst x) (fst y) && list_eqb fvec_eqb (snd x) (snd y)) (o_pops a) (o_pops b) &&
  list_eqb (fun x y => fvec_eqb (fst x) (fst y) && Bool.eqb (snd x) (snd y)) (o_log a) (o_log b) &&
  Nat.eqb (o_succ a) (o_succ b) && Nat.eqb (o_fail a) (o_fail b) &&
  nat_list_eqb (o_sizes a) (o_sizes b) && nat_list_eqb (o_ids a) (o_ids b).
