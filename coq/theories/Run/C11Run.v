(* Executable driver for the C11 correspondence.  Input: the designs created by a run, the objective and
   the signed costs as observed (finite tables), and the events the writer had reported when it died
   (a prefix of its step sequence).  Output: whether the reported order is the one Model/Crash.v
   assumes (`legal`), the rows the model says a fresh process finds (projected on vector, costs, signed
   costs, state), and the rows whose commit may have been under way. *)
From Coq Require Import List ZArith Bool String.
From Artap Require Export Base.Ord Model.Store Run.C10Run Model.Crash.
Import ListNotations.
Local Open Scope Z_scope.
Local Open Scope string_scope.
Local Open Scope list_scope.

Record c11_case := {
  q_designs : list (Z * list jv);
  q_objective : list (list jv * list jv);      (* vector -> costs *)
  q_signed : list (list jv * jv);              (* vector -> signed costs *)
  q_trace : list Crash.step;
  q_conns : list Z }.                          (* connections that had begun a commit that was not reported finished *)

Fixpoint assoc {B} (k : list jv) (t : list (list jv * B)) (d : B) : B :=
  match t with
  | [] => d
  | (k', v) :: t' => if list_eqb jv_eqb k' k then v else assoc k t' d
  end.

Definition c11_objective (c : c11_case) (v : list jv) : list jv := assoc v (q_objective c) [].
Definition c11_signed (c : c11_case) (v : list jv) (_ : list jv) : jv := assoc v (q_signed c) JNull.

(* the part of a row the model determines: vector, costs, signed costs, state (None: unreadable) *)
Definition project (row : jv) : option (list jv) :=
  match from_dict row with
  | Some v => Some [v_vector v; v_costs v; v_costs_signed v; v_state v]
  | None => None
  end.

Definition rows := list (Z * option (list jv)).
(* model side: (legal, recovered rows, in-flight rows); implementation side: (exact crash point?, rows read, []) *)
Definition c11_obs := (bool * rows * rows)%type.

Definition c11_run (c : c11_case) : c11_obs :=
  let obj := c11_objective c in
  let sg := c11_signed c in
  let st0 := Crash.init_state (q_designs c) [] in
  let st := Crash.run_steps obj sg (q_trace c) st0 in
  (Crash.legal obj sg st0 (q_trace c),
   map (fun kr => (fst kr, project (snd kr))) (Crash.recovered st),
   map (fun kr => (fst kr, project (snd kr))) (Crash.in_flight st (q_conns c))).

Definition row_eqb (a b : option (list jv)) : bool := opt_eqb (list_eqb jv_eqb) a b.

(* exact crash point: the rows read are the recovered rows.  Arbitrary instant: every recovered id is
   there, and every row read is either the recovered row of its id or the image of a statement (for that id)
   whose commit was under way. *)
Definition c11_eqb (model expected : c11_obs) : bool :=
  match model, expected with
  | (legal_ok, rec, fl), (exact, got, _) =>
      legal_ok &&
      (if exact then rows_eqb rec got
       else forallb (fun kr => match find_row (fst kr) got with Some _ => true | None => false end) rec &&
            forallb (fun kr => match find_row (fst kr) rec with
                               | Some f => row_eqb f (snd kr)
                               | None => false
                               end
                               || existsb (fun kf => Z.eqb (fst kf) (fst kr) && row_eqb (snd kf) (snd kr)) fl) got)
  end.
