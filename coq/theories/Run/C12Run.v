(* Executable driver for the C12 correspondence.  A case is one call of a Generator's
   generate(): the declared bounds, the requested number and the oracle tape recorded from the
   implementation run.  For the Latin hypercube the tape is the kind-tagged list of calls made on
   the numpy RandomState, in call order (ERand = the matrix returned by rand(samples, n), EPerm =
   the index array returned by permutation(range(samples))); the driver accepts exactly the call
   pattern of doe._lhsclassic (one rand, then one permutation per column) and fails closed (None)
   on any other pattern.  For the random generator the tape is the list of random() results.

   The model's output is a matrix of exact rationals; the implementation's floats come in as exact
   rationals, each with the tolerance the harness states for it, and `c12_eqb` checks
   |model - implementation| <= tolerance entry by entry (and the same shape).  The driver also
   validates the tape against the hypotheses of the theorems (draws in [0,1), index arrays that
   are permutations of range(N)).  None = the code raises / the tape does not fit. *)
From Coq Require Import List ZArith QArith Qabs Bool.
From Artap Require Export Base.Ord Model.Samplers.
Import ListNotations.
Local Open Scope Q_scope.

(* compact literal of a binary64 value (or any dyadic rational): fq m e = m * 2^e *)
Definition fq (m e : Z) : Q :=
  match e with
  | Z0 => inject_Z m
  | Zpos _ => inject_Z (Z.shiftl m e)
  | Zneg p => Qmake m (Pos.shiftl 1 (Npos p))
  end.

Inductive c12_event :=
| ERand (m : list (list Q))
| EPerm (p : list nat).

Inductive c12_case :=
| CLhs (N : nat) (bs : list (Q * Q)) (tape : list c12_event)
| CHalton (N : nat) (bs : list (Q * Q))
| CGrid (k : nat) (bs : list (Q * Q))
| CRandom (N : nat) (ps : list (Q * Q * Q)) (tape : list Q).

(* (value, tolerance); the model side carries tolerance 0 *)
Definition c12_obs := option (list (list (Q * Q))).

(* the implementation's observation with one tolerance per column (compact form for the case files) *)
Definition obs_cols (tols : list Q) (rows : list (list Q)) : c12_obs :=
  Some (map (fun r => combine r (tols ++ repeat 0 (length r - length tols))) rows).

Definition in_unitb (u : Q) : bool := Qle_bool 0 u && negb (Qle_bool 1 u).
Definition is_permb (N : nat) (p : list nat) : bool :=
  (length p =? N)%nat && forallb (fun i => existsb (Nat.eqb i) p) (seq 0 N).

Fixpoint perms_of (tape : list c12_event) : option (list (list nat)) :=
  match tape with
  | [] => Some []
  | EPerm p :: rest => option_map (cons p) (perms_of rest)
  | ERand _ :: _ => None
  end.

(* the call pattern of _lhsclassic: rand once, then permutation once per column *)
Definition lhs_tape (n : nat) (tape : list c12_event) : option (list (list Q) * list (list nat)) :=
  match tape with
  | ERand u :: rest =>
      match perms_of rest with
      | Some ps => if (length ps =? n)%nat then Some (u, ps) else None
      | None => None
      end
  | _ => None
  end.

Definition exact (m : list (list Q)) : list (list (Q * Q)) := map (map (fun x => (x, 0))) m.

Definition c12_run (c : c12_case) : c12_obs :=
  match c with
  | CLhs N bs tape =>
      let n := length bs in
      if (N =? 0)%nat && negb (n =? 0)%nat then None    (* IndexError: permutation(range(0)) is a float array *)
      else
      match lhs_tape n tape with
      | Some (u, perms) =>
          if (length u =? N)%nat && forallb (fun row => (length row =? n)%nat && forallb in_unitb row) u
             && forallb (is_permb N) perms
          then Some (exact (build_lhs N bs u perms)) else None
      | None => None
      end
  | CHalton N bs =>
      if (length bs =? 0)%nat then None                  (* ValueError: np.stack of an empty list *)
      else option_map exact (build_halton N bs)
  | CGrid k bs =>
      if (k =? 1)%nat && negb (length bs =? 0)%nat then None      (* ZeroDivisionError in the code *)
      else Some (exact (uniform_grid k bs))
  | CRandom N ps tape =>
      if forallb in_unitb tape then option_map exact (random_generate N ps tape) else None
  end.

Fixpoint all2 {A : Type} (f : A -> A -> bool) (a b : list A) : bool :=
  match a, b with
  | [], [] => true
  | x :: a', y :: b' => f x y && all2 f a' b'
  | _, _ => false
  end.

Definition close (m x : Q * Q) : bool := Qle_bool (Qabs (fst m - fst x)) (snd x).

(* first argument: the model, second: the implementation's observation *)
Definition c12_eqb (m x : c12_obs) : bool :=
  match m, x with
  | None, None => true
  | Some a, Some b => all2 (all2 close) a b
  | _, _ => false
  end.
