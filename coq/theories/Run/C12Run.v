(* Executable driver for the C12 correspondence.  A case is one call of a Generator's
   generate(): the declared bounds, the requested number and the oracle tape recorded from the
   implementation run.  For the Latin hypercube the tape is the kind-tagged list of calls made on
   the numpy RandomState, in call order (ERand = the matrix returned by rand(samples, n), EPerm =
   the index array returned by permutation(range(samples))); the driver accepts exactly the call
   pattern of doe._lhsclassic (one rand, then one permutation per column) and fails closed (None)
   on any other pattern.  For the random generator the tape is the list of random() results.

   The model's output is a matrix of exact rationals; the implementation's floats come in as exact
   rationals, each with the tolerance the harness states for it, and `c12_eqb` checks
   |model - implementation| <= tolerance entry by entry (and the same shape).  The driver also
   validates the tape against the hypotheses of the theorems (draws in [0,1), index arrays that
   are permutations of range(N)).  None = the code raises / the tape does not fit. *)
From Coq Require Import List ZArith QArith Qabs Qround Bool Floats Uint63.
From Artap Require Export Base.Ord Model.Samplers.
Import ListNotations.
Local Open Scope Q_scope.

(* compact literal of a binary64 value (or any dyadic rational): fq m e = m * 2^e *)
Definition fq (m e : Z) : Q :=
  match e with
  | Z0 => inject_Z m
  | Zpos _ => inject_Z (Z.shiftl m e)
  | Zneg p => Qmake m (Pos.shiftl 1 (Npos p))
  end.

(* Literals of the generated case files.  Number notations of Z and nat are interpreted by evaluating Gallina
   conversion functions (about 1.4 ms per literal: minutes for the case files of one run); primitive float and
   primitive integer literals are read natively.  `ff x` is the exact rational value of the binary64 number x
   (through Prim2SF: sign, mantissa, exponent), `ni i` the natural number of a primitive integer. *)
Definition ff (x : float) : Q :=
  match Prim2SF x with
  | S754_finite s m e => let v := fq (Zpos m) e in if s then - v else v
  | _ => 0                                   (* zeros; infinities / nan are never emitted by the harness *)
  end.
Definition ni (i : int) : nat := Z.to_nat (Uint63.to_Z i).
Definition nis (l : list int) : list nat := map ni l.
Arguments ff _%float_scope.
Arguments ni _%uint63_scope.
Arguments nis _%uint63_scope.

Example ff_exact :
  ff 0x1.8p+1 == 3 /\ ff (-0x1.8p-2) == - (3 # 8) /\ ff 0x0p+0 == 0 /\ ff (-0x0p+0) == 0 /\
  ff 0x1.999999999999ap-4 = Qmake 7205759403792794 (Pos.shiftl 1 56) /\                  (* the double 0.1 *)
  ff 0x0.0000000000001p-1022 = Qmake 1 (Pos.shiftl 1 1074) /\                            (* smallest subnormal *)
  ff 0x1.fffffffffffffp+1023 = inject_Z (Z.shiftl 9007199254740991 971) /\               (* largest double *)
  ff 0x1.fffffffffffffp-1 = Qmake 9007199254740991 (Pos.shiftl 1 53) /\ Nat.eqb (ni 65537) (Z.to_nat 65537) = true /\ nis [0; 3]%uint63 = [0; 3]%nat.
Proof. vm_compute. repeat split. Qed.

Inductive c12_event :=
| ERand (m : list (list Q))
| EPerm (p : list nat).

Inductive c12_case :=
| CLhs (N : nat) (bs : list (Q * Q)) (tape : list c12_event)
| CHalton (N : nat) (bs : list (Q * Q))
| CHaltonAt (N : nat) (bs : list (Q * Q)) (idxs : list nat)     (* only the rows of the listed point numbers (from 1) *)
| CGrid (k : nat) (bs : list (Q * Q))
| CRandom (N : nat) (ps : list (Q * Q * Q)) (tape : list Q).

(* (value, tolerance); the model side carries tolerance 0 *)
Definition c12_obs := option (list (list (Q * Q))).

(* the implementation's observation with one tolerance per column (compact form for the case files) *)
Definition obs_cols (tols : list Q) (rows : list (list Q)) : c12_obs :=
  Some (map (fun r => combine r (tols ++ repeat 0 (length r - length tols))) rows).

Definition in_unitb (u : Q) : bool := Qle_bool 0 u && negb (Qle_bool 1 u).
Definition is_permb (N : nat) (p : list nat) : bool :=
  (length p =? N)%nat && forallb (fun i => existsb (Nat.eqb i) p) (seq 0 N).

Fixpoint perms_of (tape : list c12_event) : option (list (list nat)) :=
  match tape with
  | [] => Some []
  | EPerm p :: rest => option_map (cons p) (perms_of rest)
  | ERand _ :: _ => None
  end.

(* the call pattern of _lhsclassic: rand once, then permutation once per column *)
Definition lhs_tape (n : nat) (tape : list c12_event) : option (list (list Q) * list (list nat)) :=
  match tape with
  | ERand u :: rest =>
      match perms_of rest with
      | Some ps => if (length ps =? n)%nat then Some (u, ps) else None
      | None => None
      end
  | _ => None
  end.

Definition exact (m : list (list Q)) : list (list (Q * Q)) := map (map (fun x => (x, 0))) m.

Definition c12_run (c : c12_case) : c12_obs :=
  match c with
  | CLhs N bs tape =>
      let n := length bs in
      if (N =? 0)%nat && negb (n =? 0)%nat then None    (* IndexError: permutation(range(0)) is a float array *)
      else
      match lhs_tape n tape with
      | Some (u, perms) =>
          if (length u =? N)%nat && forallb (fun row => (length row =? n)%nat && forallb in_unitb row) u
             && forallb (is_permb N) perms
          then Some (exact (build_lhs N bs u perms)) else None
      | None => None
      end
  | CHalton N bs =>
      if (length bs =? 0)%nat then None                  (* ValueError: np.stack of an empty list *)
      else option_map exact (build_halton N bs)
  | CHaltonAt N bs idxs =>
      (* large designs: the rows of the selected point numbers, by the closed form of one row
         (C12_halton_selected_rows: equal to those rows of build_halton N bs); None if a number is outside 1..N *)
      if (length bs =? 0)%nat then None
      else option_map exact (build_halton_at N bs idxs)
  | CGrid k bs =>
      if (k =? 1)%nat && negb (length bs =? 0)%nat then None      (* ZeroDivisionError in the code *)
      else Some (exact (uniform_grid k bs))
  | CRandom N ps tape =>
      if forallb in_unitb tape then option_map exact (random_generate N ps tape) else None
  end.

Fixpoint all2 {A : Type} (f : A -> A -> bool) (a b : list A) : bool :=
  match a, b with
  | [], [] => true
  | x :: a', y :: b' => f x y && all2 f a' b'
  | _, _ => false
  end.

Definition close (m x : Q * Q) : bool := Qle_bool (Qabs (fst m - fst x)) (snd x).

(* first argument: the model, second: the implementation's observation *)
Definition c12_eqb (m x : c12_obs) : bool :=
  match m, x with
  | None, None => true
  | Some a, Some b => all2 (all2 close) a b
  | _, _ => false
  end.

(* ---- compact comparison report ------------------------------------------------------------------
   What the harness evaluates: `c12_check (case, implementation's observation)` is `ROk` exactly when
   `c12_eqb (c12_run case) observation = true` (lemma c12_check_ok below); otherwise it names the
   first differing entry with 64-bit approximations (m, e) = m * 2^e of the model's value, the
   implementation's value and the tolerance.  The exact values stay inside Coq: printing the model's
   full output for a mismatching case took minutes when the bounds are of the order 1e-300 or 1e300
   (rationals with thousands of digits go through the number notation of Q). *)
Inductive c12_report :=
| ROk
| RModelNone                                   (* the model fails closed / says the code raises; the implementation returned *)
| RModelSome (model_rows : nat)                 (* the implementation raised; the model returns this many rows *)
| RRows (model_rows impl_rows : nat)
| RRowLength (row model_len impl_len : nat)
| RDiffer (row col : nat) (model impl tol : Z * Z).

Definition approx (q : Q) : Z * Z :=
  if Qeq_bool q 0 then (0, 0)%Z
  else let e := (Z.log2 (Z.abs (Qnum q)) - Z.log2 (Zpos (Qden q)) - 64)%Z in
       (Qfloor (q * Qpower 2 (- e)), e).

(* first column where the two rows differ: Some (j, Some entries) or Some (j, None) for a length mismatch *)
Fixpoint diff_row (j : nat) (a b : list (Q * Q)) : option (nat * option ((Q * Q) * (Q * Q))) :=
  match a, b with
  | [], [] => None
  | x :: a', y :: b' => if close x y then diff_row (S j) a' b' else Some (j, Some (x, y))
  | _, _ => Some (j, None)
  end.

Fixpoint diff_rows (i : nat) (a b : list (list (Q * Q))) : c12_report :=
  match a, b with
  | [], [] => ROk
  | r :: a', s :: b' =>
      match diff_row 0 r s with
      | None => diff_rows (S i) a' b'
      | Some (j, Some (x, y)) => RDiffer i j (approx (fst x)) (approx (fst y)) (approx (snd y))
      | Some (_, None) => RRowLength i (length r) (length s)
      end
  | _, _ => RRows (i + length a) (i + length b)
  end.

Definition c12_report_of (m x : c12_obs) : c12_report :=
  match m, x with
  | None, None => ROk
  | Some a, Some b => diff_rows 0 a b
  | None, Some _ => RModelNone
  | Some a, None => RModelSome (length a)
  end.

Definition c12_check (cx : c12_case * c12_obs) : c12_report := c12_report_of (c12_run (fst cx)) (snd cx).
Definition c12_report_eqb (r e : c12_report) : bool :=
  match r, e with ROk, ROk => true | _, _ => false end.

Lemma diff_row_ok a : forall j b, diff_row j a b = None <-> all2 close a b = true.
Proof.
  induction a as [|x a IH]; intros j [|y b]; cbn; try (split; [reflexivity || discriminate|reflexivity || discriminate]).
  destruct (close x y); cbn; [apply IH|split; discriminate].
Qed.

Lemma diff_rows_ok a : forall i b, diff_rows i a b = ROk <-> all2 (all2 close) a b = true.
Proof.
  induction a as [|r a IH]; intros i [|s b]; cbn; try (split; [reflexivity || discriminate|reflexivity || discriminate]).
  destruct (diff_row 0 r s) as [[j [[x y]|]]|] eqn:D.
  - assert (N : all2 close r s <> true) by (intros T; apply (diff_row_ok r 0%nat s) in T; rewrite T in D; discriminate).
    destruct (all2 close r s); [exfalso; apply N; reflexivity|]. cbn. split; discriminate.
  - assert (N : all2 close r s <> true) by (intros T; apply (diff_row_ok r 0%nat s) in T; rewrite T in D; discriminate).
    destruct (all2 close r s); [exfalso; apply N; reflexivity|]. cbn. split; discriminate.
  - apply (diff_row_ok r 0%nat s) in D. rewrite D. cbn. apply IH.
Qed.

(* the compact report accepts exactly what the observation equality accepts *)
Lemma c12_check_ok c x : c12_report_eqb (c12_check (c, x)) ROk = true <-> c12_eqb (c12_run c) x = true.
Proof.
  unfold c12_check, c12_report_of, c12_eqb. cbn [fst snd].
  destruct (c12_run c) as [a|], x as [b|]; cbn; try (split; reflexivity || discriminate).
  pose proof (diff_rows_ok a 0%nat b) as E. destruct (diff_rows 0 a b); cbn;
    try (split; [discriminate|intros T; apply E in T; discriminate]).
  split; [intros _; apply E; reflexivity|reflexivity].
Qed.
