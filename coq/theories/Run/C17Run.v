(* Executable driver for the C17 correspondence: the float instance of the result
   queries (values compared bit for bit) and the rational indicators. *)
From Coq Require Import List ZArith QArith Qabs Bool Floats.
From Artap Require Export Base.Ord Base.FloatInst Base.QInst Model.Results Model.Indicators.
Import ListNotations.

(* ---- result queries ---- *)
Inductive query :=
| QPopulation (pid : Z)                                  (* Results.population(pid) *)
| QProblemPopulation (pid : Z)                           (* Problem.population(pid) *)
| QLastPopulation                                        (* Problem.last_population() *)
| QPopulations                                           (* Problem.populations() *)
| QTable (transpose : bool)
| QParameters
| QCosts
| QGoalOnParameter (pi gi : nat) (pid : Z) (sorted : bool)
| QParameterOnGoal (gi pi : nat) (pid : Z) (sorted : bool)
| QParameterOnParameter (p1 p2 : nat) (pid : Z) (sorted : bool)
| QGoalOnIndex (which : option nat) (pid : Z)
| QParameterOnIndex (which : option nat) (pid : Z)
| QFindOptimum (idx : nat)                               (* index of the named goal; 0 for name=None *)
| QParetoIndividuals (front : list nat) (pid : Z)        (* ids whose feature front_number is 1; pid = -1 for None *)
| QParetoFront (front : list nat) (pid : Z)
| QParetoValues
| QPopulationIds.                                        (* get_population_ids(): a set, compared sorted *)

Inductive obs :=
| OIds (l : list nat)
| OGroups (l : list (Z * list nat))
| OTable (rows : list (list float))
| OPair (a b : list float)
| OIndexed (n : nat) (cols : list (list float))
| OOpt (id : nat)
| OTags (l : list Z)
| OErr.

Record c17_case := { c_nparams : nat; c_crit : list criteria;      (* one entry per declared goal *)
                     c_recs : list (record float); c_queries : list query }.

Definition in_range (np ng : nat) (rs : list (record float)) : bool :=
  forallb (fun r => Nat.eqb (length (r_vec r)) np && Nat.eqb (length (r_costs r)) ng) rs.

Definition fzero : float := PrimFloat.zero.

Definition run_query (np : nat) (crit : list criteria) (rs : list (record float)) (q : query) : obs :=
  let ng := length crit in
  let ids := map (@r_id float) in
  match q with
  | QPopulation pid => OIds (ids (results_population pid rs))
  | QProblemPopulation pid => OIds (ids (population_of pid rs))
  | QLastPopulation => OIds (ids (last_population rs))
  | QPopulations => OGroups (map (fun g => (fst g, ids (snd g))) (populations rs))
  | QTable tr => OTable (table tr rs)
  | QParameters => OTable (parameters rs)
  | QCosts => match costs_table fzero rs with Some t => OTable t | None => OErr end
  | QGoalOnParameter pi gi pid s =>
      if Nat.ltb pi np && Nat.ltb gi ng
      then let r := goal_on_parameter fltb fzero pi gi pid s rs in OPair (fst r) (snd r) else OErr
  | QParameterOnGoal gi pi pid s =>
      if Nat.ltb pi np && Nat.ltb gi ng
      then let r := parameter_on_goal fltb fzero gi pi pid s rs in OPair (fst r) (snd r) else OErr
  | QParameterOnParameter p1 p2 pid s =>
      if Nat.ltb p1 np && Nat.ltb p2 np
      then let r := parameter_on_parameter fltb fzero p1 p2 pid s rs in OPair (fst r) (snd r) else OErr
  | QGoalOnIndex w pid =>
      if match w with Some j => Nat.ltb j ng | None => true end
      then let r := goal_on_index fzero w ng pid rs in OIndexed (fst r) (snd r) else OErr
  | QParameterOnIndex w pid =>
      if match w with Some j => Nat.ltb j np | None => true end
      then let r := parameter_on_index fzero w np pid rs in OIndexed (fst r) (snd r) else OErr
  | QFindOptimum idx =>
      if Nat.ltb idx ng
      then match find_optimum fltb fzero idx (nth idx crit CritAbsent) rs with
           | Some r => OOpt (r_id r)
           | None => OErr
           end
      else OErr
  | QParetoIndividuals front pid =>
      OIds (ids (pareto_individuals (fun r => existsb (Nat.eqb (r_id r)) front) pid rs))
  | QParetoFront front pid =>
      OTable (pareto_front fzero (fun r => existsb (Nat.eqb (r_id r)) front) ng pid rs)
  | QParetoValues => OTable (pareto_values rs)
  | QPopulationIds => OTags (isort Z.ltb (map fst (populations rs)))
  end.

(* all recorded individuals have np parameters and one cost per declared goal (what the
   generators produce); otherwise the driver fails closed *)
Definition c17_run (c : c17_case) : list obs :=
  if in_range (c_nparams c) (length (c_crit c)) (c_recs c)
  then map (run_query (c_nparams c) (c_crit c) (c_recs c)) (c_queries c)
  else [OErr].

Fixpoint list_eqb {A} (eqb : A -> A -> bool) (l1 l2 : list A) : bool :=
  match l1, l2 with
  | [], [] => true
  | a :: l1', b :: l2' => eqb a b && list_eqb eqb l1' l2'
  | _, _ => false
  end.

Definition flist_eqb := list_eqb fbits_eqb.
Definition obs_eqb (a b : obs) : bool :=
  match a, b with
  | OIds x, OIds y => list_eqb Nat.eqb x y
  | OGroups x, OGroups y =>
      list_eqb (fun g h => Z.eqb (fst g) (fst h) && list_eqb Nat.eqb (snd g) (snd h)) x y
  | OTable x, OTable y => list_eqb flist_eqb x y
  | OPair a1 b1, OPair a2 b2 => flist_eqb a1 a2 && flist_eqb b1 b2
  | OIndexed n x, OIndexed m y => Nat.eqb n m && list_eqb flist_eqb x y
  | OOpt x, OOpt y => Nat.eqb x y
  | OTags x, OTags y => list_eqb Z.eqb x y
  | OErr, OErr => true
  | _, _ => false
  end.
Definition c17_obs_eqb : list obs -> list obs -> bool := list_eqb obs_eqb.

(* ---- order-insensitive comparison ----
   Evaluated only on cases where the exact comparison above fails.  The property fixes the content of
   the views, not the order of table rows / groups, the order of values among `==` keys of a sorted
   listing, or which of several extremal individuals find_optimum returns; an implementation that
   differs from the model only in those respects is reported as an order-only difference, not as a
   mismatch.  Pairings (rows, (key, value) pairs) are kept intact by every canonicalisation. *)
Section Canon.
Local Open Scope float_scope.
(* total order on non-NaN floats that also separates -0.0 from 0.0 *)
Definition ftotal (x y : float) : bool := fltb x y || (eqv fltb x y && fltb (1 / x) (1 / y)).
Fixpoint lex_ltb (a b : list float) : bool :=
  match a, b with
  | [], [] => false
  | [], _ => true
  | _, [] => false
  | x :: a', y :: b' => if ftotal x y then true else if ftotal y x then false else lex_ltb a' b'
  end.
Definition sort_rows : list (list float) -> list (list float) := isort lex_ltb.
Definition pair_canon_ltb (p q : float * float) : bool :=
  if eqv fltb (fst p) (fst q) then ftotal (snd p) (snd q) else fltb (fst p) (fst q).
Definition canon_pair (ks vs : list float) : obs :=
  OPair (isort ftotal ks) (map snd (isort pair_canon_ltb (combine ks vs))).

Definition canon_obs (c : c17_case) (q : query) (o : obs) : obs :=
  match q, o with
  | QTable true, OTable t => OTable (sort_rows (zipstar t))
  | QTable false, OTable t => OTable (sort_rows t)
  | QParameters, OTable t => OTable (sort_rows t)
  | QCosts, OTable t => OTable (sort_rows (zipstar t))
  | QPopulations, OGroups g => OGroups (isort (fun a b => Z.ltb (fst a) (fst b)) g)
  | QGoalOnParameter _ _ _ true, OPair ks vs => canon_pair ks vs
  | QParameterOnGoal _ _ _ true, OPair ks vs => canon_pair ks vs
  | QParameterOnParameter _ _ _ true, OPair ks vs => canon_pair ks vs
  | QFindOptimum idx, OOpt id =>
      match find (fun r => Nat.eqb (r_id r) id) (c_recs c) with
      | Some r => OTable [[cost_at fzero idx r + 0]]       (* the optimal value; -0.0 + 0 = 0.0 *)
      | None => OErr
      end
  | _, _ => o
  end.

Definition c17_canon (c : c17_case) (os : list obs) : list obs :=
  if Nat.eqb (length (c_queries c)) (length os)
  then map (fun qo => canon_obs c (fst qo) (snd qo)) (combine (c_queries c) os)
  else OErr :: os.

(* (case, implementation's observations) -> do they agree with the model up to order? *)
Definition c17_run_canon (ci : c17_case * list obs) : bool :=
  c17_obs_eqb (c17_canon (fst ci) (c17_run (fst ci))) (c17_canon (fst ci) (snd ci)).
End Canon.

(* ---- indicators ---- *)
Inductive icase :=
| IEps (ref comp : list (list Q))
| IGd (ref comp : list (list Q)).

Inductive iobs :=
| IFin (q : Q)                   (* epsilon_add value / implementation's gd value *)
| IInf
| IEncl (lo hi : Q)              (* model's enclosure of gd *)
| IErr.

(* all points have the same number m >= 1 of coordinates *)
Definition well_formed (ref comp : list (list Q)) : bool :=
  match ref ++ comp with
  | [] => true
  | p :: _ => negb (Nat.eqb (length p) 0) &&
              forallb (fun x => Nat.eqb (length x) (length p)) (ref ++ comp)
  end.

Definition c17_irun (c : icase) : iobs :=
  match c with
  | IEps ref comp =>
      if well_formed ref comp
      then match epsilon_add ref comp with Fin q => IFin q | PInf => IInf end
      else IErr
  | IGd ref comp =>
      if well_formed ref comp && negb (Nat.eqb (length ref) 0) && negb (Nat.eqb (length comp) 0)
      then let e := gd_enclosure_red 64 ref comp in IEncl (fst e) (snd e)   (* == gd_enclosure 64, C17_gd_enclosure_red_sound *)
      else IErr
  end.

(* gd: the implementation's binary64 result y must lie in the model's enclosure widened by
   2^-40 * (1 + |y|)  (rounding of sqrt, of the sum and of the division) *)
Definition gd_tol (y : Q) : Q := (1 # 1099511627776) * (1 + Qabs y).

Definition c17_iobs_eqb (model impl : iobs) : bool :=
  match model, impl with
  | IFin a, IFin b => Qeq_bool a b
  | IInf, IInf => true
  | IErr, IErr => true
  | IEncl lo hi, IFin y => Qle_bool (lo - gd_tol y) y && Qle_bool y (hi + gd_tol y)
  | _, _ => false
  end.
