(* Lemmas for the equivalence proofs of the TRANSLATED benchmark functions (GenProofs/Bench*Equiv.v,
   GenProofs/ParetoEquiv.v): the loops that tools/py2coq_bench.py generates (`fold_left body l init` over the
   vector, over `combine (seq 0 (length x)) x` for enumerate, over `seq a n` for range) against the recursive
   sums / products of Model/Bench.v, and the declared data of a `bench` record in the shape of the generated
   `<Class>_set_gen`.  Nothing here depends on generated code; only the axioms of Coq's reals. *)
From Coq Require Import Reals List Arith Lia Lra.
From Artap Require Import Model.Bench.
Import ListNotations.
Local Open Scope R_scope.

(* ---------------------------------------------------------------- accumulating loops over the vector *)
Lemma fold_add_sum_map : forall (f : R -> R) l a, fold_left (fun s c => s + f c) l a = a + sum_map f l.
Proof. induction l; intros; simpl; [ring | rewrite IHl; ring]. Qed.

Lemma fold_mul_prod_map : forall (f : R -> R) l a, fold_left (fun s c => s * f c) l a = a * prod_map f l.
Proof. induction l; intros; simpl; [ring | rewrite IHl; ring]. Qed.

(* the vectorised spellings: sum([f c for c in x]), np.sum(f(x)), np.prod(f(x)) *)
Lemma fold_plus_map_sum : forall (f : R -> R) l a, fold_left Rplus (map f l) a = a + sum_map f l.
Proof. induction l; intros; simpl; [ring | rewrite IHl; ring]. Qed.

Lemma fold_mult_map_prod : forall (f : R -> R) l a, fold_left Rmult (map f l) a = a * prod_map f l.
Proof. induction l; intros; simpl; [ring | rewrite IHl; ring]. Qed.

(* several accumulators updated independently: the fold of the tuple is the tuple of the folds *)
Lemma fold_left_pair : forall {A B C} (f : A -> C -> A) (g : B -> C -> B) l a b,
  fold_left (fun st c => let '(a, b) := st in (f a c, g b c)) l (a, b) = (fold_left f l a, fold_left g l b).
Proof. intros A B C f g l; induction l; intros; simpl; [reflexivity | apply IHl]. Qed.

Lemma fold_left_triple : forall {A B C D} (f : A -> D -> A) (g : B -> D -> B) (h : C -> D -> C) l a b c,
  fold_left (fun st x => let '(a, b, c) := st in (f a x, g b x, h c x)) l (a, b, c)
  = (fold_left f l a, fold_left g l b, fold_left h l c).
Proof. intros A B C D f g h l; induction l; intros; simpl; [reflexivity | apply IHl]. Qed.

(* the same with the element destructured (for i, c in enumerate(x)) *)
Lemma fold_left_pair_el : forall {A B I C} (f : A -> I -> C -> A) (g : B -> I -> C -> B) l a b,
  fold_left (fun st (el : I * C) => let '(a, b) := st in let '(i, c) := el in (f a i c, g b i c)) l (a, b)
  = (fold_left (fun a (el : I * C) => let '(i, c) := el in f a i c) l a,
     fold_left (fun b (el : I * C) => let '(i, c) := el in g b i c) l b).
Proof. intros A B I C f g l; induction l as [|[i c] l IH]; intros; simpl; [reflexivity | apply IH]. Qed.

Lemma fold_left_triple_el : forall {A B C I D} (f : A -> I -> D -> A) (g : B -> I -> D -> B) (h : C -> I -> D -> C) l a b c,
  fold_left (fun st (el : I * D) => let '(a, b, c) := st in let '(i, x) := el in (f a i x, g b i x, h c i x)) l (a, b, c)
  = (fold_left (fun a (el : I * D) => let '(i, x) := el in f a i x) l a,
     fold_left (fun b (el : I * D) => let '(i, x) := el in g b i x) l b,
     fold_left (fun c (el : I * D) => let '(i, x) := el in h c i x) l c).
Proof. intros A B C I D f g h l; induction l as [|[i x] l IH]; intros; simpl; [reflexivity | apply IH]. Qed.

(* enumerate(x) = combine (seq k (length x)) x against the indexed sums / products of the model *)
Lemma fold_add_sum_idx : forall (f : nat -> R -> R) l k a,
  fold_left (fun s (el : nat * R) => let '(i, c) := el in s + f i c) (combine (seq k (length l)) l) a = a + sum_idx f k l.
Proof. induction l; intros; simpl; [ring | rewrite IHl; ring]. Qed.

Lemma fold_mul_prod_idx : forall (f : nat -> R -> R) l k a,
  fold_left (fun s (el : nat * R) => let '(i, c) := el in s * f i c) (combine (seq k (length l)) l) a = a * prod_idx f k l.
Proof. induction l; intros; simpl; [ring | rewrite IHl; ring]. Qed.

Lemma sum_idx_ext : forall f g x i, (forall j c, f j c = g j c) -> sum_idx f i x = sum_idx g i x.
Proof. intros f g x; induction x; intros; simpl; [reflexivity | rewrite H, (IHx _ H); reflexivity]. Qed.

Lemma prod_idx_ext : forall f g x i, (forall j c, f j c = g j c) -> prod_idx f i x = prod_idx g i x.
Proof. intros f g x; induction x; intros; simpl; [reflexivity | rewrite H, (IHx _ H); reflexivity]. Qed.

Lemma prod_map_ext : forall f g x, (forall c, f c = g c) -> prod_map f x = prod_map g x.
Proof. intros f g x H; induction x; simpl; [reflexivity | rewrite H, IHx; reflexivity]. Qed.

Lemma sum_map_ext' : forall f g x, (forall c, f c = g c) -> sum_map f x = sum_map g x.
Proof. intros f g x H; induction x; simpl; [reflexivity | rewrite H, IHx; reflexivity]. Qed.

Lemma sum_idx_const : forall (f : R -> R) x k, sum_idx (fun _ c => f c) k x = sum_map f x.
Proof. induction x; intros; simpl; [reflexivity | rewrite IHx; reflexivity]. Qed.

Lemma fold_left_ext : forall {A B} (f g : A -> B -> A) l a, (forall a x, f a x = g a x) -> fold_left f l a = fold_left g l a.
Proof. intros A B f g l; induction l; intros; simpl; [reflexivity | rewrite H; apply IHl; assumption]. Qed.

(* for i in range(0, len(x) - 1): s += g(x[i], x[i + 1])  against a structural recursion r over adjacent pairs *)
Lemma fold_adjacent_shift : forall (g : R -> R -> R) (c : R) t n k s,
  fold_left (fun s i => s + g (nth i (c :: t) 0) (nth (i + 1) (c :: t) 0)) (seq (S k) n) s
  = fold_left (fun s i => s + g (nth i t 0) (nth (i + 1) t 0)) (seq k n) s.
Proof. induction n; intros; simpl; [reflexivity | rewrite IHn; reflexivity]. Qed.

Lemma fold_adjacent : forall (g : R -> R -> R) (r : list R -> R),
  (forall c, r [c] = 0) -> r [] = 0 -> (forall c b t, r (c :: b :: t) = g c b + r (b :: t)) ->
  forall x a, fold_left (fun s i => s + g (nth i x 0) (nth (i + 1) x 0)) (seq 0 (length x - 1)) a = a + r x.
Proof.
  intros g r H1 H0 H2. induction x as [|c [|b t] IH]; intros a.
  - simpl. rewrite H0; ring.
  - simpl. rewrite H1; ring.
  - cbn [length Nat.sub seq fold_left]. rewrite fold_adjacent_shift.
    cbn [length Nat.sub] in IH. rewrite Nat.sub_0_r in IH. rewrite IH, H2. cbn [nth Nat.add]. ring.
Qed.

(* an overwriting loop (f = g c, not f = f + g c) keeps the last element only *)
Lemma fold_overwrite : forall (g : R -> R) l a, fold_left (fun _ c => g c) l a = match l with [] => a | _ => g (last l 0) end.
Proof.
  induction l as [|c l IH]; intros; [reflexivity|]. simpl fold_left. rewrite IH.
  destruct l; reflexivity.
Qed.

(* for i in range(...): scores.append(f i) *)
Lemma fold_append_map : forall {A} (f : nat -> A) l acc, fold_left (fun s i => s ++ [f i]) l acc = acc ++ map f l.
Proof.
  intros A f l; induction l; intros; simpl; [symmetry; apply app_nil_r|].
  rewrite IHl, <- app_assoc. reflexivity.
Qed.

(* ---------------------------------------------------------------- small facts about embeddings *)
Lemma INR_add1 : forall i, INR (i + 1) = INR (S i).
Proof. intros; rewrite Nat.add_1_r; reflexivity. Qed.

Lemma INR_plus1 : forall i, INR i + 1 = INR (S i).
Proof. intros; rewrite S_INR; reflexivity. Qed.

Lemma map_const_seq : forall {A} (v : A) n k, map (fun _ => v) (seq k n) = repeat v n.
Proof. induction n; intros; simpl; [reflexivity | rewrite IHn; reflexivity]. Qed.

Lemma nth_combine_cons : forall (a : R) t i, nth (S i) (a :: t) 0 = nth i t 0.
Proof. reflexivity. Qed.

(* ---------------------------------------------------------------- declared data of a benchmark record
   in the shape of the generated <Class>_set_gen: box, criteria (true = maximize), optimum, coordinates *)
Definition dir_flag (d : direction) : bool := match d with Minimize => false | Maximize => true end.

Definition declared (b : bench) (n : nat) : option (list (R * R) * list bool * option R * option (list R)) :=
  Some (b_box b n, [dir_flag (b_dir b)], Some (b_opt b n), b_coords b n).
