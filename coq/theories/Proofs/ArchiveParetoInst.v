(* The Pareto comparator satisfies the laws the archive refinement needs. *)
From Coq Require Import List Arith Bool ZArith Lia Permutation.
From Artap Require Import Base.Ord Model.Dominance Proofs.DominanceProofs Model.Archive Proofs.ArchiveProofs.
Import ListNotations.

Section ParetoInst.
  Context {T : Type} (ltb : T -> T -> bool) (H : SWO ltb).
  Variable m : nat.                                   (* number of objectives *)

  Definition aind : Type := (nat * (list T * Z))%type.   (* id, (signed costs, marker) *)
  Definition acost (x : aind) : list T * Z := snd x.
  Definition acmp (x y : aind) : nat := pareto_compare ltb (acost x) (acost y).

  Fixpoint list_eqv (p q : list T) : bool :=
    match p, q with
    | [], [] => true
    | a :: p', b :: q' => eqv ltb a b && list_eqv p' q'
    | _, _ => false
    end.
  (* costs_signed == costs_signed: element-wise ==, marker compared as a number *)
  Definition aceq (x y : aind) : bool :=
    list_eqv (fst (acost x)) (fst (acost y)) && Z.eqb (snd (acost x)) (snd (acost y)).
  Definition adom (x y : aind) : bool := Nat.eqb (acmp x y) 1.
  Definition awf (x : aind) : Prop := length (fst (acost x)) = m.

  Lemma list_eqv_refl p : list_eqv p p = true.
  Proof. induction p; cbn; rewrite ?(eqv_refl ltb H), ?IHp; reflexivity. Qed.
  Lemma list_eqv_sym : forall p q, list_eqv p q = list_eqv q p.
  Proof. induction p as [|a p IH]; intros [|b q]; cbn; try reflexivity. rewrite (eqv_sym ltb a b), IH. reflexivity. Qed.
  Lemma list_eqv_trans : forall p q r, list_eqv p q = true -> list_eqv q r = true -> list_eqv p r = true.
  Proof.
    induction p as [|a p IH]; intros [|b q] [|c r]; cbn; try discriminate; auto.
    rewrite !andb_true_iff. intros [A B] [C D]. split; [eapply (eqv_trans ltb H); eauto | eapply IH; eauto].
  Qed.

  Lemma better_eqv_l : forall p p' q, list_eqv p p' = true -> better ltb p q = better ltb p' q.
  Proof.
    induction p as [|a p IH]; intros [|a' p'] q E; cbn in E; try discriminate; [reflexivity|].
    apply andb_true_iff in E as [E1 E2]. destruct q as [|b q]; cbn; [reflexivity|].
    rewrite (lt_eqv_l ltb H a a' b E1), (IH p' q E2). reflexivity.
  Qed.
  Lemma better_eqv_r : forall p p' q, list_eqv p p' = true -> better ltb q p = better ltb q p'.
  Proof.
    induction p as [|a p IH]; intros [|a' p'] q E; cbn in E; try discriminate.
    - reflexivity.
    - apply andb_true_iff in E as [E1 E2]. destruct q as [|b q]; cbn; [reflexivity|].
      rewrite (lt_eqv_r ltb H a a' b E1), (IH p' q E2). reflexivity.
  Qed.

  Lemma acmp_eqv_l x x' y : aceq x x' = true -> acmp x y = acmp x' y.
  Proof.
    unfold aceq, acmp. destruct x as [i [p pm]], x' as [i' [p' pm']], y as [j [q qm]]; cbn.
    rewrite andb_true_iff, Z.eqb_eq. intros [E ->].
    rewrite !(pareto_lex ltb), !(cmp0_spec ltb H), (better_eqv_l p p' q E), (better_eqv_r p p' q E). reflexivity.
  Qed.
  Lemma acmp_eqv_r x y y' : aceq y y' = true -> acmp x y = acmp x y'.
  Proof.
    unfold aceq, acmp. destruct x as [i [p pm]], y as [j [q qm]], y' as [j' [q' qm']]; cbn.
    rewrite andb_true_iff, Z.eqb_eq. intros [E ->].
    rewrite !(pareto_lex ltb), !(cmp0_spec ltb H), (better_eqv_l q q' p E), (better_eqv_r q q' p E). reflexivity.
  Qed.

  Lemma aceq_refl x : aceq x x = true.
  Proof. unfold aceq. rewrite list_eqv_refl, Z.eqb_refl. reflexivity. Qed.
  Lemma aceq_sym x y : aceq x y = aceq y x.
  Proof. unfold aceq. rewrite list_eqv_sym, Z.eqb_sym. reflexivity. Qed.
  Lemma aceq_trans x y z : aceq x y = true -> aceq y z = true -> aceq x z = true.
  Proof.
    unfold aceq. rewrite !andb_true_iff, !Z.eqb_eq. intros [A B] [C D].
    split; [eapply list_eqv_trans; eauto | congruence].
  Qed.

  Lemma aceq_cmp0 x y : aceq x y = true -> acmp x y = 0.
  Proof. intros E. rewrite (acmp_eqv_l x y y E). apply (pareto_irrefl ltb H). Qed.

  Lemma acmp_stops x y : stops acmp aceq x y = adom y x || aceq x y.
  Proof.
    unfold stops, adom. pose proof (pareto_antisym ltb H (acost x) (acost y)) as A.
    pose proof (pareto_range ltb H (acost x) (acost y)) as R. fold (acmp x y) in A, R. fold (acmp y x) in A.
    rewrite A. destruct (acmp x y) as [|[|[|n]]] eqn:E; cbn; try lia; try reflexivity.
    destruct (aceq x y) eqn:Q; [|reflexivity]. rewrite (aceq_cmp0 x y Q) in E. discriminate.
  Qed.

  Lemma adom_trans x y z : awf x -> awf y -> awf z -> adom x y = true -> adom y z = true -> adom x z = true.
  Proof.
    unfold adom, awf. rewrite !Nat.eqb_eq. intros Wx Wy Wz. apply (pareto_trans ltb H); unfold same_len; congruence.
  Qed.

  (* the laws, packaged for the generic archive theorems *)
  Theorem pareto_arch_laws : ArchLaws acmp aceq adom awf.
  Proof.
    constructor.
    - intros x _. unfold adom, acmp. rewrite (pareto_irrefl ltb H). reflexivity.
    - exact adom_trans.
    - intros x _. apply aceq_refl.
    - intros x y _ _. apply aceq_sym.
    - intros x y z _ _ _. apply aceq_trans.
    - intros x x' y _ _ _ E. unfold adom. rewrite (acmp_eqv_l x x' y E). reflexivity.
    - intros x y y' _ _ _ E. unfold adom. rewrite (acmp_eqv_r x y y' E). reflexivity.
    - intros x y _ _. reflexivity.
    - intros x y _ _. apply acmp_stops.
  Qed.
End ParetoInst.
