(* Proofs about the result-query model (Model/Results.v). *)
From Coq Require Import List ZArith Bool Lia Permutation Sorted.
From Artap Require Import Base.Ord Model.Results.
Import ListNotations.
Local Open Scope Z_scope.

(* ------------------------------------------------------------------ *)
(* stable insertion sort *)
Section SortFacts.
  Context {A : Type} (lt : A -> A -> bool).

  Lemma insert_perm x l : Permutation (insert lt x l) (x :: l).
  Proof.
    induction l as [|y l IH]; cbn; [reflexivity|].
    destruct (lt y x); [|reflexivity].
    rewrite IH. apply perm_swap.
  Qed.

  Lemma isort_perm l : Permutation (isort lt l) l.
  Proof.
    induction l as [|x l IH]; cbn; [reflexivity|].
    rewrite insert_perm. now constructor.
  Qed.

  Lemma isort_length l : length (isort lt l) = length l.
  Proof. apply Permutation_length, isort_perm. Qed.

  Context (H : SWO lt).
  Definition ge_rel (a b : A) : Prop := lt b a = false.      (* a <= b *)

  Lemma insert_sorted x l : StronglySorted ge_rel l -> StronglySorted ge_rel (insert lt x l).
  Proof.
    induction l as [|y l IH]; intros S; cbn.
    - constructor; constructor.
    - inversion S as [|? ? S' F]; subst. destruct (lt y x) eqn:E.
      + constructor; [now apply IH|].
        rewrite Forall_forall. intros z Hz.
        apply (Permutation_in _ (insert_perm x l)) in Hz. destruct Hz as [<-|Hz].
        * unfold ge_rel. now apply (lt_asym lt H).
        * rewrite Forall_forall in F. now apply F.
      + constructor; [assumption|]. constructor; [exact E|].
        rewrite Forall_forall in *. intros z Hz. unfold ge_rel in *.
        eapply (lt_negtrans _ H); [apply F, Hz|exact E].
  Qed.

  Lemma isort_sorted l : StronglySorted ge_rel (isort lt l).
  Proof. induction l; cbn; [constructor|now apply insert_sorted]. Qed.
End SortFacts.

(* ------------------------------------------------------------------ *)
(* zip( *rows ) on rows of one width *)
Section ZipFacts.
  Context {A : Type} (d : A).

  Lemma heads_uniform n (rows : list (list A)) :
    (forall x, In x rows -> length x = S n) ->
    heads rows = Some (map (fun x => nth 0 x d) rows, map (@tl A) rows).
  Proof.
    induction rows as [|r rows IH]; intros HL; cbn; [reflexivity|].
    destruct r as [|x r]; [specialize (HL [] (or_introl eq_refl)); discriminate|].
    rewrite IH; [reflexivity|]. intros y Hy. apply HL. now right.
  Qed.

  Lemma zip_fuel_uniform n : forall (rows : list (list A)),
    (forall x, In x rows -> length x = n) ->
    zip_fuel n rows = map (fun j => map (fun x => nth j x d) rows) (seq 0 n).
  Proof.
    induction n as [|n IH]; intros rows HL; [reflexivity|].
    cbn [zip_fuel]. rewrite (heads_uniform n rows HL).
    rewrite IH.
    - cbn [seq map]. f_equal. rewrite <- seq_shift, map_map.
      apply map_ext. intros j. rewrite map_map. apply map_ext_in. intros x Hx.
      destruct x; [specialize (HL _ Hx); discriminate|reflexivity].
    - intros y Hy. apply in_map_iff in Hy. destruct Hy as [x [<- Hx]].
      specialize (HL _ Hx). destruct x; cbn in *; lia.
  Qed.

  Lemma zipstar_uniform n (rows : list (list A)) :
    rows <> [] -> (forall x, In x rows -> length x = n) ->
    zipstar rows = map (fun j => map (fun x => nth j x d) rows) (seq 0 n).
  Proof.
    intros NE HL. destruct rows as [|r rows]; [congruence|].
    unfold zipstar. rewrite (HL r (or_introl eq_refl)). now apply zip_fuel_uniform.
  Qed.
End ZipFacts.

(* ------------------------------------------------------------------ *)
Section ResFacts.
  Context {T : Type} (ltb : T -> T -> bool).
  Notation rec := (record T).
  Notation tagb t := (fun r : rec => r_tag r =? t).

  (* ---- population queries ---- *)
  Lemma last_tag_fold : forall (rs : list rec) m,
    let t := fold_left (fun m r => if m <? r_tag r then r_tag r else m) rs m in
    m <= t /\ (forall r, In r rs -> r_tag r <= t) /\ (t = m \/ In t (map r_tag rs)).
  Proof.
    induction rs as [|r rs IH]; intros m; cbn.
    - repeat split; [lia|tauto|now left].
    - specialize (IH (if m <? r_tag r then r_tag r else m)). cbn in IH.
      destruct IH as [A [B C]]. destruct (m <? r_tag r) eqn:E.
      + repeat split; [lia| |].
        * intros x [<-|Hx]; [lia|now apply B].
        * destruct C as [C|C]; [right; left; congruence|right; now right].
      + repeat split; [lia| |].
        * intros x [<-|Hx]; [lia|now apply B].
        * destruct C as [C|C]; [now left|right; now right].
  Qed.

  Lemma last_tag_spec (rs : list rec) :
    -1 <= last_tag rs /\ (forall r, In r rs -> r_tag r <= last_tag rs) /\
    ((exists r, In r rs /\ -1 <= r_tag r) -> In (last_tag rs) (map r_tag rs)).
  Proof.
    destruct (last_tag_fold rs (-1)) as [A [B C]]. fold (last_tag rs) in *.
    repeat split; [exact A|exact B|].
    intros [r [Hr Hge]]. destruct C as [C|C]; [|exact C].
    specialize (B r Hr). assert (r_tag r = last_tag rs) by lia.
    rewrite <- H. now apply in_map.
  Qed.

  Theorem population_is_filter : forall (pid : Z) (rs : list rec),
    (pid <> -1 -> results_population pid rs = filter (tagb pid) rs) /\
    (pid = -1 -> exists t, results_population pid rs = filter (tagb t) rs /\
        -1 <= t /\ (forall r, In r rs -> r_tag r <= t) /\
        ((exists r, In r rs /\ -1 <= r_tag r) -> In t (map r_tag rs))).
  Proof.
    intros pid rs. unfold results_population. split; intros E.
    - destruct (pid =? -1) eqn:F; [lia|reflexivity].
    - subst pid. cbn. exists (last_tag rs). split; [reflexivity|apply last_tag_spec].
  Qed.

  (* membership / order reading of the same statement *)
  Corollary population_members : forall (pid : Z) (rs : list rec) r, pid <> -1 ->
    (In r (results_population pid rs) <-> In r rs /\ r_tag r = pid).
  Proof.
    intros pid rs r E. destruct (population_is_filter pid rs) as [A _].
    rewrite (A E), filter_In, Z.eqb_eq. tauto.
  Qed.

  (* ---- populations(): grouping by tag, first-appearance order ---- *)
  Definition kstep (ks : list Z) (r : rec) : list Z :=
    if existsb (Z.eqb (r_tag r)) ks then ks else ks ++ [r_tag r].
  Definition first_tags (rs : list rec) : list Z := fold_left kstep rs [].

  Lemma existsb_In t ks : existsb (Z.eqb t) ks = true <-> In t ks.
  Proof.
    rewrite existsb_exists. split.
    - intros [x [Hx E]]. apply Z.eqb_eq in E. now subst.
    - intros Hx. exists t. split; [assumption|apply Z.eqb_refl].
  Qed.

  Lemma filter_snoc t (pre : list rec) r :
    filter (tagb t) (pre ++ [r]) = filter (tagb t) pre ++ (if r_tag r =? t then [r] else []).
  Proof. rewrite filter_app. reflexivity. Qed.

  Lemma group_insert_map (r : rec) (pre : list rec) : forall ks,
    NoDup ks -> (~ In (r_tag r) ks -> filter (tagb (r_tag r)) pre = []) ->
    group_insert r (map (fun t => (t, filter (tagb t) pre)) ks) =
    map (fun t => (t, filter (tagb t) (pre ++ [r]))) (kstep ks r).
  Proof.
    unfold kstep. induction ks as [|k ks IH]; intros ND HE.
    - cbn. rewrite filter_app. cbn. rewrite Z.eqb_refl, HE; [reflexivity|tauto].
    - cbn [map group_insert existsb]. inversion ND as [|? ? NI ND']; subst.
      rewrite (Z.eqb_sym (r_tag r) k). destruct (k =? r_tag r) eqn:E.
      + apply Z.eqb_eq in E. subst k. cbn [orb map]. rewrite filter_snoc, Z.eqb_refl.
        f_equal. apply map_ext_in. intros t Ht. rewrite filter_snoc.
        destruct (r_tag r =? t) eqn:F; [apply Z.eqb_eq in F; subst; contradiction|].
        now rewrite app_nil_r.
      + cbn [orb]. rewrite IH; [| assumption |].
        * destruct (existsb (Z.eqb (r_tag r)) ks); cbn [map app]; rewrite filter_snoc;
            rewrite (Z.eqb_sym (r_tag r) k), E, app_nil_r; reflexivity.
        * intros NI'. apply HE. intros [F|F]; [apply Z.eqb_neq in E; congruence|contradiction].
  Qed.

  Lemma kstep_inv ks r (pre : list rec) :
    NoDup ks -> (forall x, In x pre -> In (r_tag x) ks) ->
    NoDup (kstep ks r) /\ (forall x, In x (pre ++ [r]) -> In (r_tag x) (kstep ks r)).
  Proof.
    intros ND HI. unfold kstep. destruct (existsb (Z.eqb (r_tag r)) ks) eqn:E.
    - split; [assumption|]. intros x Hx. apply in_app_or in Hx. destruct Hx as [Hx|[<-|[]]].
      + now apply HI.
      + now apply existsb_In.
    - split.
      + apply Permutation_NoDup with (l := r_tag r :: ks).
        * apply Permutation_cons_append.
        * constructor; [|assumption]. intros F. apply existsb_In in F. congruence.
      + intros x Hx. apply in_or_app. apply in_app_or in Hx. destruct Hx as [Hx|[<-|[]]].
        * left. now apply HI.
        * right. now left.
  Qed.

  Lemma populations_fold : forall (rs pre : list rec) ks,
    NoDup ks -> (forall x, In x pre -> In (r_tag x) ks) ->
    fold_left (fun g r => group_insert r g) rs (map (fun t => (t, filter (tagb t) pre)) ks) =
    map (fun t => (t, filter (tagb t) (pre ++ rs))) (fold_left kstep rs ks) /\
    NoDup (fold_left kstep rs ks) /\
    (forall x, In x (pre ++ rs) -> In (r_tag x) (fold_left kstep rs ks)).
  Proof.
    induction rs as [|r rs IH]; intros pre ks ND HI.
    - cbn. rewrite app_nil_r. auto.
    - cbn [fold_left]. rewrite group_insert_map; [|assumption|].
      + destruct (kstep_inv ks r pre ND HI) as [ND' HI'].
        specialize (IH (pre ++ [r]) (kstep ks r) ND' HI').
        rewrite <- app_assoc in IH. exact IH.
      + intros NI. destruct (filter (tagb (r_tag r)) pre) as [|x l] eqn:F; [reflexivity|].
        assert (Hx : In x (filter (tagb (r_tag r)) pre)) by (rewrite F; now left).
        apply filter_In in Hx. destruct Hx as [Hx E]. apply Z.eqb_eq in E.
        apply HI in Hx. congruence.
  Qed.

  (* closed form: one group per distinct tag, in first-appearance order, each group the
     individuals with that tag in recording order *)
  Theorem populations_spec (rs : list rec) :
    populations rs = map (fun t => (t, filter (tagb t) rs)) (first_tags rs) /\
    NoDup (first_tags rs) /\ (forall t, In t (first_tags rs) <-> In t (map r_tag rs)).
  Proof.
    destruct (populations_fold rs [] [] (NoDup_nil _)) as [A [B C]]; [intros x []|].
    cbn in A, C. fold (populations rs) in A. fold (first_tags rs) in A, B, C.
    repeat split; try assumption.
    - intros Ht.
      assert (In (t, filter (tagb t) rs) (populations rs)).
      { rewrite A. apply in_map_iff. now exists t. }
      (* every key was put there by some individual: by induction on the fold *)
      clear A B C H. unfold first_tags in Ht. revert Ht.
      assert (G : forall (l : list rec) ks, In t (fold_left kstep l ks) -> In t ks \/ In t (map r_tag l)).
      { induction l as [|r l IH]; intros ks Hk; cbn in *; [now left|].
        apply IH in Hk. destruct Hk as [Hk|Hk]; [|right; now right].
        unfold kstep in Hk. destruct (existsb (Z.eqb (r_tag r)) ks); [now left|].
        apply in_app_or in Hk. destruct Hk as [Hk|[<-|[]]]; [now left|right; now left]. }
      intros Ht. apply G in Ht. destruct Ht as [[]|Ht]. exact Ht.
    - intros Ht. apply in_map_iff in Ht. destruct Ht as [r [<- Hr]]. now apply C.
  Qed.

  Lemma group_insert_flat (r : rec) : forall g,
    Permutation (concat (map snd (group_insert r g))) (concat (map snd g) ++ [r]).
  Proof.
    induction g as [|[t l] g IH]; cbn; [reflexivity|].
    destruct (t =? r_tag r); cbn.
    - rewrite <- !app_assoc. apply Permutation_app_head, Permutation_app_comm.
    - rewrite IH. now rewrite app_assoc.
  Qed.

  Lemma grouped_fold : forall (rs : list rec) g,
    Permutation (concat (map snd (fold_left (fun g r => group_insert r g) rs g))) (concat (map snd g) ++ rs).
  Proof.
    induction rs as [|r rs IH]; intros g; cbn; [now rewrite app_nil_r|].
    rewrite IH, group_insert_flat. now rewrite <- app_assoc.
  Qed.

  Theorem grouped_perm (rs : list rec) : Permutation (grouped rs) rs.
  Proof. unfold grouped, populations. now rewrite grouped_fold. Qed.

  (* ---- table ---- *)
  Theorem table_rows_paired : forall rs : list rec,
    table false rs = map row (grouped rs) /\
    Permutation (grouped rs) rs /\
    Permutation (table false rs) (map row rs) /\
    (forall x, In x (table false rs) -> exists r, In r rs /\ x = r_vec r ++ r_costs r) /\
    (forall r, In r rs -> In (r_vec r ++ r_costs r) (table false rs)).
  Proof.
    intros rs. pose proof (grouped_perm rs) as P. cbn [table]. unfold table_rows.
    repeat split; [exact P|now apply Permutation_map| |].
    - intros x Hx. apply in_map_iff in Hx. destruct Hx as [r [<- Hr]].
      exists r. split; [|reflexivity]. now apply (Permutation_in _ P).
    - intros r Hr. apply in_map_iff. exists r. split; [reflexivity|].
      apply (Permutation_in _ (Permutation_sym P)), Hr.
  Qed.

  (* transposed table: column j lists entry j of every row, in row order *)
  Theorem table_transposed_columns : forall (rs : list rec) (n : nat) (d : T),
    rs <> [] -> (forall r, In r rs -> length (r_vec r ++ r_costs r) = n) ->
    table true rs = map (fun j => map (fun x => nth j x d) (table false rs)) (seq 0 n).
  Proof.
    intros rs n d NE HL. cbn [table]. apply zipstar_uniform.
    - unfold table_rows. intros E. apply map_eq_nil in E.
      pose proof (grouped_perm rs) as P. rewrite E in P. apply Permutation_nil in P. contradiction.
    - intros x Hx. destruct (table_rows_paired rs) as [_ [_ [_ [A _]]]].
      destruct (A x Hx) as [r [Hr ->]]. now apply HL.
  Qed.

  (* ---- Pareto views ---- *)
  Theorem pareto_front_spec : forall (d : T) (front1 : rec -> bool) (ngoals : nat) (pid : Z) (rs : list rec),
    pareto_individuals front1 pid rs = filter front1 (results_population pid rs) /\
    (forall r, In r (pareto_individuals front1 pid rs) <-> In r (results_population pid rs) /\ front1 r = true) /\
    length (pareto_front d front1 ngoals pid rs) = ngoals /\
    (forall j, (j < ngoals)%nat ->
       nth j (pareto_front d front1 ngoals pid rs) [] = map (cost_at d j) (pareto_individuals front1 pid rs)).
  Proof.
    intros d front1 ngoals pid rs. unfold pareto_front. cbn zeta.
    split; [reflexivity|]. split; [|split].
    - intros r. unfold pareto_individuals. rewrite filter_In. tauto.
    - rewrite map_length. apply seq_length.
    - intros j Hj.
      rewrite (nth_indep _ [] ((fun j => map (cost_at d j) (pareto_individuals front1 pid rs)) 0%nat))
        by (rewrite map_length, seq_length; exact Hj).
      rewrite (map_nth (fun j => map (cost_at d j) (pareto_individuals front1 pid rs))).
      rewrite seq_nth by exact Hj. reflexivity.
  Qed.

  Theorem pareto_values_spec : forall rs : list rec,
    ((1 < length (last_population rs))%nat -> pareto_values rs = map r_costs (last_population rs)) /\
    ((length (last_population rs) <= 1)%nat -> pareto_values rs = []).
  Proof.
    intros rs. unfold pareto_values. cbn zeta.
    destruct (Nat.ltb 1 (length (last_population rs))) eqn:E.
    - split; [reflexivity|]. apply Nat.ltb_lt in E. lia.
    - split; [|reflexivity]. apply Nat.ltb_ge in E. lia.
  Qed.

  (* ---- sorted listings ---- *)
  Context (H : SWO ltb).
  Notation eqvT a b := (eqv ltb a b = true).

  Lemma pair_ltb_SWO : SWO (pair_ltb ltb).
  Proof.
    pose proof (lt_irrefl _ H) as IR.
    constructor; unfold pair_ltb.
    - intros [a b]; cbn. rewrite (eqv_refl ltb H). apply IR.
    - intros [a b] [c e] [f g]; cbn.
      destruct (eqv ltb a c) eqn:E1, (eqv ltb c f) eqn:E2.
      + rewrite (eqv_trans ltb H _ _ _ E1 E2). apply (lt_trans _ H).
      + intros _ L. rewrite (lt_eqv_l ltb H _ _ f E1).
        replace (eqv ltb a f) with false; [exact L|].
        symmetry. destruct (eqv ltb a f) eqn:E3; [|reflexivity].
        rewrite eqv_sym in E1. rewrite (eqv_trans ltb H _ _ _ E1 E3) in E2. discriminate.
      + intros L _. rewrite <- (lt_eqv_r ltb H _ _ a E2).
        replace (eqv ltb a f) with false; [exact L|].
        symmetry. destruct (eqv ltb a f) eqn:E3; [|reflexivity].
        rewrite (eqv_sym ltb c f) in E2. rewrite (eqv_trans ltb H _ _ _ E3 E2) in E1. discriminate.
      + intros L1 L2. pose proof (lt_trans _ H _ _ _ L1 L2) as L3.
        replace (eqv ltb a f) with false; [exact L3|].
        unfold eqv. rewrite L3. reflexivity.
    - intros [a b] [c e] [f g]; cbn.
      destruct (eqv ltb a c) eqn:E1, (eqv ltb c f) eqn:E2.
      + rewrite (eqv_trans ltb H _ _ _ E1 E2). apply (lt_negtrans _ H).
      + intros _ L. rewrite (lt_eqv_l ltb H _ _ f E1).
        replace (eqv ltb a f) with false; [exact L|].
        symmetry. destruct (eqv ltb a f) eqn:E3; [|reflexivity].
        rewrite eqv_sym in E1. rewrite (eqv_trans ltb H _ _ _ E1 E3) in E2. discriminate.
      + intros L _. rewrite <- (lt_eqv_r ltb H _ _ a E2).
        replace (eqv ltb a f) with false; [exact L|].
        symmetry. destruct (eqv ltb a f) eqn:E3; [|reflexivity].
        rewrite (eqv_sym ltb c f) in E2. rewrite (eqv_trans ltb H _ _ _ E3 E2) in E1. discriminate.
      + intros L1 L2. pose proof (lt_negtrans _ H _ _ _ L1 L2) as L3.
        destruct (eqv ltb a f) eqn:E3; [|exact L3].
        (* a ~ f, not a < c, not c < f, a !~ c: then c < a ~ f, so c < f: contradiction *)
        exfalso. unfold eqv in E1. rewrite L1 in E1. cbn in E1. apply negb_false_iff in E1.
        rewrite (lt_eqv_r ltb H _ _ c E3) in E1. congruence.
  Qed.

  (* keys of the pair sort = the key sort, position by position, up to `==` *)
  Lemma insert_keys_tail : forall (A' : list T) (B' : list (T * T)) a k v,
    eqvT a k -> StronglySorted (ge_rel ltb) (a :: A') ->
    Forall2 (fun x y => eqvT x y) A' (map fst B') ->
    Forall2 (fun x y => eqvT x y) (a :: A') (map fst (insert (pair_ltb ltb) (k, v) B')).
  Proof.
    induction A' as [|a2 A' IH]; intros B' a k v Eak S F.
    - inversion F as [E|]; subst. symmetry in H0. apply map_eq_nil in H0. subst B'.
      cbn. constructor; [assumption|constructor].
    - destruct B' as [|b2 B']; [inversion F|]. cbn [map] in F.
      inversion F as [|? ? ? ? E2 F']; subst. cbn [insert].
      inversion S as [|? ? S' Fa]; subst. inversion Fa as [|? ? Ga _]; subst. unfold ge_rel in Ga.
      destruct (pair_ltb ltb b2 (k, v)) eqn:P.
      + (* b2 is skipped: its key must be == k *)
        assert (Ek : eqvT (fst b2) k).
        { unfold pair_ltb in P. cbn [fst snd] in P. destruct (eqv ltb (fst b2) k) eqn:E; [reflexivity|].
          exfalso. rewrite <- (lt_eqv_l ltb H _ _ k E2) in P.
          rewrite <- (lt_eqv_r ltb H _ _ a2 Eak) in P. congruence. }
        cbn [map]. constructor.
        * rewrite (eqv_sym ltb (fst b2) k) in Ek. exact (eqv_trans ltb H _ _ _ Eak Ek).
        * apply IH; [exact (eqv_trans ltb H _ _ _ E2 Ek)|exact S'|exact F'].
      + cbn [map fst]. constructor; [assumption|]. constructor; [assumption|assumption].
  Qed.

  Lemma insert_keys : forall (A0 : list T) (B0 : list (T * T)) k v,
    StronglySorted (ge_rel ltb) A0 ->
    Forall2 (fun x y => eqvT x y) A0 (map fst B0) ->
    Forall2 (fun x y => eqvT x y) (insert ltb k A0) (map fst (insert (pair_ltb ltb) (k, v) B0)).
  Proof.
    induction A0 as [|a A0 IH]; intros B0 k v S F.
    - inversion F as [E|]; subst. symmetry in H0. apply map_eq_nil in H0. subst B0.
      cbn. constructor; [apply (eqv_refl ltb H)|constructor].
    - destruct B0 as [|b B0]; [inversion F|]. cbn [map] in F.
      inversion F as [|? ? ? ? E F']; subst. cbn [insert].
      inversion S as [|? ? S' Fa]; subst.
      destruct (ltb a k) eqn:L.
      + (* both skip *)
        assert (P : pair_ltb ltb b (k, v) = true).
        { unfold pair_ltb. cbn [fst snd]. rewrite <- (lt_eqv_l ltb H _ _ k E), L.
          replace (eqv ltb (fst b) k) with false; [reflexivity|].
          symmetry. unfold eqv. rewrite <- (lt_eqv_l ltb H _ _ k E), L. reflexivity. }
        rewrite P. cbn [map]. constructor; [assumption|]. now apply IH.
      + destruct (pair_ltb ltb b (k, v)) eqn:P.
        * (* key sort stops, pair sort goes on: the skipped keys are == k *)
          assert (Ek : eqvT (fst b) k).
          { unfold pair_ltb in P. cbn [fst snd] in P. destruct (eqv ltb (fst b) k) eqn:E3; [reflexivity|].
            rewrite <- (lt_eqv_l ltb H _ _ k E) in P. congruence. }
          cbn [map]. constructor; [now rewrite eqv_sym|].
          apply insert_keys_tail; [exact (eqv_trans ltb H _ _ _ E Ek)|exact S|exact F'].
        * cbn [map fst]. constructor; [apply (eqv_refl ltb H)|]. constructor; assumption.
  Qed.

  Lemma isort_keys : forall l : list (T * T),
    Forall2 (fun x y => eqvT x y) (isort ltb (map fst l)) (map fst (isort (pair_ltb ltb) l)).
  Proof.
    induction l as [|[k v] l IH]; cbn; [constructor|].
    apply insert_keys; [apply (isort_sorted ltb H)|exact IH].
  Qed.

  Lemma map_fst_combine (ks vs : list T) : length ks = length vs -> map fst (combine ks vs) = ks.
  Proof.
    revert vs. induction ks as [|k ks IH]; intros [|v vs] E; cbn in *; try discriminate; [reflexivity|].
    f_equal. apply IH. lia.
  Qed.

  (* the sorted idiom  vs = sort_list(ks, vs); ks.sort()  never re-pairs *)
  Theorem sorted_listing_is_permutation_of_pairs : forall ks vs : list T, length ks = length vs ->
    sort_both ltb false ks vs = (ks, vs) /\
    exists sp : list (T * T),
      Permutation sp (combine ks vs) /\
      StronglySorted (ge_rel (pair_ltb ltb)) sp /\
      snd (sort_both ltb true ks vs) = map snd sp /\
      Forall2 (fun a b => eqvT a b) (fst (sort_both ltb true ks vs)) (map fst sp) /\
      Permutation (fst (sort_both ltb true ks vs)) ks /\
      StronglySorted (ge_rel ltb) (fst (sort_both ltb true ks vs)).
  Proof.
    intros ks vs E. split; [reflexivity|].
    exists (isort (pair_ltb ltb) (combine ks vs)). cbn [sort_both fst snd]. repeat split.
    - apply isort_perm.
    - apply (isort_sorted _ pair_ltb_SWO).
    - pose proof (isort_keys (combine ks vs)) as K. now rewrite (map_fst_combine ks vs E) in K.
    - apply isort_perm.
    - apply (isort_sorted ltb H).
  Qed.

  (* when `==` is identity on the values (no -0.0/0.0 pair among the keys) the two returned
     lists zip back to a permutation of the recorded pairs *)
  Corollary sorted_listing_exact : forall ks vs : list T, length ks = length vs ->
    (forall a b, eqvT a b -> a = b) ->
    Permutation (combine (fst (sort_both ltb true ks vs)) (snd (sort_both ltb true ks vs))) (combine ks vs).
  Proof.
    intros ks vs E AS. destruct (sorted_listing_is_permutation_of_pairs ks vs E) as [_ [sp [P [_ [S [F _]]]]]].
    assert (EQ : fst (sort_both ltb true ks vs) = map fst sp).
    { revert F. generalize (fst (sort_both ltb true ks vs)) (map fst sp).
      induction 1; [reflexivity|]. f_equal; [now apply AS|assumption]. }
    rewrite EQ, S. rewrite <- P.
    clear. induction sp as [|[a b] sp IH]; cbn; [reflexivity|]. now constructor.
  Qed.

  (* the three listings: with keys f and values g read off the individuals of the queried
     population, the two returned lists are the components of one arrangement `sp` of the
     individuals' own (key, value) pairs *)
  Lemma combine_map2 (f g : rec -> T) (l : list rec) :
    combine (map f l) (map g l) = map (fun r => (f r, g r)) l.
  Proof. induction l as [|a l IH]; cbn; [reflexivity|now rewrite IH]. Qed.

  Theorem listing_pairs : forall (f g : rec -> T) (inds : list rec) (sorted : bool),
    let out := sort_both ltb sorted (map f inds) (map g inds) in
    exists sp : list (T * T),
      Permutation sp (map (fun r => (f r, g r)) inds) /\
      snd out = map snd sp /\
      Forall2 (fun a b => eqvT a b) (fst out) (map fst sp) /\
      Permutation (fst out) (map f inds) /\
      (sorted = false -> sp = map (fun r => (f r, g r)) inds /\ fst out = map fst sp) /\
      (sorted = true -> StronglySorted (ge_rel ltb) (fst out) /\ StronglySorted (ge_rel (pair_ltb ltb)) sp).
  Proof.
    intros f g inds sorted out.
    assert (L : length (map f inds) = length (map g inds)) by now rewrite !map_length.
    destruct (sorted_listing_is_permutation_of_pairs _ _ L) as [U [sp [P [SS [S2 [F [P1 S1]]]]]]].
    rewrite combine_map2 in P. destruct sorted.
    - exists sp. subst out. repeat split; try assumption; discriminate.
    - exists (map (fun r => (f r, g r)) inds). subst out. rewrite U. cbn [fst snd].
      rewrite !map_map. cbn [fst snd].
      repeat split; try reflexivity; try discriminate.
      clear - H. induction inds as [|a inds IH]; cbn [map]; [apply Forall2_nil|apply Forall2_cons; [apply (eqv_refl ltb H)|exact IH]].
  Qed.

  (* ---- find_optimum ---- *)
  Lemma first_min_spec (key : rec -> T) : forall l best,
    let m := first_min ltb key best l in
    In m (best :: l) /\ forall x, In x (best :: l) -> ltb (key x) (key m) = false.
  Proof.
    induction l as [|x l IH]; intros best; cbn [first_min].
    - cbn. split; [now left|]. intros x [<-|[]]. apply (lt_irrefl _ H).
    - specialize (IH (if ltb (key x) (key best) then x else best)). cbn zeta in IH.
      destruct IH as [A B]. set (m := first_min ltb key _ l) in *.
      destruct (ltb (key x) (key best)) eqn:E.
      + split; [destruct A as [A|A]; [right; now left|right; now right]|].
        intros y [<-|[<-|Hy]].
        * assert (Lx : ltb (key x) (key m) = false) by (apply B; now left).
          destruct (ltb (key best) (key m)) eqn:F; [|reflexivity].
          rewrite (lt_trans _ H _ _ _ E F) in Lx. discriminate.
        * apply B. now left.
        * apply B. now right.
      + split; [destruct A as [A|A]; [now left|right; now right]|].
        intros y [<-|[<-|Hy]].
        * apply B. now left.
        * eapply (lt_negtrans _ H); [exact E|apply B; now left].
        * apply B. now right.
  Qed.

  Lemma first_max_spec (key : rec -> T) : forall l best,
    let m := first_max ltb key best l in
    In m (best :: l) /\ forall x, In x (best :: l) -> ltb (key m) (key x) = false.
  Proof.
    induction l as [|x l IH]; intros best; cbn [first_max].
    - cbn. split; [now left|]. intros x [<-|[]]. apply (lt_irrefl _ H).
    - specialize (IH (if ltb (key best) (key x) then x else best)). cbn zeta in IH.
      destruct IH as [A B]. set (m := first_max ltb key _ l) in *.
      destruct (ltb (key best) (key x)) eqn:E.
      + split; [destruct A as [A|A]; [right; now left|right; now right]|].
        intros y [<-|[<-|Hy]].
        * assert (Lx : ltb (key m) (key x) = false) by (apply B; now left).
          destruct (ltb (key m) (key best)) eqn:F; [|reflexivity].
          rewrite (lt_trans _ H _ _ _ F E) in Lx. discriminate.
        * apply B. now left.
        * apply B. now right.
      + split; [destruct A as [A|A]; [now left|right; now right]|].
        intros y [<-|[<-|Hy]].
        * apply B. now left.
        * eapply (lt_negtrans _ H); [apply B; now left|exact E].
        * apply B. now right.
  Qed.

  Theorem find_optimum_extremal : forall (d : T) (idx : nat) (crit : criteria) (rs : list rec),
    (rs <> [] -> exists r, find_optimum ltb d idx crit rs = Some r) /\
    forall r, find_optimum ltb d idx crit rs = Some r ->
      In r rs /\
      (crit = CritAbsent \/ crit = CritMinimize ->
         forall r', In r' rs -> ltb (cost_at d idx r') (cost_at d idx r) = false) /\
      (crit = CritOther ->
         forall r', In r' rs -> ltb (cost_at d idx r) (cost_at d idx r') = false).
  Proof.
    intros d idx crit rs. split.
    - destruct rs as [|r0 rs]; [congruence|]. intros _. cbn. eauto.
    - intros r E. destruct rs as [|r0 rs]; [discriminate|]. cbn [find_optimum] in E.
      injection E as E.
      destruct (first_min_spec (cost_at d idx) rs r0) as [A1 B1].
      destruct (first_max_spec (cost_at d idx) rs r0) as [A2 B2].
      destruct crit; cbn [maximised] in E; subst r; (split; [assumption|]); split;
        try (intros [F|F]; discriminate F); try (intros F; discriminate F); intros _; assumption.
  Qed.

  (* Python returns the FIRST extremal element: everything recorded before it is strictly worse *)
  Lemma first_min_first (key : rec -> T) : forall l best,
    let m := first_min ltb key best l in
    exists pre post, best :: l = pre ++ m :: post /\ forall x, In x pre -> ltb (key m) (key x) = true.
  Proof.
    induction l as [|x l IH]; intros best; cbn [first_min].
    - exists [], []. split; [reflexivity|intros x []].
    - specialize (IH (if ltb (key x) (key best) then x else best)). cbn zeta in IH.
      destruct IH as [pre [post [E P]]]. set (m := first_min ltb key _ l) in *.
      destruct (first_min_spec key l (if ltb (key x) (key best) then x else best)) as [_ B].
      fold m in B.
      destruct (ltb (key x) (key best)) eqn:L.
      + destruct pre as [|p pre]; cbn in E; injection E as E1 E2.
        * exists [best], post. split; [cbn; congruence|]. intros y [<-|[]]. now rewrite <- E1.
        * exists (best :: x :: pre), post. split; [cbn; congruence|].
          intros y [<-|[<-|Hy]].
          -- subst p. assert (Q : ltb (key m) (key x) = true) by (apply P; now left).
             exact (lt_trans _ H _ _ _ Q L).
          -- subst p. apply P. now left.
          -- apply P. now right.
      + destruct pre as [|p pre]; cbn in E; injection E as E1 E2.
        * exists [], (x :: post). split; [cbn; congruence|intros y []].
        * exists (best :: x :: pre), post. split; [cbn; congruence|].
          intros y [<-|[<-|Hy]].
          -- subst p. apply P. now left.
          -- subst p. assert (Q : ltb (key m) (key best) = true) by (apply P; now left).
             (* not x < best and m < best: m < x *)
             destruct (ltb (key m) (key x)) eqn:F; [reflexivity|].
             rewrite (lt_negtrans _ H _ _ _ F L) in Q. discriminate.
          -- apply P. now right.
  Qed.

  Lemma first_max_first (key : rec -> T) : forall l best,
    let m := first_max ltb key best l in
    exists pre post, best :: l = pre ++ m :: post /\ forall x, In x pre -> ltb (key x) (key m) = true.
  Proof.
    induction l as [|x l IH]; intros best; cbn [first_max].
    - exists [], []. split; [reflexivity|intros x []].
    - specialize (IH (if ltb (key best) (key x) then x else best)). cbn zeta in IH.
      destruct IH as [pre [post [E P]]]. set (m := first_max ltb key _ l) in *.
      destruct (ltb (key best) (key x)) eqn:L.
      + destruct pre as [|p pre]; cbn in E; injection E as E1 E2.
        * exists [best], post. split; [cbn; congruence|]. intros y [<-|[]]. now rewrite <- E1.
        * exists (best :: x :: pre), post. split; [cbn; congruence|].
          intros y [<-|[<-|Hy]].
          -- subst p. assert (Q : ltb (key x) (key m) = true) by (apply P; now left).
             exact (lt_trans _ H _ _ _ L Q).
          -- subst p. apply P. now left.
          -- apply P. now right.
      + destruct pre as [|p pre]; cbn in E; injection E as E1 E2.
        * exists [], (x :: post). split; [cbn; congruence|intros y []].
        * exists (best :: x :: pre), post. split; [cbn; congruence|].
          intros y [<-|[<-|Hy]].
          -- subst p. apply P. now left.
          -- subst p. assert (Q : ltb (key best) (key m) = true) by (apply P; now left).
             destruct (ltb (key x) (key m)) eqn:F; [reflexivity|].
             rewrite (lt_negtrans _ H _ _ _ L F) in Q. discriminate.
          -- apply P. now right.
  Qed.

  Theorem find_optimum_first : forall (d : T) (idx : nat) (crit : criteria) (rs : list rec) r,
    find_optimum ltb d idx crit rs = Some r ->
    exists pre post, rs = pre ++ r :: post /\
      forall x, In x pre ->
        if maximised crit then ltb (cost_at d idx x) (cost_at d idx r) = true
        else ltb (cost_at d idx r) (cost_at d idx x) = true.
  Proof.
    intros d idx crit rs r E. destruct rs as [|r0 rs]; [discriminate|]. cbn [find_optimum] in E.
    injection E as E. destruct (maximised crit); subst r.
    - apply first_max_first.
    - apply first_min_first.
  Qed.
End ResFacts.
