(* C15 - general lemmas used by the benchmark proofs (no Interval here): boxes, sums and products over the
   coordinate list, monotonicity of exp. *)
From Coq Require Import Reals List Lia Lra Psatz.
From Artap Require Import Model.Bench.
Import ListNotations.
Local Open Scope R_scope.

(* ---------------------------------------------------------------- clauses *)
Lemma value_exact : forall v o, v = o -> Rabs (v - o) <= tol.
Proof. intros v o E. subst. unfold Rminus. rewrite Rplus_opp_r, Rabs_R0. unfold tol. lra. Qed.

Lemma value_close : forall v o, o - tol <= v <= o + tol -> Rabs (v - o) <= tol.
Proof. intros v o [A B]. apply Rabs_le. lra. Qed.

Lemma nb_min : forall o v, o <= v -> not_better Minimize o v.
Proof. intros o v L. unfold not_better, tol. lra. Qed.

Lemma nb_min_tol : forall o v, o - tol <= v -> not_better Minimize o v.
Proof. intros o v L. exact L. Qed.

Lemma nb_max_tol : forall o v, v <= o + tol -> not_better Maximize o v.
Proof. intros o v L. exact L. Qed.

(* ---------------------------------------------------------------- boxes *)
Lemma in_boxes_length : forall box x, in_boxes box x -> length x = length box.
Proof. intros box x F. unfold in_boxes in F. induction F; simpl; congruence. Qed.

Lemma in_boxes_cube : forall lb ub n x, in_boxes (cube lb ub n) x -> length x = n /\ in_box lb ub x.
Proof.
  unfold in_boxes, cube, in_box. intros lb ub n. induction n as [|n IH]; intros x F; simpl in F.
  - inversion F. subst. split; [reflexivity | constructor].
  - inversion F as [|b c bs cs Hc Ft]. subst. destruct (IH _ Ft) as [L Fa].
    split; [simpl; congruence | constructor; [exact Hc | exact Fa]].
Qed.

Lemma in_boxes_cube_intro : forall lb ub x, in_box lb ub x -> in_boxes (cube lb ub (length x)) x.
Proof.
  unfold in_boxes, cube, in_box. intros lb ub x F. induction F; simpl; constructor; auto.
Qed.

Lemma in_boxes_cube_repeat : forall lb ub v n, lb <= v <= ub -> in_boxes (cube lb ub n) (repeat v n).
Proof.
  intros lb ub v n Hv. unfold in_boxes, cube. induction n; simpl; constructor; auto.
Qed.

Lemma in_boxes_cube_map_seq : forall lb ub (g : nat -> R) n i,
  (forall j, lb <= g j <= ub) -> in_boxes (cube lb ub n) (map g (seq i n)).
Proof.
  intros lb ub g n. unfold in_boxes, cube. induction n; intros i Hg; simpl; constructor; auto.
Qed.

Lemma in_boxes_1 : forall l u x, in_boxes [(l, u)] x -> exists a, x = [a] /\ l <= a <= u.
Proof.
  intros l u x F. unfold in_boxes in F. inversion F as [|b c bs cs Hc Ft]. subst. inversion Ft. subst.
  exists c. split; [reflexivity | exact Hc].
Qed.

Lemma in_boxes_2 : forall l1 u1 l2 u2 x, in_boxes [(l1, u1); (l2, u2)] x ->
  exists a b, x = [a; b] /\ l1 <= a <= u1 /\ l2 <= b <= u2.
Proof.
  intros l1 u1 l2 u2 x F. unfold in_boxes in F. inversion F as [|b c bs cs Hc Ft]. subst.
  inversion Ft as [|b' c' bs' cs' Hc' Ft']. subst. inversion Ft'. subst.
  exists c, c'. split; [reflexivity | split; [exact Hc | exact Hc']].
Qed.

Lemma in_boxes_1_intro : forall l u a, l <= a <= u -> in_boxes [(l, u)] [a].
Proof. intros. unfold in_boxes. constructor; [simpl; tauto | constructor]. Qed.

Lemma in_boxes_2_intro : forall l1 u1 l2 u2 a b, l1 <= a <= u1 -> l2 <= b <= u2 -> in_boxes [(l1, u1); (l2, u2)] [a; b].
Proof. intros. unfold in_boxes. constructor; [simpl; tauto | constructor; [simpl; tauto | constructor]]. Qed.

(* ---------------------------------------------------------------- sums *)
Lemma sum_map_nonneg : forall f x, (forall c, 0 <= f c) -> 0 <= sum_map f x.
Proof. intros f x Hf. induction x; simpl; [lra | specialize (Hf a); lra]. Qed.

Lemma sum_map_lower : forall f m x, Forall (fun c => m <= f c) x -> INR (length x) * m <= sum_map f x.
Proof.
  intros f m x F. induction F as [|c t Hc Ft IH].
  - simpl. lra.
  - change (length (c :: t)) with (S (length t)). rewrite S_INR. simpl. lra.
Qed.

Lemma sum_map_upper : forall f m x, Forall (fun c => f c <= m) x -> sum_map f x <= INR (length x) * m.
Proof.
  intros f m x F. induction F as [|c t Hc Ft IH].
  - simpl. lra.
  - change (length (c :: t)) with (S (length t)). rewrite S_INR. simpl. lra.
Qed.

Lemma sum_map_repeat : forall f v n, sum_map f (repeat v n) = INR n * f v.
Proof.
  intros f v n. induction n as [|n IH].
  - simpl. ring.
  - rewrite S_INR. simpl. rewrite IH. ring.
Qed.

Lemma sum_map_ext : forall f g x, (forall c, f c = g c) -> sum_map f x = sum_map g x.
Proof. intros f g x E. induction x; simpl; [reflexivity | rewrite E, IHx; reflexivity]. Qed.

Lemma sum_idx_nonneg : forall f x i, (forall j c, 0 <= f j c) -> 0 <= sum_idx f i x.
Proof. intros f x. induction x; intros i Hf; simpl; [lra | specialize (IHx (S i) Hf); specialize (Hf i a); lra]. Qed.

Lemma sum_idx_repeat_zero : forall f v n i, (forall j, f j v = 0) -> sum_idx f i (repeat v n) = 0.
Proof. intros f v n. induction n; intros i Hf; simpl; [reflexivity | rewrite Hf, IHn by exact Hf; ring]. Qed.

Lemma sum_idx_map_seq_zero : forall f (g : nat -> R) n i, (forall j, f j (g j) = 0) -> sum_idx f i (map g (seq i n)) = 0.
Proof. intros f g n. induction n; intros i Hf; simpl; [reflexivity | rewrite Hf, IHn by exact Hf; ring]. Qed.

(* ---------------------------------------------------------------- products *)
Lemma prod_idx_abs_le1 : forall f x i, (forall j c, Rabs (f j c) <= 1) -> Rabs (prod_idx f i x) <= 1.
Proof.
  intros f x. induction x; intros i Hf; simpl.
  - rewrite Rabs_R1. lra.
  - rewrite Rabs_mult. specialize (IHx (S i) Hf). specialize (Hf i a).
    pose proof (Rabs_pos (f i a)). pose proof (Rabs_pos (prod_idx f (S i) x)). nra.
Qed.

Lemma prod_idx_repeat_one : forall f v n i, (forall j, f j v = 1) -> prod_idx f i (repeat v n) = 1.
Proof. intros f v n. induction n; intros i Hf; simpl; [reflexivity | rewrite Hf, IHn by exact Hf; ring]. Qed.

Lemma prod_map_01 : forall f x, (forall c, 0 <= f c <= 1) -> 0 <= prod_map f x <= 1.
Proof.
  intros f x Hf. induction x; simpl; [lra | specialize (Hf a); nra].
Qed.

Lemma prod_map_repeat : forall f v n, prod_map f (repeat v n) = f v ^ n.
Proof. intros f v n. induction n; simpl; [reflexivity | rewrite IHn; reflexivity]. Qed.

Lemma prod_map_nonneg : forall f x, Forall (fun c => 0 <= f c) x -> 0 <= prod_map f x.
Proof. intros f x F. induction F; simpl; [lra | nra]. Qed.

(* ---------------------------------------------------------------- misc *)
Lemma exp_le_mono : forall a b, a <= b -> exp a <= exp b.
Proof.
  intros a b [L | E].
  - left. apply exp_increasing. exact L.
  - subst. lra.
Qed.

Lemma exp_le_1 : forall a, a <= 0 -> exp a <= 1.
Proof. intros a L. rewrite <- exp_0. apply exp_le_mono. exact L. Qed.

Lemma exp_pos_le : forall a, 0 <= exp a.
Proof. intros a. left. apply exp_pos. Qed.

Lemma last_repeat : forall (v : R) n, last (repeat v n) v = v.
Proof. intros v n. induction n; simpl; [reflexivity | destruct n; simpl in *; [reflexivity | exact IHn]]. Qed.

Lemma INR_S_pos : forall j, 0 < INR (S j).
Proof. intros j. apply lt_0_INR. lia. Qed.

Lemma inv_S_bounds : forall j, 0 < 1 / INR (S j) <= 1.
Proof.
  intros j. pose proof (INR_S_pos j) as P. assert (1 <= INR (S j)) as Q.
  { rewrite S_INR. pose proof (pos_INR j). lra. }
  split.
  - apply Rdiv_lt_0_compat; lra.
  - apply Rmult_le_reg_r with (INR (S j)); [exact P |]. unfold Rdiv. rewrite Rmult_assoc, Rinv_l by lra. lra.
Qed.

Lemma length_inv_seq : forall n, length (inv_seq n) = n.
Proof. intros n. unfold inv_seq. rewrite map_length, seq_length. reflexivity. Qed.

Lemma last_in_box : forall lb ub x, in_box lb ub x -> lb <= 0 <= ub -> lb <= last x 0 <= ub.
Proof.
  intros lb ub x F Z. unfold in_box in F. induction F as [|c t Hc Ft IH]; simpl; [exact Z |].
  destruct t; [exact Hc | exact IH].
Qed.

(* u v >= m M for u, v in [m, M] with m <= 0 <= M *)
Lemma prod_lower : forall m M u v, m <= 0 <= M -> m <= u <= M -> m <= v <= M -> m * M <= u * v.
Proof.
  intros m M u v Z Hu Hv.
  destruct (Rle_lt_dec 0 u) as [U | U]; destruct (Rle_lt_dec 0 v) as [V | V]; nra.
Qed.
