(* Proofs about Model/Crash.v (C11): at every crash point of every trace that obeys the order of
   job.py / datastore.py (`legal`), the committed table holds one complete, consistent image per id
   and a row for every id whose synchronisation has returned; every interleaving of per-design job
   step lists (serial or parallel evaluation), optionally followed by the final sync_all, is such a trace. *)
From Coq Require Import List ZArith Bool String Lia.
From Artap Require Import Model.Store Model.Crash Proofs.StoreProofs.
Import ListNotations.
Local Open Scope Z_scope.
Local Open Scope list_scope.

Section CrashProofs.
  Variable objective : list jv -> list jv.
  Variable signed : list jv -> list jv -> jv.

  Notation do_step := (Crash.do_step objective signed).
  Notation run_steps := (Crash.run_steps objective signed).
  Notation consistent := (Crash.consistent objective signed).
  Notation good_row := (Crash.good_row objective signed).
  Notation cstate := Crash.cstate.
  Notation step := Crash.step.
  Notation legal := (Crash.legal objective signed).
  Notation step_ok := Crash.step_ok.

  Lemma upd_same {A} (f : Z -> A) k v : Crash.upd f k v k = v.
  Proof. unfold Crash.upd. rewrite Z.eqb_refl. reflexivity. Qed.

  Lemma upd_other {A} (f : Z -> A) k v k' : k' <> k -> Crash.upd f k v k' = f k'.
  Proof. unfold Crash.upd. intros N. destruct (Z.eqb k' k) eqn:E; [apply Z.eqb_eq in E; congruence | reflexivity]. Qed.

  (* what has been established about individual x when its evaluation has progressed to phase p *)
  Definition progress_ok (x : individual) (p : nat) : Prop :=
    match p with
    | 2%nat => i_costs x = objective (i_vector x)
    | 3%nat => i_costs x = objective (i_vector x) /\ i_costs_signed x = signed (i_vector x) (i_costs x)
    | 4%nat => consistent x
    | _ => True
    end.

  Record Inv (st : cstate) : Prop := {
    inv_id : forall i, i_id (Crash.c_mem st i) = i;
    inv_ph : forall i, progress_ok (Crash.c_mem st i) (Crash.c_ph st i);
    inv_old : forall i x, Crash.c_old st i = Some x -> consistent x;
    inv_pend : forall c k r, In (k, r) (Crash.c_pend st c) -> good_row k r;
    inv_db : forall k r, lookup k (Crash.c_db st) = Some r -> good_row k r;
    inv_nodup : NoDup (keys (Crash.c_db st));
    inv_synced : forall i, In i (Crash.c_synced st) -> In i (keys (Crash.c_db st));
    inv_ret : forall i, In i (Crash.c_ret st) -> In i (Crash.c_synced st) }.

  Lemma apply_pending_lookup : forall p db k r,
    lookup k (Crash.apply_pending p db) = Some r -> In (k, r) p \/ lookup k db = Some r.
  Proof.
    unfold Crash.apply_pending. induction p as [|[k0 r0] p IH]; simpl; intros db k r H; [right; exact H|].
    apply IH in H. destruct H as [H|H]; [left; right; exact H|].
    rewrite lookup_upsert in H. destruct (Z.eqb k0 k) eqn:E.
    - apply Z.eqb_eq in E. subst k0. inversion H; subst. left. left. reflexivity.
    - right. exact H.
  Qed.

  Lemma apply_pending_keys : forall p db k,
    In k (keys (Crash.apply_pending p db)) <-> In k (map fst p) \/ In k (keys db).
  Proof.
    unfold Crash.apply_pending. induction p as [|[k0 r0] p IH]; simpl; intros db k; [tauto|].
    rewrite IH, in_keys_upsert. intuition congruence.
  Qed.

  Lemma apply_pending_nodup : forall p db, NoDup (keys db) -> NoDup (keys (Crash.apply_pending p db)).
  Proof.
    unfold Crash.apply_pending. induction p as [|[k0 r0] p IH]; simpl; intros db H; [exact H|].
    apply IH. apply nodup_keys_upsert. exact H.
  Qed.

  Lemma existsb_zeqb_in i l : existsb (Z.eqb i) l = true <-> In i l.
  Proof.
    rewrite existsb_exists. split.
    - intros [x [Hin E]]. apply Z.eqb_eq in E. subst. exact Hin.
    - intros H. exists i. split; [exact H | apply Z.eqb_refl].
  Qed.

  Ltac upd_cases i0 i :=
    destruct (Z.eq_dec i0 i) as [->|Hne]; [rewrite !upd_same | rewrite !(upd_other _ _ _ _ Hne)].

  (* every step that respects the order preserves the invariant *)
  Lemma inv_step : forall st x, Inv st -> step_ok st x = true -> Inv (do_step st x).
  Proof.
    intros st x [Hid Hph Hold Hpend Hdb Hnd Hsy Hret] Hok.
    destruct x as [i|i|i|i|i v|j i|c i|c|i| |i v|c i]; simpl in Hok;
      [| | | | | | | | | | |destruct (Crash.c_old st i) as [xo|] eqn:Eo; [|discriminate]];
      constructor; simpl; try rewrite Eo; simpl; try assumption.
    - (* SStart *) intros i0. upd_cases i0 i; [apply Hid | apply Hid].
    - intros i0. upd_cases i0 i; [exact I | apply Hph].
    - (* SCosts *) intros i0. upd_cases i0 i; [apply Hid | apply Hid].
    - intros i0. upd_cases i0 i; [reflexivity | apply Hph].
    - (* SSigned *) intros i0. upd_cases i0 i; [apply Hid | apply Hid].
    - intros i0. upd_cases i0 i; [|apply Hph].
      apply Nat.eqb_eq in Hok. pose proof (Hph i) as P. rewrite Hok in P. simpl in *. split; [exact P | reflexivity].
    - (* SDone *) intros i0. upd_cases i0 i; [apply Hid | apply Hid].
    - intros i0. upd_cases i0 i; [|apply Hph].
      apply Nat.eqb_eq in Hok. pose proof (Hph i) as P. rewrite Hok in P. simpl in *.
      destruct P as [P1 P2]. repeat split; [exact P1 | exact P2 | left; reflexivity].
    - (* SFail *) intros i0. upd_cases i0 i; [apply Hid | apply Hid].
    - intros i0. upd_cases i0 i; [exact I | apply Hph].
    - (* SCopy *) intros i0. upd_cases i0 j; [reflexivity | apply Hid].
    - intros i0. upd_cases i0 j; [|apply Hph].
      apply andb_true_iff in Hok. destruct Hok as [Hok _]. apply Nat.eqb_eq in Hok.
      pose proof (Hph i) as P. rewrite Hok in P. simpl in *. destruct P as [P1 [P2 _]].
      repeat split; [exact P1 | exact P2 | right; left; reflexivity].
    - (* SExec *) intros c0 k r. upd_cases c0 c; [|apply Hpend].
      intros Hin. apply in_app_or in Hin. destruct Hin as [Hin|[Hin|[]]]; [eapply Hpend; exact Hin|].
      inversion Hin; subst. apply Nat.eqb_eq in Hok. pose proof (Hph k) as P. rewrite Hok in P.
      exists (Crash.c_mem st k). split; [reflexivity|]. split; [apply Hid | exact P].
    - (* SCommit *) intros c0 k r. upd_cases c0 c; [intros [] | apply Hpend].
    - intros k r H. apply apply_pending_lookup in H. destruct H as [H|H]; [eapply Hpend; exact H | apply Hdb; exact H].
    - apply apply_pending_nodup. exact Hnd.
    - intros i Hin. apply apply_pending_keys. apply in_app_or in Hin. destruct Hin as [Hin|Hin]; [left; exact Hin | right; apply Hsy; exact Hin].
    - intros i Hin. apply in_or_app. right. apply Hret. exact Hin.
    - (* SReturn *) intros i0 [<-|Hin]; [apply existsb_zeqb_in; exact Hok | apply Hret; exact Hin].
    - (* SReopen *) intros i. exact I.
    - intros i x E. destruct (lookup i (Crash.c_db st)) as [r|] eqn:El; [|discriminate]. simpl in E. inversion E; subst x.
      destruct (Hdb i r El) as [x [-> [Hx [Hc [Hs _]]]]]. unfold loaded_of_row. rewrite from_to_dict. simpl.
      repeat split; [exact Hc | exact Hs | right; right; reflexivity].
    - intros c k r [].
    - (* SNew *) intros i0. upd_cases i0 i; [reflexivity | apply Hid].
    - intros i0. upd_cases i0 i; [exact I | apply Hph].
    - (* SExecOld *) intros c0 k r. upd_cases c0 c; [|apply Hpend].
      intros Hin. apply in_app_or in Hin. destruct Hin as [Hin|[Hin|[]]]; [eapply Hpend; exact Hin|].
      inversion Hin; subst. exists xo. split; [reflexivity|]. split; [reflexivity | apply (Hold i); exact Eo].
  Qed.

  Lemma legal_app : forall p s st, legal st (p ++ s) = legal st p && legal (run_steps p st) s.
  Proof.
    induction p as [|x p IH]; intros s st; simpl; [reflexivity|].
    rewrite IH, andb_assoc. reflexivity.
  Qed.

  Lemma legal_inv : forall tr st, Inv st -> legal st tr = true -> Inv (run_steps tr st).
  Proof.
    induction tr as [|x tr IH]; intros st HI HL; simpl in *; [exact HI|].
    apply andb_true_iff in HL. destruct HL as [H1 H2]. apply IH; [apply inv_step; assumption | exact H2].
  Qed.

  Lemma inv_init : forall designs db0, NoDup (keys db0) ->
    (forall k r, lookup k db0 = Some r -> good_row k r) -> Inv (Crash.init_state designs db0).
  Proof.
    intros designs db0 Hnd Hdb. constructor; simpl; try tauto; try assumption; try (intros; reflexivity); try (intros; exact I); intros; discriminate.
  Qed.

  (* ids whose synchronisation has returned = the SReturn events of the trace *)
  Lemma c_ret_step : forall st x,
    Crash.c_ret (do_step st x) = match x with Crash.SReturn i => i :: Crash.c_ret st | _ => Crash.c_ret st end.
  Proof. intros st x. destruct x; simpl; try reflexivity. destruct (Crash.c_old st i); reflexivity. Qed.

  Lemma ret_trace : forall tr st i,
    In i (Crash.c_ret (run_steps tr st)) <-> In (Crash.SReturn i) tr \/ In i (Crash.c_ret st).
  Proof.
    induction tr as [|x tr IH]; intros st i; simpl; [tauto|].
    rewrite IH, c_ret_step. destruct x; simpl; try (split; [intros [H|H]; auto | intros [[H|H]|H]; auto; discriminate]).
    split.
    - intros [H|[H|H]]; auto. subst. left. left. reflexivity.
    - intros [[H|H]|H]; auto. inversion H. right. left. reflexivity.
  Qed.

  (* a complete image is readable by the view, and the costs it shows are the objective's value for the vector it shows *)
  Lemma good_row_readable : forall k r, good_row k r ->
    exists x, from_dict r = Some (view_of x) /\ v_id (view_of x) = JNum (NInt k) /\
              v_vector (view_of x) = JArr (i_vector x) /\ v_costs (view_of x) = JArr (objective (i_vector x)) /\
              v_costs_signed (view_of x) = signed (i_vector x) (objective (i_vector x)) /\
              (v_state (view_of x) = JStr "evaluated" \/ v_state (view_of x) = JStr "empty" \/ v_state (view_of x) = JNull).
  Proof.
    intros k r [x [-> [Hk [Hc [Hs Hst]]]]]. exists x. rewrite from_to_dict. split; [reflexivity|].
    simpl. rewrite Hk, Hs, Hc. repeat split. destruct Hst as [-> | [-> | ->]]; [left | right; left | right; right]; reflexivity.
  Qed.

  (* ---------------------------------------------------------------------------------------- *)
  (* the crash theorem for traces that obey the order                                          *)
  (* ---------------------------------------------------------------------------------------- *)
  Theorem crash_legal_consistent : forall designs db0 tr pre,
    NoDup (keys db0) -> (forall k r, lookup k db0 = Some r -> good_row k r) ->
    legal (Crash.init_state designs db0) tr = true -> Crash.prefix pre tr ->
    let st := run_steps pre (Crash.init_state designs db0) in
    NoDup (keys (Crash.recovered st)) /\
    (forall i, In (Crash.SReturn i) pre -> In i (keys (Crash.recovered st))) /\
    (forall k r, lookup k (Crash.recovered st) = Some r -> good_row k r) /\
    (forall c k r, In (k, r) (Crash.c_pend st c) -> good_row k r).
  Proof.
    intros designs db0 tr pre Hnd Hdb HL [s ->]. cbv zeta.
    rewrite legal_app in HL. apply andb_true_iff in HL. destruct HL as [HL _].
    pose proof (legal_inv pre _ (inv_init designs db0 Hnd Hdb) HL) as [Hid Hph Hold Hpend Hdb' Hnd' Hsy Hret].
    unfold Crash.recovered. split; [exact Hnd'|]. split; [|split; [exact Hdb' | exact Hpend]].
    intros i Hin. apply Hsy, Hret. apply ret_trace. left. exact Hin.
  Qed.

  (* ---------------------------------------------------------------------------------------- *)
  (* every interleaving of job step lists obeys the order                                      *)
  (* ---------------------------------------------------------------------------------------- *)
  (* where job i (with its failed attempts) stands when t is what remains of it *)
  Definition at_pos (st : cstate) (i : Z) (t : list step) : Prop :=
    (exists vs, t = Crash.job_retry i vs /\ Crash.c_ph st i = 0%nat) \/
    (exists v vs, t = Crash.SFail i v :: Crash.job_retry i vs /\ Crash.c_ph st i = 1%nat) \/
    (t = skipn 1 (Crash.job i) /\ Crash.c_ph st i = 1%nat) \/
    (t = skipn 2 (Crash.job i) /\ Crash.c_ph st i = 2%nat) \/
    (t = skipn 3 (Crash.job i) /\ Crash.c_ph st i = 3%nat) \/
    (t = skipn 4 (Crash.job i) /\ Crash.c_ph st i = 4%nat) \/
    (t = skipn 5 (Crash.job i) /\ Crash.c_ph st i = 4%nat /\ In i (map fst (Crash.c_pend st i))) \/
    (t = skipn 6 (Crash.job i) /\ Crash.c_ph st i = 4%nat /\ In i (Crash.c_synced st)) \/
    (t = [] /\ Crash.c_ph st i = 4%nat /\ In i (Crash.c_synced st)).

  (* a step of job i (one that touches only individual i and connection i) leaves the position of job j alone *)
  Definition own (i : Z) (x : step) : Prop :=
    x = Crash.SStart i \/ x = Crash.SCosts i \/ x = Crash.SSigned i \/ x = Crash.SDone i \/
    x = Crash.SExec i i \/ x = Crash.SCommit i \/ x = Crash.SReturn i \/ exists v, x = Crash.SFail i v.

  Lemma at_pos_other : forall st i x j t, own i x -> j <> i -> at_pos st j t -> at_pos (do_step st x) j t.
  Proof.
    intros st i x j t Hown Hne H.
    assert (Hph : Crash.c_ph (do_step st x) j = Crash.c_ph st j).
    { destruct Hown as [->|[->|[->|[->|[->|[->|[->|[v ->]]]]]]]]; simpl; try reflexivity; apply upd_other; exact Hne. }
    assert (Hpe : Crash.c_pend (do_step st x) j = Crash.c_pend st j).
    { destruct Hown as [->|[->|[->|[->|[->|[->|[->|[v ->]]]]]]]]; simpl; try reflexivity; apply upd_other; exact Hne. }
    assert (Hsy : forall k, In k (Crash.c_synced st) -> In k (Crash.c_synced (do_step st x))).
    { intros k Hk. destruct Hown as [->|[->|[->|[->|[->|[->|[->|[v ->]]]]]]]]; simpl; try exact Hk. apply in_or_app. right. exact Hk. }
    unfold at_pos in *. rewrite Hph, Hpe.
    destruct H as [H|[H|[H|[H|[H|[H|[H|[H|H]]]]]]]]; [tauto | tauto | tauto | tauto | tauto | tauto | tauto | |].
    - destruct H as [H1 [H2 H3]]. right; right; right; right; right; right; right; left. auto.
    - destruct H as [H1 [H2 H3]]. right; right; right; right; right; right; right; right. auto.
  Qed.

  (* the next step of job i is allowed where job i stands, it is one of i's own steps, and it moves the position on *)
  Lemma at_pos_next : forall st i x t, at_pos st i (x :: t) ->
    step_ok st x = true /\ own i x /\ at_pos (do_step st x) i t.
  Proof.
    intros st i x t H. unfold at_pos in H. unfold Crash.job in H. simpl in H.
    destruct H as [[vs [H P]]|[[v [vs [H P]]]|[[H P]|[[H P]|[[H P]|[[H P]|[[H [P Q]]|[[H [P Q]]|[H _]]]]]]]]]; try discriminate.
    - (* the objective is entered: for an attempt that will fail, or for the one that succeeds *)
      destruct vs as [|v vs]; unfold Crash.job_retry, Crash.job in H; simpl in H; inversion H; subst; clear H.
      + split; [simpl; rewrite P; reflexivity|]. split; [left; reflexivity|].
        right; right; left. split; [reflexivity|]. simpl. apply upd_same.
      + split; [simpl; rewrite P; reflexivity|]. split; [left; reflexivity|].
        right; left. exists v, vs. split; [reflexivity|]. simpl. apply upd_same.
    - (* the attempt fails: new vector, state EMPTY, back to the top of the loop; no store statement *)
      inversion H; subst; clear H.
      split; [simpl; rewrite P; reflexivity|]. split; [right; right; right; right; right; right; right; exists v; reflexivity|].
      left. exists vs. split; [reflexivity|]. simpl. apply upd_same.
    - inversion H; subst; clear H.
      split; [simpl; rewrite P; reflexivity|]. split; [right; left; reflexivity|].
      right; right; right; left. split; [reflexivity|]. simpl. apply upd_same.
    - inversion H; subst; clear H.
      split; [simpl; rewrite P; reflexivity|]. split; [right; right; left; reflexivity|].
      right; right; right; right; left. split; [reflexivity|]. simpl. apply upd_same.
    - inversion H; subst; clear H.
      split; [simpl; rewrite P; reflexivity|]. split; [right; right; right; left; reflexivity|].
      right; right; right; right; right; left. split; [reflexivity|]. simpl. apply upd_same.
    - inversion H; subst; clear H.
      split; [simpl; rewrite P; reflexivity|]. split; [right; right; right; right; left; reflexivity|].
      right; right; right; right; right; right; left. split; [reflexivity|]. simpl. split; [exact P|].
      rewrite upd_same, map_app. apply in_or_app. right. left. reflexivity.
    - inversion H; subst; clear H.
      split; [reflexivity|]. split; [right; right; right; right; right; left; reflexivity|].
      right; right; right; right; right; right; right; left. split; [reflexivity|]. simpl. split; [exact P|].
      apply in_or_app. left. exact Q.
    - inversion H; subst; clear H.
      split; [simpl; apply existsb_zeqb_in; exact Q|]. split; [right; right; right; right; right; right; left; reflexivity|].
      right; right; right; right; right; right; right; right. split; [reflexivity|]. simpl. split; [exact P | exact Q].
  Qed.

  Definition tasks_ok (st : cstate) (its : list (Z * list step)) : Prop :=
    NoDup (map fst its) /\ Forall (fun it => at_pos st (fst it) (snd it)) its.

  Lemma merge_tasks_legal : forall tr its st,
    tasks_ok st its -> Crash.merge (map snd its) tr ->
    legal st tr = true /\ tasks_ok (run_steps tr st) (map (fun it => (fst it, @nil step)) its).
  Proof.
    induction tr as [|x tr IH]; intros its st [Hnd HF] HM.
    - simpl. split; [reflexivity|]. split; [rewrite map_map; simpl; exact Hnd|].
      inversion HM as [ts Hall E|]; subst. apply Forall_forall. intros [i t] Hin.
      apply in_map_iff in Hin. destruct Hin as [[i' t'] [E Hin]]. inversion E; subst. simpl.
      rewrite Forall_forall in HF. pose proof (HF _ Hin) as P. simpl in P.
      assert (t' = []) by (apply Hall; apply in_map_iff; exists (i, t'); split; [reflexivity | exact Hin]). subst t'.
      exact P.
    - inversion HM as [|ts1 x' t ts2 tr' HM' E1 E2]; subst.
      symmetry in E1. apply map_eq_app in E1. destruct E1 as [its1 [its2' [-> [E1 E2]]]].
      apply map_eq_cons in E2. destruct E2 as [[i t0] [its2 [-> [E2 E3]]]]. simpl in E2. subst t0 ts1 ts2.
      rewrite Forall_forall in HF.
      assert (Hi : at_pos st i (x :: t)) by (apply (HF (i, x :: t)); apply in_or_app; right; left; reflexivity).
      destruct (at_pos_next st i x t Hi) as [Hok [Hown Hnext]].
      assert (Hnd' : NoDup (map fst (its1 ++ (i, t) :: its2))).
      { rewrite map_app in *. simpl in *. exact Hnd. }
      assert (HT : tasks_ok (do_step st x) (its1 ++ (i, t) :: its2)).
      { split; [exact Hnd'|]. apply Forall_forall. intros [j tj] Hin. simpl.
        apply in_app_or in Hin. destruct Hin as [Hin|[Hin|Hin]].
        - apply at_pos_other with (i := i); [exact Hown| |apply (HF (j, tj)); apply in_or_app; left; exact Hin].
          intros ->. rewrite map_app in Hnd. simpl in Hnd. apply NoDup_remove_2 in Hnd. apply Hnd.
          apply in_or_app. left. apply in_map_iff. exists (i, tj). split; [reflexivity | exact Hin].
        - inversion Hin; subst. exact Hnext.
        - apply at_pos_other with (i := i); [exact Hown| |apply (HF (j, tj)); apply in_or_app; right; right; exact Hin].
          intros ->. rewrite map_app in Hnd. simpl in Hnd. apply NoDup_remove_2 in Hnd. apply Hnd.
          apply in_or_app. right. apply in_map_iff. exists (i, tj). split; [reflexivity | exact Hin]. }
      assert (HM2 : Crash.merge (map snd (its1 ++ (i, t) :: its2)) tr) by (rewrite map_app; simpl; exact HM').
      destruct (IH _ _ HT HM2) as [HL HT'].
      split; [simpl; rewrite Hok; exact HL|].
      simpl. rewrite !map_app in *. simpl in *. exact HT'.
  Qed.

  (* a design together with the replacement vectors of its failed attempts *)
  Definition jr (iv : Z * list (list jv)) : list step := Crash.job_retry (fst iv) (snd iv).

  Lemma jobs_retry_initial : forall designs db0 (jobs : list (Z * list (list jv))), NoDup (map fst jobs) ->
    tasks_ok (Crash.init_state designs db0) (map (fun iv => (fst iv, jr iv)) jobs).
  Proof.
    intros designs db0 jobs Hnd. split.
    - rewrite map_map. simpl. exact Hnd.
    - apply Forall_forall. intros [i t] Hin. apply in_map_iff in Hin. destruct Hin as [[i' vs] [E _]]. inversion E; subst.
      left. exists vs. split; reflexivity.
  Qed.

  (* every interleaving of jobs WITH failed attempts obeys the order: in particular nothing is executed or
     committed for a design between a failed attempt and the attempt that succeeds *)
  Theorem jobs_retry_merge_legal : forall designs db0 (jobs : list (Z * list (list jv))) tr, NoDup (map fst jobs) ->
    Crash.merge (map jr jobs) tr -> legal (Crash.init_state designs db0) tr = true.
  Proof.
    intros designs db0 jobs tr Hnd HM.
    apply (merge_tasks_legal tr (map (fun iv => (fst iv, jr iv)) jobs)); [apply jobs_retry_initial; exact Hnd|].
    rewrite map_map. simpl. exact HM.
  Qed.

  Lemma jobs_as_retry : forall ids, map Crash.job ids = map jr (map (fun i => (i, @nil (list jv))) ids).
  Proof. intros ids. rewrite map_map. apply map_ext. intros i. reflexivity. Qed.

  Lemma ids_as_retry : forall ids : list Z, map fst (map (fun i => (i, @nil (list jv))) ids) = ids.
  Proof. intros ids. rewrite map_map. simpl. apply map_id. Qed.

  Theorem jobs_merge_legal : forall designs db0 ids tr, NoDup ids ->
    Crash.merge (map Crash.job ids) tr -> legal (Crash.init_state designs db0) tr = true.
  Proof.
    intros designs db0 ids tr Hnd HM. rewrite jobs_as_retry in HM.
    apply jobs_retry_merge_legal with (jobs := map (fun i => (i, @nil (list jv))) ids); [rewrite ids_as_retry; exact Hnd | exact HM].
  Qed.

  (* ... and so does the final sync_all over (some of) the evaluated designs that follows them *)
  Lemma legal_execs : forall c ids st, (forall i, In i ids -> Crash.c_ph st i = 4%nat) ->
    legal st (map (Crash.SExec c) ids) = true /\
    let st' := run_steps (map (Crash.SExec c) ids) st in
    Crash.c_ph st' = Crash.c_ph st /\ Crash.c_synced st' = Crash.c_synced st /\
    (forall i, In i ids -> In i (map fst (Crash.c_pend st' c))).
  Proof.
    intros c. induction ids as [|i ids IH]; intros st H; simpl.
    - split; [reflexivity|]. split; [reflexivity|]. split; [reflexivity | intros i []].
    - rewrite (H i (or_introl eq_refl)). simpl.
      destruct (IH (do_step st (Crash.SExec c i))) as [HL [E1 [E2 E3]]]; [intros k Hk; simpl; apply H; right; exact Hk|].
      split; [exact HL|]. cbv zeta in *. split; [exact E1|]. split; [exact E2|].
      intros k [<-|Hk]; [|apply E3; exact Hk].
      clear - c. (* the statement for i stays pending on c while further statements are appended *)
      assert (G : forall l (s : cstate), In i (map fst (Crash.c_pend s c)) ->
                  In i (map fst (Crash.c_pend (run_steps (map (Crash.SExec c) l) s) c))).
      { induction l as [|k l IHl]; intros s Hs; simpl; [exact Hs|]. apply IHl. simpl. rewrite upd_same, map_app.
        apply in_or_app. left. exact Hs. }
      apply G. simpl. rewrite upd_same, map_app. apply in_or_app. right. left. reflexivity.
  Qed.

  Lemma legal_returns : forall ids st, (forall i, In i ids -> In i (Crash.c_synced st)) ->
    legal st (map Crash.SReturn ids) = true.
  Proof.
    induction ids as [|i ids IH]; intros st H; simpl; [reflexivity|].
    apply andb_true_iff. split; [apply existsb_zeqb_in; apply H; left; reflexivity|].
    apply IH. intros k Hk. simpl. apply H. right. exact Hk.
  Qed.

  Theorem run_retry_with_final_sync_all_legal : forall designs db0 (jobs : list (Z * list (list jv))) tr c final,
    NoDup (map fst jobs) -> Crash.merge (map jr jobs) tr -> incl final (map fst jobs) ->
    legal (Crash.init_state designs db0) (tr ++ Crash.sync_all_steps c final) = true.
  Proof.
    intros designs db0 jobs tr c final Hnd HM Hincl.
    destruct (merge_tasks_legal tr (map (fun iv => (fst iv, jr iv)) jobs) (Crash.init_state designs db0)) as [HL [_ HF]];
      [apply jobs_retry_initial; exact Hnd | rewrite map_map; simpl; exact HM|].
    rewrite legal_app, HL. simpl. set (st := run_steps tr (Crash.init_state designs db0)) in *.
    assert (Hph : forall i, In i final -> Crash.c_ph st i = 4%nat).
    { intros i Hi. rewrite Forall_forall in HF. specialize (HF (i, [])). simpl in HF.
      assert (Hin : In (i, @nil step) (map (fun it : Z * list step => (fst it, [])) (map (fun iv => (fst iv, jr iv)) jobs))).
      { rewrite map_map. simpl. apply Hincl in Hi. apply in_map_iff in Hi. destruct Hi as [iv [E Hi]].
        apply in_map_iff. exists iv. split; [rewrite E; reflexivity | exact Hi]. }
      specialize (HF Hin). unfold at_pos, Crash.job in HF. simpl in HF.
      destruct HF as [[vs [H _]]|[[v [vs [H _]]]|[[H _]|[[H _]|[[H _]|[[H _]|[[H _]|[[H _]|[_ [H _]]]]]]]]]]; try discriminate; [|exact H].
      destruct vs; discriminate. }
    unfold Crash.sync_all_steps. rewrite legal_app.
    destruct (legal_execs c final st Hph) as [HL1 [E1 [E2 E3]]]. rewrite HL1. simpl.
    apply legal_returns. intros i Hi. simpl. apply in_or_app. left. apply E3. exact Hi.
  Qed.

  Theorem run_with_final_sync_all_legal : forall designs db0 ids tr c final, NoDup ids ->
    Crash.merge (map Crash.job ids) tr -> incl final ids ->
    legal (Crash.init_state designs db0) (tr ++ Crash.sync_all_steps c final) = true.
  Proof.
    intros designs db0 ids tr c final Hnd HM Hincl. rewrite jobs_as_retry in HM.
    apply run_retry_with_final_sync_all_legal with (jobs := map (fun i => (i, @nil (list jv))) ids);
      [rewrite ids_as_retry; exact Hnd | exact HM | rewrite ids_as_retry; exact Hincl].
  Qed.

  (* the statement planned in DESIGN appendix A.6, for serial and parallel evaluation, with any number of failed
     attempts per design: the process may die anywhere, also between a failed attempt and its retry *)
  Theorem crash_prefix_consistent_retry : forall designs (jobs : list (Z * list (list jv))) tr c final pre,
    NoDup (map fst jobs) -> Crash.merge (map jr jobs) tr -> incl final (map fst jobs) ->
    Crash.prefix pre (tr ++ Crash.sync_all_steps c final) ->
    let db := Crash.recovered (run_steps pre (Crash.init_state designs [])) in
    NoDup (keys db) /\
    (forall i, In (Crash.SReturn i) pre -> In i (keys db)) /\
    (forall k r, lookup k db = Some r -> good_row k r).
  Proof.
    intros designs jobs tr c final pre Hnd HM Hincl Hpre.
    assert (Hdb : forall k r, lookup k (@nil (Z * jv)) = Some r -> good_row k r) by (intros k r H; discriminate).
    assert (HL : legal (Crash.init_state designs []) (tr ++ Crash.sync_all_steps c final) = true)
      by (apply run_retry_with_final_sync_all_legal with (jobs := jobs); assumption).
    destruct (crash_legal_consistent designs [] _ pre (NoDup_nil _) Hdb HL Hpre) as [H1 [H2 [H3 _]]].
    cbv zeta. auto.
  Qed.

  Theorem crash_prefix_consistent : forall designs ids tr c final pre, NoDup ids ->
    Crash.merge (map Crash.job ids) tr -> incl final ids ->
    Crash.prefix pre (tr ++ Crash.sync_all_steps c final) ->
    let db := Crash.recovered (run_steps pre (Crash.init_state designs [])) in
    NoDup (keys db) /\
    (forall i, In (Crash.SReturn i) pre -> In i (keys db)) /\
    (forall k r, lookup k db = Some r -> good_row k r).
  Proof.
    intros designs ids tr c final pre Hnd HM Hincl Hpre. rewrite jobs_as_retry in HM.
    apply crash_prefix_consistent_retry with (jobs := map (fun i => (i, @nil (list jv))) ids) (tr := tr) (c := c) (final := final);
      [rewrite ids_as_retry; exact Hnd | exact HM | rewrite ids_as_retry; exact Hincl | exact Hpre].
  Qed.

  (* why the order matters: a store statement between a failed attempt and its retry (which `legal` forbids) puts an
     image with the replacement vector and the costs of nothing into the table *)
  Lemma write_after_failed_attempt_illegal : forall st c i v tr,
    legal st (Crash.SStart i :: Crash.SFail i v :: Crash.SExec c i :: tr) = false.
  Proof.
    intros st c i v tr. simpl. destruct (Nat.eqb (Crash.c_ph st i) 0 || Nat.eqb (Crash.c_ph st i) 4); [|reflexivity].
    simpl. rewrite !upd_same. simpl. reflexivity.
  Qed.
End CrashProofs.

(* the meta tables are written before the constructor returns and no step touches them *)
Lemma meta_survives : forall t st, read_meta (with_individuals t st) = read_meta t.
Proof. reflexivity. Qed.
