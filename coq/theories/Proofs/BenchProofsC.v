(* C15 - proofs, group C (Interval's verified branch-and-bound, then induction / case analysis by hand):
   Schwefel (per-coordinate bound + induction, every n), Michalewicz (ten per-term bounds; n = 2, 5, 10),
   GramacyLee, XinSheYang2 (last coordinate), Schubert (1-D bounds of its factor), SixHump (2-D). *)
From Coq Require Import Reals List Lia Lra Psatz.
From Interval Require Import Tactic.
From Artap Require Import Model.Bench Proofs.BenchLemmas.
Import ListNotations.
Local Open Scope R_scope.

Ltac boxes_inv := repeat match goal with
  | H : Forall2 _ (_ :: _) _ |- _ => inversion H; clear H; subst
  | H : Forall2 _ [] _ |- _ => inversion H; clear H; subst
  end.

(* ---------------------------------------------------------------- Schwefel *)
Lemma schwefel_well_defined : forall c : R, 0 <= Rabs c.
Proof. exact Rabs_pos. Qed.

Lemma schwefel_term_lower : forall c, -500 <= c <= 500 -> 0 <= schwefel_term c.
Proof.
  intros c H. unfold schwefel_term, schwefel_alpha.
  interval with (i_bisect c, i_autodiff c, i_depth 70, i_prec 100).
Qed.

Lemma schwefel_term_opt : 0 <= schwefel_term (4209687 / 10000) <= 3 / 10000000000.
Proof. unfold schwefel_term, schwefel_alpha. split; interval with (i_prec 100). Qed.

(* for EVERY dimension: with the full-precision alpha the coded formula is non-negative on the box *)
Lemma schwefel_lower : forall x, in_box (-500) 500 x -> 0 <= schwefel x.
Proof.
  intros x F. unfold schwefel.
  assert (INR (length x) * 0 <= sum_map schwefel_term x) as L.
  { apply sum_map_lower. unfold in_box in F.
    eapply Forall_impl; [| exact F]. intros c Hc. apply schwefel_term_lower. exact Hc. }
  lra.
Qed.

Lemma schwefel_opt_value : opt_value_stmt schwefel_b.
Proof.
  intros n [Hn Hm]. simpl. split; [apply in_boxes_cube_repeat; lra |].
  unfold schwefel. rewrite sum_map_repeat. pose proof schwefel_term_opt as [A B].
  assert (0 <= INR n) by apply pos_INR. apply value_close. unfold tol. nra.
Qed.

Lemma schwefel_opt_bound : opt_bound_stmt schwefel_b.
Proof.
  intros n x [Hn Hm] Hx. simpl in *. apply in_boxes_cube in Hx. destruct Hx as [L F].
  apply nb_min, schwefel_lower. exact F.
Qed.

(* ---------------------------------------------------------------- GramacyLee *)
Lemma gramacylee_well_defined : forall a, 1 / 2 <= a <= 5 / 2 -> 2 * a <> 0.
Proof. intros a H. lra. Qed.

Lemma gramacy1_lower : forall a, 1 / 2 <= a <= 5 / 2 ->
  - (869011134989500 / 1000000000000000) - 1 / 1000 <= gramacy1 a.
Proof. intros a H. unfold gramacy1. interval with (i_bisect a, i_autodiff a, i_depth 40). Qed.

Lemma gramacylee_opt_value : opt_value_stmt gramacylee_b.
Proof.
  intros n Hn. simpl. split; [apply in_boxes_1_intro; lra |].
  unfold gramacy1, tol. interval.
Qed.

Lemma gramacylee_opt_bound : opt_bound_stmt gramacylee_b.
Proof.
  intros n x Hn Hx. simpl in *. apply in_boxes_1 in Hx. destruct Hx as [a [E Ha]]. subst x.
  apply nb_min_tol. unfold tol. simpl. apply gramacy1_lower. exact Ha.
Qed.

(* ---------------------------------------------------------------- XinSheYang2 *)
Lemma xsy2_1_lower : forall c, -20 <= c <= 20 -> -1 - 1 / 1000 <= xsy2_1 c.
Proof. intros c H. unfold xsy2_1. interval with (i_bisect c, i_autodiff c, i_depth 40). Qed.

Lemma xsy2_1_zero : xsy2_1 0 = -1.
Proof.
  unfold xsy2_1. replace (-1 * (0 / 15) ^ 10) with 0 by field. replace (-1 * 0 ^ 2) with 0 by ring.
  rewrite exp_0, cos_0. ring.
Qed.

Lemma xsy2_opt_exact : forall n, xsy2 (repeat 0 n) = -1.
Proof. intros n. unfold xsy2. rewrite last_repeat. exact xsy2_1_zero. Qed.

Lemma xsy2_opt_value : opt_value_stmt xsy2_b.
Proof. intros n Hn. simpl. split; [apply in_boxes_cube_repeat; lra | apply value_exact, xsy2_opt_exact]. Qed.

Lemma xsy2_opt_bound : opt_bound_stmt xsy2_b.
Proof.
  intros n x Hn Hx. simpl in *. apply in_boxes_cube in Hx. destruct Hx as [_ F].
  apply nb_min_tol. unfold tol, xsy2. apply xsy2_1_lower. apply last_in_box; [exact F | lra].
Qed.

(* ---------------------------------------------------------------- Schubert *)
Lemma schubert_g_bounds : forall t, -10 <= t <= 10 -> - (1287090 / 100000) <= schubert_g t <= 1450803 / 100000.
Proof.
  intros t H. unfold schubert_g. split; interval with (i_bisect t, i_autodiff t, i_depth 40).
Qed.

Lemma schubert_opt_value : opt_value_stmt schubert_b.
Proof.
  intros n Hn. simpl. exists [- (7083506 / 1000000); 4858057 / 1000000].
  split; [apply in_boxes_2_intro; lra |]. simpl. unfold schubert_g, tol. interval.
Qed.

Lemma schubert_opt_bound : opt_bound_stmt schubert_b.
Proof.
  intros n x Hn Hx. simpl in *. apply in_boxes_2 in Hx. destruct Hx as [a [b [E [Ha Hb]]]]. subst x.
  apply nb_min_tol. unfold tol. simpl.
  pose proof (prod_lower (- (1287090 / 100000)) (1450803 / 100000) (schubert_g a) (schubert_g b)
                ltac:(lra) (schubert_g_bounds a Ha) (schubert_g_bounds b Hb)).
  lra.
Qed.

(* ---------------------------------------------------------------- SixHump *)
Lemma sixhump2_lower : forall a b, -3 <= a <= 3 -> -2 <= b <= 2 -> - (10316 / 10000) - 1 / 1000 <= sixhump2 a b.
Proof. intros a b Ha Hb. unfold sixhump2. interval with (i_bisect a, i_bisect b, i_depth 40). Qed.

Lemma sixhump_opt_value : opt_value_stmt sixhump_b.
Proof.
  intros n Hn. simpl. split; [apply in_boxes_2_intro; lra |]. unfold sixhump2, tol. interval.
Qed.

Lemma sixhump_opt_bound : opt_bound_stmt sixhump_b.
Proof.
  intros n x Hn Hx. simpl in *. apply in_boxes_2 in Hx. destruct Hx as [a [b [E [Ha Hb]]]]. subst x.
  apply nb_min_tol. unfold tol. simpl. apply sixhump2_lower; assumption.
Qed.

(* ---------------------------------------------------------------- Michalewicz (m = 10) *)
Lemma michalewicz_well_defined : PI <> 0.
Proof. pose proof PI_RGT_0. lra. Qed.

Ltac mk_term := intros c H; unfold micha_term; simpl INR; interval with (i_bisect c, i_autodiff c, i_depth 40).

(* the maxima over [0, pi] of the ten terms sin(c) sin(k c^2 / pi)^20, rounded up in the 5th decimal *)
Lemma micha_terms : forall c, 0 <= c <= PI ->
  micha_term (INR 1) c <= 80135 / 100000 /\ micha_term (INR 2) c <= 100005 / 100000 /\
  micha_term (INR 3) c <= 95915 / 100000 /\ micha_term (INR 4) c <= 93851 / 100000 /\
  micha_term (INR 5) c <= 98885 / 100000 /\ micha_term (INR 6) c <= 100005 / 100000 /\
  micha_term (INR 7) c <= 99328 / 100000 /\ micha_term (INR 8) c <= 98292 / 100000 /\
  micha_term (INR 9) c <= 99644 / 100000 /\ micha_term (INR 10) c <= 100005 / 100000.
Proof. repeat split; revert c H; mk_term. Qed.

Ltac micha_facts := repeat match goal with
  | H : 0 <= ?c <= PI |- _ => pose proof (micha_terms c H); revert H
  end; intros.

Lemma michalewicz_opt_bound : opt_bound_stmt michalewicz_b.
Proof.
  intros n x Hn Hx. simpl in Hn. apply nb_min_tol.
  destruct Hn as [E | [E | E]]; subst n; cbn [b_box b_opt b_f michalewicz_b] in *; unfold in_boxes, cube in Hx; cbn [repeat] in Hx;
    boxes_inv; cbn [fst snd] in *; micha_facts; unfold michalewicz, tol; cbn [sum_idx]; lra.
Qed.

Lemma michalewicz_opt_value : opt_value_stmt michalewicz_b.
Proof.
  intros n Hn. simpl in Hn. destruct Hn as [E | [E | E]]; subst n; cbn [b_coords b_box b_opt b_f michalewicz_b].
  - split.
    + unfold cube. cbn [repeat]. apply in_boxes_2_intro; split; interval.
    + unfold michalewicz, micha_term, tol. cbn [sum_idx]. simpl INR. interval.
  - exists [2202906 / 1000000; 1570796 / 1000000; 1284992 / 1000000; 1923058 / 1000000; 1720470 / 1000000]. split.
    + unfold in_boxes, cube. cbn [repeat]. repeat constructor; cbn [fst snd]; interval.
    + unfold michalewicz, micha_term, tol. cbn [sum_idx]. simpl INR. interval.
  - exists [2202906 / 1000000; 1570796 / 1000000; 1284992 / 1000000; 1923058 / 1000000; 1720470 / 1000000;
            1570796 / 1000000; 1454414 / 1000000; 1756087 / 1000000; 1655717 / 1000000; 1570796 / 1000000]. split.
    + unfold in_boxes, cube. cbn [repeat]. repeat constructor; cbn [fst snd]; interval.
    + unfold michalewicz, micha_term, tol. cbn [sum_idx]. simpl INR. interval.
Qed.
