(* C13 proofs, collected: full factorial, Plackett-Burman, Box-Behnken, generalized subset designs. *)
From Artap Require Export Proofs.DoeLists Proofs.DoeFullfact Proofs.DoePB Proofs.DoeBB Proofs.DoeGSD.
