(* C13 proofs, collected: full factorial, Plackett-Burman, Box-Behnken, generalized subset designs. *)
From Artap Require Export Proofs.DoeLists Proofs.DoeFullfact Proofs.DoePB Proofs.DoeBB Proofs.DoeGSD.

(* ---------------------------------------------------------------- row closed form --- *)
(* Row q of the full factorial is the mixed-radix representation of q (first factor fastest):
   used by the correspondence driver Run/C13Run.v to compare SAMPLED rows of designs that are too
   big to be written out (level counts / run counts around 2^15 and 2^16). *)
From Coq Require Import List Arith Lia.
From Artap Require Import Model.Doe.
Import ListNotations.
Local Open Scope nat_scope.

Lemma nth_error_map_seq {A} (f : nat -> A) n q : q < n -> nth_error (map f (seq 0 n)) q = Some (f q).
Proof.
  intros Lt. rewrite nth_error_map. rewrite (nth_error_nth' (seq 0 n) 0) by (rewrite seq_length; exact Lt).
  rewrite seq_nth by exact Lt. reflexivity.
Qed.

Theorem fullfact_row_closed_form (levels : list nat) (q : nat) : levels <> [] -> q < prod_list levels ->
  exists x, fullfact levels = Ok x /\ length x = prod_list levels /\ nth_error x q = Some (digits levels q).
Proof.
  intros NE Lt. exists (fullfact_rows levels). split; [destruct levels; [contradiction|reflexivity]|].
  rewrite fullfact_rows_digits. split; [rewrite map_length, seq_length; reflexivity|].
  apply nth_error_map_seq. exact Lt.
Qed.

Lemma Forall2_nth_error {A B} (R : A -> B -> Prop) (l : list A) : forall (l' : list B) q a,
  Forall2 R l l' -> nth_error l q = Some a -> exists b, nth_error l' q = Some b /\ R a b.
Proof.
  induction l as [|x l IH]; intros l' q a F E; [destruct q; discriminate|].
  inversion F as [|? y ? l2 Rxy F']; subst. destruct q as [|q]; simpl in *.
  - inversion E; subst. exists y. split; [reflexivity|exact Rxy].
  - apply (IH l2 q a F' E).
Qed.

Theorem build_full_fact_row_closed_form {T} (fl : list (list T)) (q : nat) :
  fl <> [] -> q < prod_list (map (@length T) fl) ->
  exists rows r, build_full_fact fl = Ok rows /\ length rows = prod_list (map (@length T) fl) /\
                 select_row (digits (map (@length T) fl) q) fl = Ok r /\ nth_error rows q = Some r.
Proof.
  intros NE Lt. set (levels := map (@length T) fl) in *.
  assert (levels <> []) as NE' by (subst levels; destruct fl; [contradiction|discriminate]).
  destruct (fullfact_row_closed_form levels q NE' Lt) as (x & Ex & Lx & Nx).
  destruct (fullfact_bijective fl NE) as (rows & Erows & Lrows & _).
  exists rows. unfold build_full_fact in Erows. fold levels in Erows. rewrite Ex in Erows. simpl in Erows.
  pose proof (construct_df_rel _ _ _ Erows) as Rel.
  destruct (Forall2_nth_error _ _ _ _ _ Rel Nx) as (r & Nr & Er).
  exists r. unfold build_full_fact. fold levels. rewrite Ex. simpl.
  split; [exact Erows|]. split; [exact Lrows|]. split; [exact Er|exact Nr].
Qed.
