(* C15 - proofs, group D: the Gaussian test functions of benchmark_robust.py (all maximised; Synthetic5D/10D after
   fix F5).  Synthetic1D / 2D: Interval branch-and-bound on the box.  Synthetic5D / 10D: every Gaussian atom is bounded
   either by a constant (its centre lies outside the box in some coordinate) or, for the two peaks inside the box, by its
   factor in the coordinate x2 that separates them; what is left is a 1-D Interval goal in x2. *)
From Coq Require Import Reals List Lia Lra Psatz.
From Interval Require Import Tactic.
From Artap Require Import Model.Bench Proofs.BenchLemmas.
Import ListNotations.
Local Open Scope R_scope.

Ltac boxes_inv := repeat match goal with
  | H : Forall2 _ (_ :: _) _ |- _ => inversion H; clear H; subst
  | H : Forall2 _ [] _ |- _ => inversion H; clear H; subst
  end.

(* ---------------------------------------------------------------- Synthetic1D *)
Lemma synthetic1d_upper : forall t, 0 <= t <= 12 -> synthetic1d_1 t <= 323 / 100 + 1 / 1000.
Proof. intros t H. unfold synthetic1d_1, gauss. interval with (i_bisect t, i_autodiff t, i_depth 40). Qed.

Lemma synthetic1d_opt_value : opt_value_stmt synthetic1d_b.
Proof.
  intros n Hn. simpl. split; [apply in_boxes_1_intro; lra |]. unfold synthetic1d_1, gauss, tol. interval.
Qed.

Lemma synthetic1d_opt_bound : opt_bound_stmt synthetic1d_b.
Proof.
  intros n x Hn Hx. simpl in *. apply in_boxes_1 in Hx. destruct Hx as [a [E Ha]]. subst x.
  apply nb_max_tol. unfold tol. simpl. apply synthetic1d_upper. exact Ha.
Qed.

(* ---------------------------------------------------------------- Synthetic2D *)
Lemma synthetic2d_upper : forall a b, 0 <= a <= 5 -> 0 <= b <= 5 -> synthetic2d_2 a b <= 121112 / 100000 + 1 / 1000.
Proof. intros a b Ha Hb. unfold synthetic2d_2, gauss2. interval with (i_bisect a, i_bisect b, i_depth 40). Qed.

Lemma synthetic2d_opt_value : opt_value_stmt synthetic2d_b.
Proof.
  intros n Hn. simpl. split; [apply in_boxes_2_intro; lra |]. unfold synthetic2d_2, gauss2, tol. interval.
Qed.

Lemma synthetic2d_opt_bound : opt_bound_stmt synthetic2d_b.
Proof.
  intros n x Hn Hx. simpl in *. apply in_boxes_2 in Hx. destruct Hx as [a [b [E [Ha Hb]]]]. subst x.
  apply nb_max_tol. unfold tol. simpl. apply synthetic2d_upper; assumption.
Qed.

(* ---------------------------------------------------------------- Synthetic5D / 10D *)
(* an atom is at most its multiplier times exp(-K/width) for any K below the squared distance to its centre *)
Lemma atom_le : forall w m x z K, 0 < w -> 0 <= m -> K <= sqdist x z -> atom_nd w m x z <= m * exp (- K / w).
Proof.
  intros w m x z K Hw Hm HK. unfold atom_nd. rewrite Rmult_comm. apply Rmult_le_compat_l; [exact Hm |].
  apply exp_le_mono. unfold Rdiv. rewrite Rinv_opp.
  assert (0 < / w) by (apply Rinv_0_lt_compat; exact Hw). nra.
Qed.

Lemma syn5_upper : forall x1 x2 x3 x4 x5, 0 <= x1 <= 5 -> 0 <= x2 <= 5 -> 0 <= x3 <= 5 -> 0 <= x4 <= 5 -> 0 <= x5 <= 5 ->
  synthetic5d [x1; x2; x3; x4; x5] <= 12 / 10 + tol.
Proof.
  intros x1 x2 x3 x4 x5 B1 B2 B3 B4 B5. unfold synthetic5d, atoms_sum, syn5_atoms. cbn [fold_right fst snd].
  set (x := [x1; x2; x3; x4; x5]).
  assert (atom_nd (3/10) (7/10) x [10; 1; 6; 7; 8] <= 7/10 * exp (- (25) / (3/10))) as A1.
  { apply (atom_le _ _ _ _ (25)); [lra | lra |]. unfold x. cbn [sqdist]. interval. }
  assert (atom_nd (4/10) (75/100) x [1; 3; 8; 95/10; 2] <= 75/100 * exp (- (9) / (4/10))) as A2.
  { apply (atom_le _ _ _ _ (9)); [lra | lra |]. unfold x. cbn [sqdist]. interval. }
  assert (atom_nd (1) (1) x [3; 1; 3; 2; 5] <= 1 * exp (- ((x2 - 1) ^ 2) / (1))) as A3.
  { apply (atom_le _ _ _ _ ((x2 - 1) ^ 2)); [lra | lra |]. unfold x. cbn [sqdist]. pose proof (pow2_ge_0 (x1 - 3)). pose proof (pow2_ge_0 (x3 - 3)). pose proof (pow2_ge_0 (x4 - 2)). pose proof (pow2_ge_0 (x5 - 5)). lra. }
  assert (atom_nd (4/10) (12/10) x [3; 4; 13/10; 5; 5] <= 12/10 * exp (- ((x2 - 4) ^ 2) / (4/10))) as A4.
  { apply (atom_le _ _ _ _ ((x2 - 4) ^ 2)); [lra | lra |]. unfold x. cbn [sqdist]. pose proof (pow2_ge_0 (x1 - 3)). pose proof (pow2_ge_0 (x3 - 13/10)). pose proof (pow2_ge_0 (x4 - 5)). pose proof (pow2_ge_0 (x5 - 5)). lra. }
  assert (atom_nd (6/10) (1) x [5; 2; 96/10; 73/10; 86/10] <= 1 * exp (- (21) / (6/10))) as A5.
  { apply (atom_le _ _ _ _ (21)); [lra | lra |]. unfold x. cbn [sqdist]. interval. }
  assert (atom_nd (5/10) (6/10) x [75/10; 8; 9; 32/10; 46/10] <= 6/10 * exp (- (16) / (5/10))) as A6.
  { apply (atom_le _ _ _ _ (16)); [lra | lra |]. unfold x. cbn [sqdist]. interval. }
  assert (atom_nd (1/10) (5/10) x [57/10; 93/10; 22/10; 84/10; 71/10] <= 5/10 * exp (- (18) / (1/10))) as A7.
  { apply (atom_le _ _ _ _ (18)); [lra | lra |]. unfold x. cbn [sqdist]. interval. }
  assert (atom_nd (1) (2/10) x [55/10; 72/10; 58/10; 23/10; 45/10] <= 2/10 * exp (- (572/100) / (1))) as A8.
  { apply (atom_le _ _ _ _ (572/100)); [lra | lra |]. unfold x. cbn [sqdist]. interval. }
  assert (atom_nd (2/10) (4/10) x [47/10; 32/10; 55/10; 71/10; 33/10] <= 4/10 * exp (- (4) / (2/10))) as A9.
  { apply (atom_le _ _ _ _ (4)); [lra | lra |]. unfold x. cbn [sqdist]. interval. }
  assert (atom_nd (3/10) (1/10) x [97/10; 84/10; 6/10; 32/10; 85/10] <= 1/10 * exp (- (22) / (3/10))) as A10.
  { apply (atom_le _ _ _ _ (22)); [lra | lra |]. unfold x. cbn [sqdist]. interval. }
  assert (7/10 * exp (- (25) / (3/10)) + (75/100 * exp (- (9) / (4/10)) + (1 * exp (- ((x2 - 1) ^ 2) / (1)) + (12/10 * exp (- ((x2 - 4) ^ 2) / (4/10)) + (1 * exp (- (21) / (6/10)) + (6/10 * exp (- (16) / (5/10)) + (5/10 * exp (- (18) / (1/10)) + (2/10 * exp (- (572/100) / (1)) + (4/10 * exp (- (4) / (2/10)) + (1/10 * exp (- (22) / (3/10)) + 0))))))))) <= 12 / 10 + tol) as E.
  { unfold tol. interval with (i_bisect x2, i_autodiff x2, i_depth 40). }
  lra.
Qed.

Lemma syn10_upper : forall x1 x2 x3 x4 x5 x6 x7 x8 x9 x10, 0 <= x1 <= 5 -> 0 <= x2 <= 5 -> 0 <= x3 <= 5 -> 0 <= x4 <= 5 -> 0 <= x5 <= 5 -> 0 <= x6 <= 5 -> 0 <= x7 <= 5 -> 0 <= x8 <= 5 -> 0 <= x9 <= 5 -> 0 <= x10 <= 5 ->
  synthetic10d [x1; x2; x3; x4; x5; x6; x7; x8; x9; x10] <= 12 / 10 + tol.
Proof.
  intros x1 x2 x3 x4 x5 x6 x7 x8 x9 x10 B1 B2 B3 B4 B5 B6 B7 B8 B9 B10. unfold synthetic10d, atoms_sum, syn10_atoms. cbn [fold_right fst snd].
  set (x := [x1; x2; x3; x4; x5; x6; x7; x8; x9; x10]).
  assert (atom_nd (3/10) (7/10) x [10; 1; 6; 7; 8; 1; 1; 6; 7; 8] <= 7/10 * exp (- (25) / (3/10))) as A1.
  { apply (atom_le _ _ _ _ (25)); [lra | lra |]. unfold x. cbn [sqdist]. interval. }
  assert (atom_nd (4/10) (75/100) x [1; 3; 8; 95/10; 2; 1; 3; 8; 95/10; 2] <= 75/100 * exp (- (9) / (4/10))) as A2.
  { apply (atom_le _ _ _ _ (9)); [lra | lra |]. unfold x. cbn [sqdist]. interval. }
  assert (atom_nd (1) (1) x [3; 1; 3; 2; 5; 3; 1; 3; 2; 5] <= 1 * exp (- ((x2 - 1) ^ 2) / (1))) as A3.
  { apply (atom_le _ _ _ _ ((x2 - 1) ^ 2)); [lra | lra |]. unfold x. cbn [sqdist]. pose proof (pow2_ge_0 (x1 - 3)). pose proof (pow2_ge_0 (x3 - 3)). pose proof (pow2_ge_0 (x4 - 2)). pose proof (pow2_ge_0 (x5 - 5)). pose proof (pow2_ge_0 (x6 - 3)). pose proof (pow2_ge_0 (x7 - 1)). pose proof (pow2_ge_0 (x8 - 3)). pose proof (pow2_ge_0 (x9 - 2)). pose proof (pow2_ge_0 (x10 - 5)). lra. }
  assert (atom_nd (4/10) (12/10) x [3; 4; 13/10; 5; 5; 3; 4; 13/10; 5; 5] <= 12/10 * exp (- ((x2 - 4) ^ 2) / (4/10))) as A4.
  { apply (atom_le _ _ _ _ ((x2 - 4) ^ 2)); [lra | lra |]. unfold x. cbn [sqdist]. pose proof (pow2_ge_0 (x1 - 3)). pose proof (pow2_ge_0 (x3 - 13/10)). pose proof (pow2_ge_0 (x4 - 5)). pose proof (pow2_ge_0 (x5 - 5)). pose proof (pow2_ge_0 (x6 - 3)). pose proof (pow2_ge_0 (x7 - 4)). pose proof (pow2_ge_0 (x8 - 13/10)). pose proof (pow2_ge_0 (x9 - 5)). pose proof (pow2_ge_0 (x10 - 5)). lra. }
  assert (atom_nd (6/10) (1) x [5; 2; 96/10; 73/10; 86/10; 5; 2; 96/10; 73/10; 86/10] <= 1 * exp (- (21) / (6/10))) as A5.
  { apply (atom_le _ _ _ _ (21)); [lra | lra |]. unfold x. cbn [sqdist]. interval. }
  assert (atom_nd (5/10) (6/10) x [75/10; 8; 9; 32/10; 46/10; 75/10; 8; 9; 32/10; 46/10] <= 6/10 * exp (- (16) / (5/10))) as A6.
  { apply (atom_le _ _ _ _ (16)); [lra | lra |]. unfold x. cbn [sqdist]. interval. }
  assert (atom_nd (1/10) (5/10) x [57/10; 93/10; 22/10; 84/10; 71/10; 57/10; 93/10; 22/10; 84/10; 71/10] <= 5/10 * exp (- (18) / (1/10))) as A7.
  { apply (atom_le _ _ _ _ (18)); [lra | lra |]. unfold x. cbn [sqdist]. interval. }
  assert (atom_nd (1) (2/10) x [55/10; 72/10; 58/10; 23/10; 45/10; 55/10; 72/10; 58/10; 23/10; 45/10] <= 2/10 * exp (- (572/100) / (1))) as A8.
  { apply (atom_le _ _ _ _ (572/100)); [lra | lra |]. unfold x. cbn [sqdist]. interval. }
  assert (atom_nd (2/10) (4/10) x [47/10; 32/10; 55/10; 71/10; 33/10; 47/10; 32/10; 55/10; 71/10; 33/10] <= 4/10 * exp (- (4) / (2/10))) as A9.
  { apply (atom_le _ _ _ _ (4)); [lra | lra |]. unfold x. cbn [sqdist]. interval. }
  assert (atom_nd (3/10) (1/10) x [97/10; 84/10; 6/10; 32/10; 85/10; 97/10; 84/10; 6/10; 32/10; 85/10] <= 1/10 * exp (- (22) / (3/10))) as A10.
  { apply (atom_le _ _ _ _ (22)); [lra | lra |]. unfold x. cbn [sqdist]. interval. }
  assert (7/10 * exp (- (25) / (3/10)) + (75/100 * exp (- (9) / (4/10)) + (1 * exp (- ((x2 - 1) ^ 2) / (1)) + (12/10 * exp (- ((x2 - 4) ^ 2) / (4/10)) + (1 * exp (- (21) / (6/10)) + (6/10 * exp (- (16) / (5/10)) + (5/10 * exp (- (18) / (1/10)) + (2/10 * exp (- (572/100) / (1)) + (4/10 * exp (- (4) / (2/10)) + (1/10 * exp (- (22) / (3/10)) + 0))))))))) <= 12 / 10 + tol) as E.
  { unfold tol. interval with (i_bisect x2, i_autodiff x2, i_depth 40). }
  lra.
Qed.

Ltac c15_point_unfold := cbv [synthetic5d synthetic10d atoms_sum syn5_atoms syn10_atoms atom_nd sqdist fold_right fst snd].

Lemma synthetic5d_opt_value : opt_value_stmt synthetic5d_b.
Proof.
  intros n Hn. simpl in Hn. subst n. cbn [b_coords b_box b_opt b_f synthetic5d_b]. split.
  - unfold in_boxes, cube. cbn [repeat]. repeat constructor; cbn [fst snd]; lra.
  - c15_point_unfold. unfold tol. interval.
Qed.

Lemma synthetic5d_opt_bound : opt_bound_stmt synthetic5d_b.
Proof.
  intros n x Hn Hx. simpl in Hn. subst n. cbn [b_box b_opt b_f b_dir synthetic5d_b] in *.
  unfold in_boxes, cube in Hx. cbn [repeat] in Hx. boxes_inv. cbn [fst snd] in *.
  apply nb_max_tol. apply syn5_upper; assumption.
Qed.

Lemma synthetic10d_opt_value : opt_value_stmt synthetic10d_b.
Proof.
  intros n Hn. simpl in Hn. subst n. cbn [b_coords b_box b_opt b_f synthetic10d_b]. split.
  - unfold in_boxes, cube. cbn [repeat]. repeat constructor; cbn [fst snd]; lra.
  - c15_point_unfold. unfold tol. interval.
Qed.

Lemma synthetic10d_opt_bound : opt_bound_stmt synthetic10d_b.
Proof.
  intros n x Hn Hx. simpl in Hn. subst n. cbn [b_box b_opt b_f b_dir synthetic10d_b] in *.
  unfold in_boxes, cube in Hx. cbn [repeat] in Hx. boxes_inv. cbn [fst snd] in *.
  apply nb_max_tol. apply syn10_upper; assumption.
Qed.

(* ---------------------------------------------------------------- before fix F5 the two classes declared 'minimize':
   the origin of the box is better than the documented optimum 1.2 *)
Lemma synthetic5d_minimize_refuted :
  exists x, in_boxes (cube 0 5 5) x /\ ~ not_better Minimize (12 / 10) (synthetic5d x).
Proof.
  exists (repeat 0 5). split; [apply in_boxes_cube_repeat; lra |].
  unfold not_better, tol. apply Rlt_not_le. cbn [repeat]. c15_point_unfold. interval.
Qed.

Lemma synthetic10d_minimize_refuted :
  exists x, in_boxes (cube 0 5 10) x /\ ~ not_better Minimize (12 / 10) (synthetic10d x).
Proof.
  exists (repeat 0 10). split; [apply in_boxes_cube_repeat; lra |].
  unfold not_better, tol. apply Rlt_not_le. cbn [repeat]. c15_point_unfold. interval.
Qed.
