(* Lemmas about the prelude that tools/py2coq_heap.py emits at the head of every generated module
   (outcomes res / h_bind / h_for, the object store h_upd, integer indices, list.sort).  The generated modules
   are self-contained (Coq's standard library only) and compiled before this library is available, so the
   prelude is repeated here under the names g_*; all types are standard-library types, hence each generated
   constant is convertible with its copy (`@h_for = @g_for` by reflexivity: see GenProofs/FndsEquiv.v,
   CrowdingEquiv.v) and the lemmas transfer by rewriting. *)
From Coq Require Import List ZArith Bool Arith Lia Permutation.
From Artap Require Import Base.StableSort.
Import ListNotations.

Definition res (S R : Type) : Type := ((S + R) + bool)%type.
Definition g_next {S R : Type} (s : S) : res S R := inl (inl s).
Definition g_ret {S R : Type} (r : R) : res S R := inl (inr r).
Definition g_exc {S R : Type} : res S R := inr true.
Definition g_stuck {S R : Type} : res S R := inr false.
Definition g_bind {S S' R : Type} (m : res S R) (k : S -> res S' R) : res S' R :=
  match m with inl (inl s) => k s | inl (inr r) => inl (inr r) | inr b => inr b end.
Definition g_get {A S R : Type} (o : option A) (k : A -> res S R) : res S R :=
  match o with Some a => k a | None => g_exc end.
Definition g_call {A S R : Type} (m : res unit A) (k : A -> res S R) : res S R :=
  match m with inl (inr a) => k a | inl (inl _) => g_stuck | inr b => inr b end.
Fixpoint g_for {S X R : Type} (body : S -> X -> res S R) (xs : list X) (s : S) : res S R :=
  match xs with
  | [] => g_next s
  | x :: xs' => g_bind (body s x) (g_for body xs')
  end.
Definition g_upd {V : Type} (h : nat -> V) (r : nat) (v : V) : nat -> V :=
  fun i => if Nat.eqb i r then v else h i.
Definition g_is_none {A : Type} (o : option A) : bool := match o with None => true | Some _ => false end.
Definition g_zindex (k : Z) (n : nat) : option nat :=
  if (0 <=? k)%Z then Some (Z.to_nat k)
  else if (0 <=? Z.of_nat n + k)%Z then Some (Z.to_nat (Z.of_nat n + k)) else None.
Definition g_nth_z {A : Type} (xs : list A) (k : Z) : option A :=
  match g_zindex k (length xs) with Some i => nth_error xs i | None => None end.
Fixpoint g_modify {A : Type} (i : nat) (f : A -> A) (l : list A) : option (list A) :=
  match l, i with
  | [], _ => None
  | y :: l', O => Some (f y :: l')
  | y :: l', S i' => match g_modify i' f l' with Some r => Some (y :: r) | None => None end
  end.
Definition g_modify_z {A : Type} (xs : list A) (k : Z) (f : A -> A) : option (list A) :=
  match g_zindex k (length xs) with Some i => g_modify i f xs | None => None end.
Definition g_same_cell (a b : option nat) : bool :=
  match a, b with Some i, Some j => Nat.eqb i j | _, _ => false end.
Definition g_pop {A : Type} (xs : list A) : option (list A) :=
  match xs with [] => None | _ :: _ => Some (removelast xs) end.
Fixpoint g_mapm {A K : Type} (f : A -> option K) (l : list A) : option (list K) :=
  match l with
  | [] => Some []
  | x :: l' => match f x, g_mapm f l' with Some k, Some r => Some (k :: r) | _, _ => None end
  end.
Definition g_sort_by {A K : Type} (ltb : K -> K -> bool) (ks : list K) (xs : list A) : list A :=
  map snd (ssort (fun p q : K * A => negb (ltb (fst q) (fst p))) (combine ks xs)).

(* ------------------------------------------------------------------------------------------------ *)
(* loops                                                                                            *)
(* ------------------------------------------------------------------------------------------------ *)
Section Loops.
  Context {S X R : Type}.

  Lemma g_for_app (body : S -> X -> res S R) xs ys s :
    g_for body (xs ++ ys) s = g_bind (g_for body xs s) (g_for body ys).
  Proof.
    revert s. induction xs as [|x xs IH]; intros s; cbn; [reflexivity|].
    destruct (body s x) as [[s'|r]|b]; cbn; [apply IH|reflexivity|reflexivity].
  Qed.

  (* an invariant over the processed prefix: no iteration returns or raises *)
  Lemma g_for_inv (body : S -> X -> res S R) (P : list X -> S -> Prop) xs s0 :
    P [] s0 ->
    (forall pre x post s, xs = pre ++ x :: post -> P pre s -> exists s', body s x = g_next s' /\ P (pre ++ [x]) s') ->
    exists s', g_for body xs s0 = g_next s' /\ P xs s'.
  Proof.
    intros H0 Hstep.
    assert (G : forall post pre s, xs = pre ++ post -> P pre s ->
                exists s', g_for body post s = g_next s' /\ P xs s').
    { induction post as [|x post IH]; intros pre s E Hp.
      - rewrite app_nil_r in E. subst pre. exists s. split; [reflexivity|assumption].
      - destruct (Hstep pre x post s E Hp) as [s1 [E1 P1]].
        cbn. rewrite E1. cbn. apply (IH (pre ++ [x])); [|assumption].
        rewrite <- app_assoc. exact E. }
    apply (G xs [] s0); [reflexivity|assumption].
  Qed.

  (* simulation of a fold of the model *)
  Lemma g_for_fold {M : Type} (Rel : S -> M -> Prop) (body : S -> X -> res S R) (step : M -> X -> M) xs :
    (forall s m x, In x xs -> Rel s m -> exists s', body s x = g_next s' /\ Rel s' (step m x)) ->
    forall s m, Rel s m -> exists s', g_for body xs s = g_next s' /\ Rel s' (fold_left step xs m).
  Proof.
    induction xs as [|x xs IH]; intros Hstep s m Hr; cbn.
    - exists s. split; [reflexivity|assumption].
    - destruct (Hstep s m x (or_introl eq_refl) Hr) as [s1 [E1 R1]]. rewrite E1. cbn.
      apply IH; [|assumption]. intros s2 m2 y Hy. apply Hstep. right. exact Hy.
  Qed.
End Loops.

(* a search loop: the body returns at the first hit *)
Lemma g_for_find {X R : Type} (test : X -> bool) (hit : X -> R) (xs : list X) :
  g_for (fun (_ : unit) x => if test x then g_ret (hit x) else g_next tt) xs tt =
  match find test xs with Some x => g_ret (hit x) | None => g_next tt end.
Proof.
  induction xs as [|x xs IH]; cbn; [reflexivity|].
  destruct (test x); cbn; [reflexivity|exact IH].
Qed.

(* ------------------------------------------------------------------------------------------------ *)
(* the store                                                                                        *)
(* ------------------------------------------------------------------------------------------------ *)
Lemma g_upd_same {V} (h : nat -> V) r v : g_upd h r v r = v.
Proof. unfold g_upd. rewrite Nat.eqb_refl. reflexivity. Qed.
Lemma g_upd_other {V} (h : nat -> V) r v i : i <> r -> g_upd h r v i = h i.
Proof. intros H. unfold g_upd. destruct (Nat.eqb_spec i r); [contradiction|reflexivity]. Qed.

(* ------------------------------------------------------------------------------------------------ *)
(* integer indices                                                                                  *)
(* ------------------------------------------------------------------------------------------------ *)
Lemma g_zindex_nat k n : g_zindex (Z.of_nat k) n = Some k.
Proof. unfold g_zindex. destruct (Z.leb_spec 0 (Z.of_nat k)); [|lia]. rewrite Nat2Z.id. reflexivity. Qed.
Lemma g_zindex_sub k c n : c <= k -> g_zindex (Z.of_nat k - Z.of_nat c) n = Some (k - c).
Proof. intros H. replace (Z.of_nat k - Z.of_nat c)%Z with (Z.of_nat (k - c)) by lia. apply g_zindex_nat. Qed.
Lemma g_zindex_last n : 1 <= n -> g_zindex (-1) n = Some (n - 1).
Proof.
  intros H. unfold g_zindex. cbn [Z.leb Z.compare]. destruct (Z.leb_spec 0 (Z.of_nat n + -1)); [|lia].
  f_equal. lia.
Qed.
Lemma g_nth_z_nat {A} (xs : list A) k : g_nth_z xs (Z.of_nat k) = nth_error xs k.
Proof. unfold g_nth_z. rewrite g_zindex_nat. reflexivity. Qed.
Lemma g_nth_z_sub {A} (xs : list A) k c : c <= k -> g_nth_z xs (Z.of_nat k - Z.of_nat c) = nth_error xs (k - c).
Proof. intros H. unfold g_nth_z. rewrite g_zindex_sub by assumption. reflexivity. Qed.
Lemma g_nth_z_last {A} (xs : list A) : 1 <= length xs -> g_nth_z xs (-1) = nth_error xs (length xs - 1).
Proof. intros H. unfold g_nth_z. rewrite g_zindex_last by assumption. reflexivity. Qed.

Lemma g_modify_app {A} (f : A -> A) (l : list A) x r : g_modify (length l) f (l ++ x :: r) = Some (l ++ f x :: r).
Proof. induction l as [|y l IH]; cbn; [reflexivity|]. rewrite IH. reflexivity. Qed.
Lemma g_modify_z_app {A} (f : A -> A) (l : list A) x r k c :
  c <= k -> k - c = length l -> g_modify_z (l ++ x :: r) (Z.of_nat k - Z.of_nat c) f = Some (l ++ f x :: r).
Proof. intros H E. unfold g_modify_z. rewrite g_zindex_sub by assumption. rewrite E. apply g_modify_app. Qed.

Lemma nth_error_app_mid {A} (l : list A) x r : nth_error (l ++ x :: r) (length l) = Some x.
Proof. rewrite nth_error_app2 by lia. rewrite Nat.sub_diag. reflexivity. Qed.

(* ------------------------------------------------------------------------------------------------ *)
(* keys and sorting                                                                                 *)
(* ------------------------------------------------------------------------------------------------ *)
Lemma g_mapm_map {A K} (f : A -> option K) (g : A -> K) l :
  (forall x, In x l -> f x = Some (g x)) -> g_mapm f l = Some (map g l).
Proof.
  induction l as [|x l IH]; intros H; cbn; [reflexivity|].
  rewrite (H x (or_introl eq_refl)), IH; [reflexivity|]. intros y Hy. apply H. right. exact Hy.
Qed.

Lemma insert_map {X Y} (phi : X -> Y) (lebX : X -> X -> bool) (lebY : Y -> Y -> bool) :
  (forall a b, lebX a b = lebY (phi a) (phi b)) ->
  forall x l, map phi (insert lebX x l) = insert lebY (phi x) (map phi l).
Proof.
  intros H x l. induction l as [|y l IH]; cbn; [reflexivity|].
  rewrite <- H. destruct (lebX x y); cbn; [reflexivity|]. rewrite IH. reflexivity.
Qed.
Lemma ssort_map {X Y} (phi : X -> Y) (lebX : X -> X -> bool) (lebY : Y -> Y -> bool) :
  (forall a b, lebX a b = lebY (phi a) (phi b)) ->
  forall l, map phi (ssort lebX l) = ssort lebY (map phi l).
Proof.
  intros H l. induction l as [|x l IH]; cbn; [reflexivity|].
  unfold ssort in *. cbn. rewrite (insert_map phi lebX lebY H), IH. reflexivity.
Qed.

(* list.sort(key=...) on the keys computed from the items is the stable sort of the items by their keys *)
Lemma g_sort_by_keys {A K} (ltb : K -> K -> bool) (key : A -> K) (xs : list A) :
  g_sort_by ltb (map key xs) xs = ssort (fun a b => negb (ltb (key b) (key a))) xs.
Proof.
  unfold g_sort_by.
  assert (E : combine (map key xs) xs = map (fun x => (key x, x)) xs).
  { induction xs as [|x xs IH]; cbn; [reflexivity|]. rewrite IH. reflexivity. }
  rewrite E.
  rewrite <- (ssort_map (fun x => (key x, x)) (fun a b => negb (ltb (key b) (key a)))
                        (fun p q : K * A => negb (ltb (fst q) (fst p)))) by reflexivity.
  rewrite map_map. cbn. apply map_id.
Qed.

(* ------------------------------------------------------------------------------------------------ *)
(* lists by position                                                                                *)
(* ------------------------------------------------------------------------------------------------ *)
Lemma map_by_pos {A B} (phi : A -> B) (l : list A) (d : A) :
  map phi l = map (fun j => phi (nth j l d)) (seq 0 (length l)).
Proof.
  induction l as [|x l IH]; cbn; [reflexivity|]. f_equal. rewrite <- seq_shift, map_map. exact IH.
Qed.
Lemma map_combine_pos {A B} (g : nat * A -> B) (l : list A) (d : A) :
  map g (combine (seq 0 (length l)) l) = map (fun j => g (j, nth j l d)) (seq 0 (length l)).
Proof.
  assert (G : forall k, map g (combine (seq k (length l)) l) = map (fun j => g (j, nth (j - k) l d)) (seq k (length l))).
  { induction l as [|x l IH]; intros k; cbn; [reflexivity|]. rewrite Nat.sub_diag. f_equal.
    rewrite IH. apply map_ext_in. intros j Hj. apply in_seq in Hj.
    replace (j - k) with (S (j - S k)) by lia. reflexivity. }
  rewrite G. apply map_ext. intros j. rewrite Nat.sub_0_r. reflexivity.
Qed.
Lemma in_combine_seq_same a n i p : In (i, p) (combine (seq a n) (seq a n)) -> i = p /\ a <= i < a + n.
Proof.
  revert a. induction n as [|n IH]; intros a H; cbn in H; [contradiction|].
  destruct H as [H|H]; [inversion H; subst; lia|]. apply IH in H. lia.
Qed.
Lemma fold_left_combine_same {M} (g : M -> nat -> M) l : forall m,
  fold_left (fun a (el : nat * nat) => g a (fst el)) (combine l l) m = fold_left g l m.
Proof. induction l as [|x l IH]; intros m; cbn; [reflexivity|apply IH]. Qed.

(* ------------------------------------------------------------------------------------------------ *)
(* computation rules                                                                                *)
(* ------------------------------------------------------------------------------------------------ *)
Lemma g_bind_next {S S' R} (s : S) (k : S -> res S' R) : g_bind (g_next s) k = k s.
Proof. reflexivity. Qed.
Lemma g_bind_ret {S S' R} (r : R) (k : S -> res S' R) : g_bind (g_ret r) k = g_ret r.
Proof. reflexivity. Qed.
Lemma g_bind_stuck {S S' R} (k : S -> res S' R) : g_bind g_stuck k = g_stuck.
Proof. reflexivity. Qed.
Lemma g_get_some {A S R} (a : A) (k : A -> res S R) : g_get (Some a) k = k a.
Proof. reflexivity. Qed.
Lemma g_call_ret {A S R} (a : A) (k : A -> res S R) : g_call (g_ret a) k = k a.
Proof. reflexivity. Qed.
Lemma g_pop_last {A} (l : list A) x : g_pop (l ++ [x]) = Some l.
Proof.
  unfold g_pop. destruct l as [|y l]; [reflexivity|].
  change ((y :: l) ++ [x]) with (y :: (l ++ [x])) at 1.
  cbv iota beta. rewrite removelast_last. reflexivity.
Qed.
