(* Proofs about Model/Parallel.v (C07): steps of different designs commute on the observable
   abstraction; every interleaving of the tasks' step lists is observably the serial order; the serial
   order of the small steps is Model/Job.v's `evaluate_serial` (bridge to C05 / C06). *)
From Coq Require Import List Bool Arith Lia Permutation.
From Artap Require Import Model.Job Model.Parallel Proofs.JobProofs.
Import ListNotations.
Local Open Scope nat_scope.

Section ListFacts2.
  Context {A : Type}.

  Lemma upd_comm (l : list A) a b x y : a <> b -> upd (upd l a x) b y = upd (upd l b y) a x.
  Proof.
    revert a b. induction l as [|z l IH]; intros a b D; [reflexivity|].
    destruct a, b; cbn; try reflexivity; try congruence. f_equal. apply IH. congruence.
  Qed.

  Lemma upd_upd (l : list A) a x y : upd (upd l a x) a y = upd l a y.
  Proof. revert a. induction l as [|z l IH]; intros [|a]; cbn; try reflexivity. f_equal. apply IH. Qed.

  Lemma upd_same (l : list A) a x : nth_error l a = Some x -> upd l a x = l.
  Proof.
    revert a. induction l as [|z l IH]; intros [|a] H; cbn in *; try discriminate.
    - congruence.
    - f_equal. apply IH. exact H.
  Qed.

  Lemma concat_all_nil (ls : list (list A)) : Forall (fun l => l = []) ls -> concat ls = [].
  Proof. induction 1 as [|l ls H _ IH]; cbn; [reflexivity|]. subst. exact IH. Qed.
End ListFacts2.

Section ParallelFacts.
  Variable T : Type.
  Variable ltb : T -> T -> bool.
  Variable zero : T.
  Variable roundp : nat -> T -> T.
  Variable smul : bool -> T -> T.

  Notation ind := (ind T).
  Notation call := (call T).
  Notation env := (env T).
  Notation state := (state T).
  Notation pstate := (pstate T).
  Notation effect := (effect T).
  Notation exec := (exec ltb zero roundp smul).
  Notation run := (run ltb zero roundp smul).
  Notation effect_of := (effect_of ltb zero roundp smul).
  Notation job_evaluate := (job_evaluate ltb zero roundp smul).
  Notation evaluate_serial := (evaluate_serial ltb zero roundp smul).
  Notation attempts := (attempts ltb zero roundp smul).

  (* ------------------------------------------------------------------ the observable abstraction *)
  (* individuals by id: equal; problem.failed: multiset; store: per-id sequence of snapshots (hence the
     same row per id) and multiset; objective calls: per-design sequence without the global number, and
     multiset *)
  Definition same_obs (a b : state) : Prop :=
    s_heap a = s_heap b /\ s_pop a = s_pop b /\
    Permutation (s_failed a) (s_failed b) /\
    (forall id, syncs_by id (s_store a) = syncs_by id (s_store b)) /\
    Permutation (s_store a) (s_store b) /\
    (forall id, calls_by id (s_calls a) = calls_by id (s_calls b)) /\
    Permutation (map (@strip T) (s_calls a)) (map (@strip T) (s_calls b)).

  Definition peq (a b : pstate) : Prop :=
    same_obs (p_st a) (p_st b) /\ forall id, p_pend a id = p_pend b id.

  Lemma same_obs_refl a : same_obs a a.
  Proof. repeat split; auto. Qed.

  Lemma same_obs_sym a b : same_obs a b -> same_obs b a.
  Proof.
    intros (H1 & H2 & H3 & H4 & H5 & H6 & H7). repeat split; auto using Permutation_sym.
  Qed.

  Lemma same_obs_trans a b c : same_obs a b -> same_obs b c -> same_obs a c.
  Proof.
    intros (H1 & H2 & H3 & H4 & H5 & H6 & H7) (K1 & K2 & K3 & K4 & K5 & K6 & K7).
    repeat split; try congruence; try (eapply Permutation_trans; eassumption).
  Qed.

  Lemma peq_refl a : peq a a.
  Proof. split; [apply same_obs_refl|auto]. Qed.
  Lemma peq_sym a b : peq a b -> peq b a.
  Proof. intros [H K]. split; [apply same_obs_sym; exact H|auto]. Qed.
  Lemma peq_trans a b c : peq a b -> peq b c -> peq a c.
  Proof. intros [H K] [H' K']. split; [eapply same_obs_trans; eassumption|]. intros id. rewrite K. apply K'. Qed.

  (* ------------------------------------------------------------------ effects *)
  (* two effects that differ at most in the global number of the logged call *)
  Definition feq (f g : effect) : Prop :=
    f_ind f = f_ind g /\ option_map (@strip T) (f_call f) = option_map (@strip T) (f_call g) /\
    f_failed f = f_failed g /\ f_store f = f_store g /\ f_pend f = f_pend g.

  Lemma feq_refl f : feq f f.
  Proof. repeat split. Qed.

  Definition call_owned (id : nat) (f : effect) : Prop := forall c, f_call f = Some c -> c_id c = id.

  Lemma calls_by_app id (a b : list call) : calls_by id (a ++ b) = calls_by id a ++ calls_by id b.
  Proof. unfold calls_by. rewrite filter_app, map_app. reflexivity. Qed.
  Lemma syncs_by_app id (a b : list (nat * ind)) : syncs_by id (a ++ b) = syncs_by id a ++ syncs_by id b.
  Proof. unfold syncs_by. apply filter_app. Qed.

  Local Ltac simp := cbn [Parallel.apply_effect p_st p_pend s_heap s_pop s_failed s_store s_calls Parallel.opt_app option_map].

  Lemma apply_effect_congr id (f g : effect) (a b : pstate) : feq f g -> peq a b -> peq (apply_effect id f a) (apply_effect id g b).
  Proof.
    intros (F1 & F2 & F3 & F4 & F5) [(H1 & H2 & H3 & H4 & H5 & H6 & H7) K].
    split; [repeat split|]; simp.
    - rewrite F1, H1. reflexivity.
    - exact H2.
    - rewrite F3. destruct (f_failed g); simp; [apply Permutation_app_tail|]; exact H3.
    - intros k. rewrite F4. destruct (f_store g); simp; [|apply H4]. rewrite !syncs_by_app, H4. reflexivity.
    - rewrite F4. destruct (f_store g); simp; [apply Permutation_app_tail|]; exact H5.
    - intros k. destruct (f_call f) as [c|], (f_call g) as [c'|]; cbn [option_map] in F2; try discriminate; simp; [|apply H6].
      rewrite !calls_by_app, H6. f_equal. inversion F2 as [[E1 E2 E3]].
      unfold calls_by, strip. cbn [filter]. rewrite E1. destruct (c_id c' =? k); cbn [map]; [|reflexivity].
      rewrite E1, E2, E3. reflexivity.
    - destruct (f_call f) as [c|], (f_call g) as [c'|]; cbn [option_map] in F2; try discriminate; simp; [|exact H7].
      rewrite !map_app. cbn [map]. assert (E : strip c = strip c') by congruence. rewrite E.
      apply Permutation_app_tail. exact H7.
    - intros k. rewrite F5. destruct (f_pend g); [|apply K]. destruct (k =? id); [reflexivity|apply K].
  Qed.

  Lemma apply_effect_comm a b (fa fb : effect) (ps : pstate) : a <> b -> call_owned a fa -> call_owned b fb ->
    peq (apply_effect b fb (apply_effect a fa ps)) (apply_effect a fa (apply_effect b fb ps)).
  Proof.
    intros D Oa Ob. split; [repeat split|]; simp.
    - destruct (f_ind fa), (f_ind fb); try reflexivity. apply upd_comm. exact D.
    - destruct (f_failed fa), (f_failed fb); simp; try reflexivity.
      rewrite <- !app_assoc. apply Permutation_app_head. apply perm_swap.
    - intros k. destruct (f_store fa), (f_store fb); simp; try reflexivity.
      rewrite !syncs_by_app. unfold syncs_by. cbn [filter fst].
      destruct (a =? k) eqn:Ea, (b =? k) eqn:Eb; rewrite ?app_nil_r; try reflexivity.
      apply Nat.eqb_eq in Ea, Eb. congruence.
    - destruct (f_store fa), (f_store fb); simp; try reflexivity.
      rewrite <- !app_assoc. apply Permutation_app_head. apply perm_swap.
    - intros k. destruct (f_call fa) as [ca|] eqn:Ca, (f_call fb) as [cb|] eqn:Cb; simp; try reflexivity.
      rewrite !calls_by_app. unfold calls_by. cbn [filter].
      rewrite (Oa ca Ca), (Ob cb Cb).
      destruct (a =? k) eqn:Ea, (b =? k) eqn:Eb; cbn [map]; rewrite ?app_nil_r; try reflexivity.
      apply Nat.eqb_eq in Ea, Eb. congruence.
    - destruct (f_call fa), (f_call fb); simp; try reflexivity.
      rewrite !map_app, <- !app_assoc. apply Permutation_app_head. apply perm_swap.
    - intros k. destruct (f_pend fa), (f_pend fb); try reflexivity.
      destruct (k =? b) eqn:Eb, (k =? a) eqn:Ea; try reflexivity.
      apply Nat.eqb_eq in Ea, Eb. congruence.
  Qed.

  Lemma apply_effect_frame id (f : effect) (ps : pstate) k : k <> id ->
    nth_error (s_heap (p_st (apply_effect id f ps))) k = nth_error (s_heap (p_st ps)) k /\
    p_pend (apply_effect id f ps) k = p_pend ps k.
  Proof.
    intros D. cbn. split.
    - destruct (f_ind f); [|reflexivity]. apply nth_error_upd_other. congruence.
    - destruct (f_pend f); [|reflexivity]. apply Nat.eqb_neq in D. rewrite D. reflexivity.
  Qed.

  Lemma effect_of_owned e s i pd n : call_owned (st_id s) (effect_of e s i pd n).
  Proof.
    unfold call_owned, Parallel.effect_of. intros c.
    destruct (st_kind s); cbn; try discriminate.
    - intros H. inversion H. reflexivity.
    - destruct pd as [[[| |] ?]|]; cbn; discriminate.
    - destruct pd as [[[| |] ?]|]; cbn; discriminate.
    - destruct pd as [[[| |] ?]|]; cbn; discriminate.
  Qed.

  Lemma effect_of_local e s i pd n n' : local_env e -> feq (effect_of e s i pd n) (effect_of e s i pd n').
  Proof.
    intros L. unfold Parallel.effect_of. destruct (st_kind s); try apply feq_refl.
    unfold feq; cbn. repeat split.
    match goal with |- Some (e_obj e ?c, e_reroll e ?c) = Some (e_obj e ?d, e_reroll e ?d) =>
      destruct (L c d eq_refl eq_refl eq_refl) as [-> ->] end.
    reflexivity.
  Qed.

  (* ------------------------------------------------------------------ one step *)
  Lemma exec_some e ps s i : nth_error (s_heap (p_st ps)) (st_id s) = Some i ->
    exec e ps s = apply_effect (st_id s) (effect_of e s i (p_pend ps (st_id s)) (length (s_calls (p_st ps)))) ps.
  Proof. intros H. unfold Parallel.exec. rewrite H. reflexivity. Qed.

  Lemma exec_none e ps s : nth_error (s_heap (p_st ps)) (st_id s) = None -> exec e ps s = ps.
  Proof. intros H. unfold Parallel.exec. rewrite H. reflexivity. Qed.

  Lemma peq_ncalls a b : peq a b -> length (s_calls (p_st a)) = length (s_calls (p_st b)).
  Proof.
    intros [(_ & _ & _ & _ & _ & _ & P) _]. apply Permutation_length in P. rewrite !map_length in P. exact P.
  Qed.

  Lemma exec_congr e a b s : peq a b -> peq (exec e a s) (exec e b s).
  Proof.
    intros H. pose proof H as [(H1 & _) K]. pose proof (peq_ncalls a b H) as N.
    unfold Parallel.exec. rewrite <- H1, <- N, <- K.
    destruct (nth_error (s_heap (p_st a)) (st_id s)); [|exact H].
    apply apply_effect_congr; [apply feq_refl|exact H].
  Qed.

  (* steps of different designs commute on the observable abstraction *)
  Theorem steps_commute e ps a b : local_env e -> st_id a <> st_id b ->
    peq (exec e (exec e ps a) b) (exec e (exec e ps b) a).
  Proof.
    intros L D.
    destruct (nth_error (s_heap (p_st ps)) (st_id a)) as [ia|] eqn:Ha;
      destruct (nth_error (s_heap (p_st ps)) (st_id b)) as [ib|] eqn:Hb.
    - rewrite (exec_some e ps a ia Ha), (exec_some e ps b ib Hb).
      set (fa := effect_of e a ia (p_pend ps (st_id a)) (length (s_calls (p_st ps)))).
      set (fb := effect_of e b ib (p_pend ps (st_id b)) (length (s_calls (p_st ps)))).
      destruct (apply_effect_frame (st_id a) fa ps (st_id b)) as [Fb1 Fb2]; [congruence|].
      destruct (apply_effect_frame (st_id b) fb ps (st_id a)) as [Fa1 Fa2]; [congruence|].
      rewrite Hb in Fb1. rewrite Ha in Fa1.
      rewrite (exec_some e _ b ib Fb1), (exec_some e _ a ia Fa1), Fb2, Fa2.
      eapply peq_trans.
      + apply apply_effect_congr; [|apply peq_refl].
        apply (effect_of_local e b ib (p_pend ps (st_id b)) _ (length (s_calls (p_st ps))) L).
      + fold fb. eapply peq_trans.
        * apply apply_effect_comm; [exact D| |]; apply effect_of_owned.
        * apply apply_effect_congr; [|apply peq_refl].
          apply (effect_of_local e a ia (p_pend ps (st_id a)) (length (s_calls (p_st ps))) _ L).
    - rewrite (exec_none e ps b Hb).
      rewrite (exec_some e ps a ia Ha).
      set (fa := effect_of e a ia (p_pend ps (st_id a)) (length (s_calls (p_st ps)))).
      destruct (apply_effect_frame (st_id a) fa ps (st_id b)) as [Fb1 _]; [congruence|].
      rewrite Hb in Fb1. rewrite (exec_none e _ b Fb1). apply peq_refl.
    - rewrite (exec_none e ps a Ha).
      rewrite (exec_some e ps b ib Hb).
      set (fb := effect_of e b ib (p_pend ps (st_id b)) (length (s_calls (p_st ps)))).
      destruct (apply_effect_frame (st_id b) fb ps (st_id a)) as [Fa1 _]; [congruence|].
      rewrite Ha in Fa1. rewrite (exec_none e _ a Fa1). apply peq_refl.
    - rewrite (exec_none e ps a Ha), (exec_none e ps b Hb), (exec_none e ps a Ha). apply peq_refl.
  Qed.

  (* ------------------------------------------------------------------ executions *)
  Lemma run_app e a b ps : run e (a ++ b) ps = run e b (run e a ps).
  Proof. unfold Parallel.run. apply fold_left_app. Qed.

  Lemma run_congr e tr : forall a b, peq a b -> peq (run e tr a) (run e tr b).
  Proof.
    induction tr as [|s tr IH]; intros a b H; [exact H|]. cbn. apply IH. apply exec_congr. exact H.
  Qed.

  (* a step that commutes with every step of `pre` may be executed after them *)
  Lemma commute_past e x : local_env e -> forall pre ps, Forall (fun y => st_id y <> st_id x) pre ->
    peq (run e (x :: pre) ps) (run e (pre ++ [x]) ps).
  Proof.
    intros L. induction pre as [|y pre IH]; intros ps F; [apply peq_refl|].
    inversion F as [|? ? D F']; subst.
    change (run e (x :: y :: pre) ps) with (run e pre (exec e (exec e ps x) y)).
    change (run e ((y :: pre) ++ [x]) ps) with (run e (pre ++ [x]) (exec e ps y)).
    eapply peq_trans; [|apply IH; exact F'].
    change (run e (x :: pre) (exec e ps y)) with (run e pre (exec e (exec e ps y) x)).
    apply run_congr. apply steps_commute; [exact L|congruence].
  Qed.

  (* every list of the family belongs to one design, and the designs are pairwise distinct *)
  Definition owned (ids : list nat) (ls : list (list step)) : Prop :=
    Forall2 (fun id l => Forall (fun s => st_id s = id) l) ids ls.

  Theorem interleaving_serial e : local_env e -> forall ls tr, merge ls tr ->
    forall ids, owned ids ls -> NoDup ids -> forall ps, peq (run e tr ps) (run e (concat ls) ps).
  Proof.
    intros L ls tr M. induction M as [ls F|l1 x l l2 tr M IH]; intros ids O ND ps.
    - rewrite (concat_all_nil _ F). apply peq_refl.
    - unfold owned in O. apply Forall2_app_inv_r in O. destruct O as (ids1 & idsr & O1 & Or & ->).
      inversion Or as [|idk ? ids2 ? Ok O2]; subst. inversion Ok as [|? ? Xid Ol]; subst.
      assert (O' : owned (ids1 ++ st_id x :: ids2) (l1 ++ l :: l2)).
      { apply Forall2_app; [exact O1|]. constructor; assumption. }
      change (run e (x :: tr) ps) with (run e tr (exec e ps x)).
      eapply peq_trans; [apply (IH _ O' ND)|].
      rewrite !concat_app. cbn [concat]. rewrite <- ?app_assoc.
      change (run e (concat l1 ++ l ++ concat l2) (exec e ps x))
        with (run e ((x :: concat l1) ++ l ++ concat l2) ps).
      change (concat l1 ++ (x :: l) ++ concat l2) with (concat l1 ++ [x] ++ l ++ concat l2).
      rewrite (app_assoc (concat l1) [x]). rewrite !(run_app e _ (l ++ concat l2)).
      apply run_congr. apply commute_past; [exact L|].
      apply NoDup_remove_2 in ND.
      clear - O1 ND. revert l1 O1 ND. induction ids1 as [|i ids1 IH]; intros l1 O1 ND.
      + inversion O1; subst. constructor.
      + inversion O1 as [|? l0 ? l1' Hl O1']; subst. cbn. apply Forall_app. split.
        * eapply Forall_impl; [|exact Hl]. cbn. intros s E X. apply ND. left. congruence.
        * apply IH; [exact O1'|]. intros X. apply ND. right. exact X.
  Qed.

  (* ------------------------------------------------------------------ bridge to Model/Job.v *)
  Lemma attempt_steps_ids (e : env) id : forall fuel att i, Forall (fun s => st_id s = id) (attempt_steps e id fuel att i).
  Proof.
    induction fuel as [|fuel IH]; intros att i; cbn [attempt_steps]; [constructor|].
    repeat (constructor; [reflexivity|]).
    destruct (e_obj e _); repeat (constructor; [reflexivity|]); [constructor|apply IH|constructor].
  Qed.

  Lemma task_steps_ids (e : env) (heap : list ind) id : Forall (fun s => st_id s = id) (task_steps e heap id).
  Proof.
    unfold task_steps. destruct (nth_error heap id) as [i|]; [|constructor].
    destruct (istate i); [apply attempt_steps_ids|constructor..].
  Qed.

  Lemma par_tasks_owned (e : env) (heap : list ind) batch : owned batch (par_tasks e heap batch).
  Proof.
    unfold owned, par_tasks. induction batch as [|id batch IH]; cbn; constructor; [apply task_steps_ids|exact IH].
  Qed.

  (* the state a thread sees while Job.evaluate works on the individual `i` of design `id`: Job.v keeps
     `i` apart from the heap until the job ends, the small steps write through *)
  Definition with_ind (st : state) (id : nat) (i : ind) : state := set_heap st (upd (s_heap st) id i).

  Definition mkst (h : list ind) (pop : list nat) (fl : list ind) (sto : list (nat * ind)) (cl : list call) : state :=
    {| s_heap := h; s_pop := pop; s_failed := fl; s_store := sto; s_calls := cl |}.
  Definition mkps (st : state) (pd : nat -> option (pending T)) : pstate := {| p_st := st; p_pend := pd |}.

  Lemma run_cons e s tr ps : run e (s :: tr) ps = run e tr (exec e ps s).
  Proof. reflexivity. Qed.

  Lemma exec_own e id att k h pop fl sto cl pd i : id < length h ->
    exec e (mkps (mkst (upd h id i) pop fl sto cl) pd) (mkstep id att k) =
    apply_effect id (effect_of e (mkstep id att k) i (pd id) (length cl)) (mkps (mkst (upd h id i) pop fl sto cl) pd).
  Proof.
    intros Lt. unfold Parallel.exec. cbn [p_st mkps mkst s_heap s_calls st_id mkstep p_pend].
    rewrite (nth_error_upd_same h id i Lt). reflexivity.
  Qed.

  Local Ltac eff := unfold Parallel.effect_of, Parallel.apply_effect, mkps, mkst;
    cbn [st_kind st_id st_att mkstep f_ind f_call f_failed f_store f_pend p_st p_pend s_heap s_pop s_failed s_store s_calls
         Parallel.opt_app option_map ivec icosts isigned ifeas istate iprec no_effect]; rewrite ?upd_upd.

  Lemma exec_start e id att h pop fl sto cl pd i : id < length h ->
    exec e (mkps (mkst (upd h id i) pop fl sto cl) pd) (mkstep id att KStart) =
    mkps (mkst (upd h id {| ivec := ivec i; icosts := icosts i; isigned := isigned i; istate := InProgress;
                            ifeas := feasible_of ltb zero (ifeas i) (e_cons e (ivec i)); iprec := iprec i |}) pop fl sto cl) pd.
  Proof. intros Lt. rewrite (exec_own e id att KStart h pop fl sto cl pd i Lt). eff. reflexivity. Qed.

  Lemma exec_obj e id att h pop fl sto cl pd i : id < length h ->
    let c := {| c_no := length cl; c_id := id; c_att := att; c_vec := ivec i |} in
    exec e (mkps (mkst (upd h id i) pop fl sto cl) pd) (mkstep id att KObj) =
    mkps (mkst (upd h id i) pop fl sto (cl ++ [c]))
         (fun k => if k =? id then Some (e_obj e c, e_reroll e c) else pd k).
  Proof. intros Lt c. rewrite (exec_own e id att KObj h pop fl sto cl pd i Lt). eff. reflexivity. Qed.

  Lemma exec_write e id att h pop fl sto cl pd i costs v : id < length h -> pd id = Some (Ok costs, v) ->
    exec e (mkps (mkst (upd h id i) pop fl sto cl) pd) (mkstep id att KWrite) =
    mkps (mkst (upd h id {| ivec := ivec i; icosts := costs;
                            isigned := Some (signed_costs roundp smul (iprec i) (e_signs e) costs (ifeas i));
                            istate := Evaluated; ifeas := ifeas i; iprec := iprec i |}) pop fl sto cl) pd.
  Proof. intros Lt P. rewrite (exec_own e id att KWrite h pop fl sto cl pd i Lt). eff. rewrite P. eff. reflexivity. Qed.

  Lemma exec_sync e id att h pop fl sto cl pd i : id < length h ->
    exec e (mkps (mkst (upd h id i) pop fl sto cl) pd) (mkstep id att KSync) =
    mkps (mkst (upd h id i) pop fl (sto ++ [(id, i)]) cl) pd.
  Proof. intros Lt. rewrite (exec_own e id att KSync h pop fl sto cl pd i Lt). eff. reflexivity. Qed.

  Lemma exec_fail e id att h pop fl sto cl pd i v : id < length h -> pd id = Some (Transient, v) ->
    exec e (mkps (mkst (upd h id i) pop fl sto cl) pd) (mkstep id att KFail) =
    mkps (mkst (upd h id {| ivec := ivec i; icosts := icosts i; isigned := isigned i; istate := istate i; ifeas := false;
                            iprec := iprec i |})
               pop (fl ++ [mk_failed (ivec i)]) sto cl) pd.
  Proof. intros Lt P. rewrite (exec_own e id att KFail h pop fl sto cl pd i Lt). eff. rewrite P. eff. reflexivity. Qed.

  Lemma exec_reroll e id att h pop fl sto cl pd i v : id < length h -> pd id = Some (Transient, v) ->
    exec e (mkps (mkst (upd h id i) pop fl sto cl) pd) (mkstep id att KReroll) =
    mkps (mkst (upd h id {| ivec := v; icosts := icosts i; isigned := isigned i; istate := Empty; ifeas := ifeas i;
                            iprec := iprec i |})
               pop fl sto cl) pd.
  Proof. intros Lt P. rewrite (exec_own e id att KReroll h pop fl sto cl pd i Lt). eff. rewrite P. eff. reflexivity. Qed.

  Lemma attempts_bridge (e : env) id : local_env e -> forall fuel att i st ps,
    id < length (s_heap st) -> p_st ps = with_ind st id i ->
    p_st (run e (attempt_steps e id fuel att i) ps) =
      (let '(i', st', _) := attempts e id fuel att i st in with_ind st' id i').
  Proof.
    intros L. induction fuel as [|fuel IH]; intros att i st ps Lt P.
    - cbn. exact P.
    - cbn [attempt_steps Job.attempts]. unfold Job.attempt.
      set (c0 := {| c_no := 0; c_id := id; c_att := att; c_vec := ivec i |}).
      set (c := next_call st id att (ivec i)).
      destruct (L c0 c eq_refl eq_refl eq_refl) as [EO ER].
      destruct ps as [pst pd]. cbn [p_st] in P. subst pst.
      destruct st as [h pop fl sto cl]. cbn [s_heap] in Lt.
      change (with_ind {| s_heap := h; s_pop := pop; s_failed := fl; s_store := sto; s_calls := cl |} id i)
        with (mkst (upd h id i) pop fl sto cl).
      change {| p_st := mkst (upd h id i) pop fl sto cl; p_pend := pd |} with (mkps (mkst (upd h id i) pop fl sto cl) pd).
      rewrite !run_cons, (exec_start e id att h pop fl sto cl pd i Lt).
      rewrite (exec_obj e id att h pop fl sto cl pd _ Lt). cbn [ivec].
      change {| c_no := length cl; c_id := id; c_att := att; c_vec := ivec i |} with c.
      rewrite EO, ER.
      set (pd' := fun k => if k =? id then Some (e_obj e c, e_reroll e c) else pd k).
      assert (PD : pd' id = Some (e_obj e c, e_reroll e c)) by (unfold pd'; rewrite Nat.eqb_refl; reflexivity).
      destruct (e_obj e c) as [costs| |k] eqn:O.
      + rewrite !run_cons, (exec_write e id att h pop fl sto (cl ++ [c]) pd' _ costs _ Lt PD).
        rewrite (exec_sync e id att h pop fl sto (cl ++ [c]) pd' _ Lt). reflexivity.
      + rewrite !run_cons, (exec_fail e id att h pop fl sto (cl ++ [c]) pd' _ _ Lt PD).
        rewrite (exec_reroll e id att h pop (fl ++ [mk_failed (ivec i)]) sto (cl ++ [c]) pd' _ _ Lt PD).
        cbn [ivec icosts isigned ifeas iprec].
        apply (IH (S att) _ (mkst h pop (fl ++ [mk_failed (ivec i)]) sto (cl ++ [c]))); [exact Lt|reflexivity].
      + reflexivity.
  Qed.

  Lemma job_bridge (e : env) id st i ps : local_env e ->
    nth_error (s_heap st) id = Some i -> istate i = Empty -> p_st ps = st ->
    p_st (run e (attempt_steps e id 5 0 i) ps) = fst (job_evaluate e st id).
  Proof.
    intros L H E P.
    assert (Lt : id < length (s_heap st)) by (apply nth_error_Some; congruence).
    assert (P' : p_st ps = with_ind st id i).
    { unfold with_ind. rewrite (upd_same _ _ _ H). rewrite P. destruct st; reflexivity. }
    rewrite (attempts_bridge e id L 5 0 i st ps Lt P').
    unfold Job.job_evaluate. rewrite H, E.
    destruct (attempts e id 5 0 i st) as [[i' st'] r]. reflexivity.
  Qed.

  (* the small steps of the tasks, executed task after task in submission order, are evaluate_serial *)
  Theorem serial_steps_is_job_evaluate (e : env) : local_env e -> forall batch heap0 st ps st',
    NoDup batch -> p_st ps = st ->
    (forall id, In id batch -> nth_error (s_heap st) id = nth_error heap0 id) ->
    evaluate_serial e st batch = (st', Done) ->
    p_st (run e (concat (par_tasks e heap0 batch)) ps) = st'.
  Proof.
    intros L. induction batch as [|id rest IH]; intros heap0 st ps st' ND P Same E.
    - cbn in *. inversion E; subst. reflexivity.
    - inversion ND as [|? ? NI ND']; subst.
      cbn [par_tasks map concat]. rewrite run_app. cbn [Job.evaluate_serial] in E.
      unfold task_steps. rewrite <- (Same id (or_introl eq_refl)).
      assert (Same' : forall st1, (forall k, k <> id -> nth_error (s_heap st1) k = nth_error (s_heap (p_st ps)) k) ->
                forall k, In k rest -> nth_error (s_heap st1) k = nth_error heap0 k).
      { intros st1 Fr k IN. rewrite Fr; [apply Same; right; exact IN|]. intros X. subst. contradiction. }
      destruct (nth_error (s_heap (p_st ps)) id) as [i|] eqn:H.
      + destruct (istate i) eqn:S.
        * destruct (job_evaluate e (p_st ps) id) as [st1 r] eqn:J.
          assert (r = Done) as ->.
          { destruct r; [reflexivity| |]; inversion E. }
          pose proof (job_bridge e id (p_st ps) i ps L H S eq_refl) as B. rewrite J in B. cbn [fst] in B.
          apply (IH heap0 st1 _ st' ND' B); [|exact E].
          apply Same'. intros k D.
          destruct (job_frame T ltb zero roundp smul e (p_st ps) id st1 Done J) as (_ & _ & _ & _ & _ & _ & Fr & _).
          apply Fr. exact D.
        * apply (IH heap0 (p_st ps) ps st' ND' eq_refl); [|exact E]. apply Same'. auto.
        * apply (IH heap0 (p_st ps) ps st' ND' eq_refl); [|exact E]. apply Same'. auto.
        * apply (IH heap0 (p_st ps) ps st' ND' eq_refl); [|exact E]. apply Same'. auto.
      + apply (IH heap0 (p_st ps) ps st' ND' eq_refl); [|exact E]. apply Same'. auto.
  Qed.

  (* ------------------------------------------------------------------ C07: every interleaving = evaluate_serial *)
  Theorem parallel_equals_evaluate_serial (e : env) : local_env e -> forall batch st st' tr,
    NoDup batch -> evaluate_serial e st batch = (st', Done) ->
    merge (par_tasks e (s_heap st) batch) tr ->
    same_obs (p_st (run e tr (lift st))) st'.
  Proof.
    intros L batch st st' tr ND E M.
    destruct (interleaving_serial e L _ _ M batch (par_tasks_owned e (s_heap st) batch) ND (lift st)) as [H _].
    rewrite (serial_steps_is_job_evaluate e L batch (s_heap st) st (lift st) st' ND eq_refl (fun _ _ => eq_refl) E) in H.
    exact H.
  Qed.

  (* ------------------------------------------------------------------ exactly one successful call per design *)
  Definition ok_stripped (e : env) (x : nat * nat * list T) : bool :=
    match e_obj e {| c_no := 0; c_id := fst (fst x); c_att := snd (fst x); c_vec := snd x |} with
    | Ok _ => true
    | _ => false
    end.

  Lemma ok_b_strip (e : env) c : local_env e -> ok_b e c = ok_stripped e (strip c).
  Proof.
    intros L. unfold ok_b, ok_stripped, strip. cbn [fst snd].
    destruct (L c {| c_no := 0; c_id := c_id c; c_att := c_att c; c_vec := c_vec c |} eq_refl eq_refl eq_refl) as [-> _].
    reflexivity.
  Qed.

  Lemma okc_strip (e : env) id l : local_env e -> map (@strip T) (okc e id l) = filter (ok_stripped e) (calls_by id l).
  Proof.
    intros L. unfold okc, calls_by. induction l as [|c l IH]; [reflexivity|]. cbn [filter].
    destruct (c_id c =? id); cbn [andb map filter]; [|exact IH].
    rewrite <- (ok_b_strip e c L). destruct (ok_b e c); cbn [map]; [f_equal|]; exact IH.
  Qed.

  Theorem objective_once (e : env) : local_env e -> forall batch st st' tr,
    NoDup batch -> s_calls st = [] -> evaluate_serial e st batch = (st', Done) ->
    merge (par_tasks e (s_heap st) batch) tr ->
    forall id i, nth_error (s_heap st) id = Some i ->
      (istate i = Empty -> In id batch -> length (okc e id (s_calls (p_st (run e tr (lift st))))) = 1) /\
      (istate i <> Empty \/ ~ In id batch -> calls_by id (s_calls (p_st (run e tr (lift st)))) = []).
  Proof.
    intros L batch st st' tr ND C0 E M id i H.
    destruct (parallel_equals_evaluate_serial e L batch st st' tr ND E M) as (_ & _ & _ & _ & _ & HC & _).
    destruct (evaluate_once T ltb zero roundp smul e st batch st' E) as (cs & C & Q).
    rewrite C0 in C. cbn [app] in C.
    destruct (Q id i H) as (i' & _ & Q1 & Q2). split.
    - intros Em IN. destruct (Q1 Em IN) as (c & costs & OK & _).
      rewrite <- (map_length (@strip T)), (okc_strip e id _ L), HC, C, <- (okc_strip e id _ L), map_length, OK. reflexivity.
    - intros Hyp. destruct (Q2 Hyp) as [_ Z]. rewrite HC, C. unfold calls_by. unfold calls_of in Z. rewrite Z. reflexivity.
  Qed.

  (* ------------------------------------------------------------------ every evaluated design is persisted *)
  Lemma row_of_last id (l : list (nat * ind)) i : row_of id (l ++ [(id, i)]) = Some i.
  Proof.
    unfold row_of. rewrite syncs_by_app. unfold syncs_by at 2. cbn [filter fst]. rewrite Nat.eqb_refl.
    rewrite rev_app_distr. reflexivity.
  Qed.

  Lemma row_of_other id (l l' : list (nat * ind)) : Forall (fun p => fst p <> id) l' -> row_of id (l ++ l') = row_of id l.
  Proof.
    intros F. unfold row_of. rewrite syncs_by_app.
    replace (syncs_by id l') with (@nil (nat * ind)); [rewrite app_nil_r; reflexivity|].
    symmetry. unfold syncs_by. induction F as [|p l' D _ IH]; [reflexivity|]. cbn [filter].
    apply Nat.eqb_neq in D. rewrite D. exact IH.
  Qed.

  Lemma job_store_frame (e : env) st id st' r : job_evaluate e st id = (st', r) ->
    exists l, s_store st' = s_store st ++ l /\ Forall (fun p => fst p = id) l.
  Proof.
    intros J. destruct (nth_error (s_heap st) id) as [i|] eqn:H.
    - destruct (dstate_eqb (istate i) Evaluated) eqn:S.
      + assert (Ev : istate i = Evaluated) by (destruct (istate i); try discriminate; reflexivity).
        rewrite (job_skip T ltb zero roundp smul e st id i H Ev) in J. inversion J; subst.
        exists []. rewrite app_nil_r. split; [reflexivity|constructor].
      + assert (NE : istate i <> Evaluated) by (intros X; rewrite X in S; discriminate).
        destruct (job_spec T ltb zero roundp smul e st id i st' r H NE J) as (cs & i' & _ & _ & _ & _ & Post).
        unfold attempts_post in Post. destruct r as [| |k].
        * destruct Post as (pre & c & costs & _ & _ & _ & _ & _ & _ & S').
          exists [(id, i')]. split; [exact S'|]. constructor; [reflexivity|constructor].
        * destruct Post as (_ & _ & _ & S' & _). exists []. rewrite app_nil_r. split; [exact S'|constructor].
        * destruct Post as (pre & c & _ & _ & _ & _ & _ & S' & _). exists []. rewrite app_nil_r. split; [exact S'|constructor].
    - rewrite (job_invalid T ltb zero roundp smul e st id H) in J. inversion J; subst.
      exists []. rewrite app_nil_r. split; [reflexivity|constructor].
  Qed.

  Lemma serial_store_frame (e : env) : forall batch st st' r, evaluate_serial e st batch = (st', r) ->
    exists l, s_store st' = s_store st ++ l /\ Forall (fun p => In (fst p) batch) l.
  Proof.
    induction batch as [|id rest IH]; intros st st' r E; cbn [Job.evaluate_serial] in E.
    - inversion E; subst. exists []. rewrite app_nil_r. split; [reflexivity|constructor].
    - assert (Skip : evaluate_serial e st rest = (st', r) ->
                exists l, s_store st' = s_store st ++ l /\ Forall (fun p => In (fst p) (id :: rest)) l).
      { intros E'. destruct (IH st st' r E') as (l & S & F). exists l. split; [exact S|].
        eapply Forall_impl; [|exact F]. cbn. intros p IN. right. exact IN. }
      destruct (nth_error (s_heap st) id) as [i|]; [|apply Skip; exact E].
      destruct (istate i); try (apply Skip; exact E).
      destruct (job_evaluate e st id) as [st1 r1] eqn:J.
      destruct (job_store_frame e st id st1 r1 J) as (l1 & S1 & F1).
      assert (F1' : Forall (fun p : nat * ind => In (fst p) (id :: rest)) l1).
      { eapply Forall_impl; [|exact F1]. cbn. intros p X. left. congruence. }
      destruct r1.
      + destruct (IH st1 st' r E) as (l & S & F). exists (l1 ++ l). rewrite S, S1, app_assoc. split; [reflexivity|].
        apply Forall_app. split; [exact F1'|]. eapply Forall_impl; [|exact F]. cbn. intros p IN. right. exact IN.
      + inversion E; subst. exists l1. split; assumption.
      + inversion E; subst. exists l1. split; assumption.
  Qed.

  Lemma serial_persisted (e : env) : forall batch st st', NoDup batch -> evaluate_serial e st batch = (st', Done) ->
    forall id i, In id batch -> nth_error (s_heap st) id = Some i -> istate i = Empty ->
    exists i', nth_error (s_heap st') id = Some i' /\ row_of id (s_store st') = Some i' /\ istate i' = Evaluated.
  Proof.
    induction batch as [|id0 rest IH]; intros st st' ND E id i IN H Em; [destruct IN|].
    inversion ND as [|? ? NI ND']; subst. cbn [Job.evaluate_serial] in E.
    destruct (Nat.eq_dec id0 id) as [->|D].
    - rewrite H, Em in E. destruct (job_evaluate e st id) as [st1 r1] eqn:J.
      assert (r1 = Done) as -> by (destruct r1; [reflexivity| |]; inversion E).
      assert (NE : istate i <> Evaluated) by congruence.
      destruct (job_spec T ltb zero roundp smul e st id i st1 Done H NE J) as (cs & i' & _ & Hh & _ & _ & Post).
      unfold attempts_post in Post. destruct Post as (pre & c & costs & _ & _ & _ & _ & _ & I' & S').
      assert (Lt : id < length (s_heap st)) by (apply nth_error_Some; congruence).
      exists i'. split; [|split].
      + rewrite (serial_untouched T ltb zero roundp smul e rest st1 st' Done id E NI), Hh.
        apply nth_error_upd_same. exact Lt.
      + destruct (serial_store_frame e rest st1 st' Done E) as (l & S & F). rewrite S, S'.
        rewrite row_of_other; [apply row_of_last|].
        eapply Forall_impl; [|exact F]. cbn. intros p X Y. rewrite Y in X. contradiction.
      + rewrite I'. reflexivity.
    - destruct IN as [X|IN]; [contradiction|].
      assert (Next : forall st1, nth_error (s_heap st1) id = Some i -> evaluate_serial e st1 rest = (st', Done) ->
                exists i', nth_error (s_heap st') id = Some i' /\ row_of id (s_store st') = Some i' /\ istate i' = Evaluated).
      { intros st1 H1 E1. exact (IH st1 st' ND' E1 id i IN H1 Em). }
      destruct (nth_error (s_heap st) id0) as [i0|] eqn:H0; [|apply (Next st H E)].
      destruct (istate i0); try (apply (Next st H E)).
      destruct (job_evaluate e st id0) as [st1 r1] eqn:J.
      assert (r1 = Done) as -> by (destruct r1; [reflexivity| |]; inversion E).
      apply (Next st1); [|exact E].
      destruct (job_frame T ltb zero roundp smul e st id0 st1 Done J) as (_ & _ & _ & _ & _ & _ & Fr & _).
      rewrite Fr; [exact H|congruence].
  Qed.

  Theorem evaluated_design_persisted (e : env) : local_env e -> forall batch st st' tr,
    NoDup batch -> evaluate_serial e st batch = (st', Done) ->
    merge (par_tasks e (s_heap st) batch) tr ->
    forall id i, In id batch -> nth_error (s_heap st) id = Some i -> istate i = Empty ->
    exists i', nth_error (s_heap (p_st (run e tr (lift st)))) id = Some i' /\
               row_of id (s_store (p_st (run e tr (lift st)))) = Some i' /\ istate i' = Evaluated.
  Proof.
    intros L batch st st' tr ND E M id i IN H Em.
    destruct (parallel_equals_evaluate_serial e L batch st st' tr ND E M) as (HH & _ & _ & HS & _).
    destruct (serial_persisted e batch st st' ND E id i IN H Em) as (i' & A & B & C).
    exists i'. unfold row_of. rewrite HH, HS. auto.
  Qed.

  (* the costs a design ends with are the objective's value for the vector it ends with, and that call
     was made (for this design) in the interleaved run *)
  Theorem parallel_costs_belong_to_vector (e : env) : local_env e -> forall batch st st' tr,
    NoDup batch -> s_calls st = [] -> evaluate_serial e st batch = (st', Done) ->
    merge (par_tasks e (s_heap st) batch) tr ->
    forall id i, In id batch -> nth_error (s_heap st) id = Some i -> istate i = Empty ->
    exists i' c costs, nth_error (s_heap (p_st (run e tr (lift st)))) id = Some i' /\
      In (strip c) (calls_by id (s_calls (p_st (run e tr (lift st))))) /\
      e_obj e c = Ok costs /\ c_vec c = ivec i' /\ icosts i' = costs /\ istate i' = Evaluated.
  Proof.
    intros L batch st st' tr ND C0 E M id i IN H Em.
    destruct (parallel_equals_evaluate_serial e L batch st st' tr ND E M) as (HH & _ & _ & _ & _ & HC & _).
    destruct (evaluate_once T ltb zero roundp smul e st batch st' E) as (cs & C & Q).
    rewrite C0 in C. cbn [app] in C.
    destruct (Q id i H) as (i' & A & Q1 & _). destruct (Q1 Em IN) as (c & costs & OK & B1 & B2 & B3 & B4).
    exists i', c, costs. rewrite HH, HC, C. repeat split; auto.
    assert (X : In c (okc e id cs)) by (rewrite OK; left; reflexivity).
    unfold okc in X. apply filter_In in X. destruct X as [X1 X2]. apply andb_prop in X2. destruct X2 as [X2 _].
    unfold calls_by. apply in_map. apply filter_In. split; assumption.
  Qed.

  (* ------------------------------------------------------------------ refused store writes are invisible *)
  Notation xrun := (xrun ltb zero roundp smul).

  Lemma xrun_erase (e : env) : forall tr ps, xrun e tr ps = run e (erase tr) ps.
  Proof.
    induction tr as [|[s|id att] tr IH]; intros ps; cbn; [reflexivity| |]; apply IH.
  Qed.

  (* any number of refused write attempts, anywhere in the interleaving, as long as every write goes through in the
     end (the execution without them is a complete interleaving of the tasks): same observation as evaluate_serial *)
  Theorem refused_writes_invisible (e : env) : local_env e -> forall batch st st' xtr,
    NoDup batch -> evaluate_serial e st batch = (st', Done) ->
    merge (par_tasks e (s_heap st) batch) (erase xtr) ->
    same_obs (p_st (xrun e xtr (lift st))) st'.
  Proof.
    intros L batch st st' xtr ND E M. rewrite xrun_erase.
    exact (parallel_equals_evaluate_serial e L batch st st' (erase xtr) ND E M).
  Qed.

  Theorem refused_writes_once_and_persisted (e : env) : local_env e -> forall batch st st' xtr,
    NoDup batch -> s_calls st = [] -> evaluate_serial e st batch = (st', Done) ->
    merge (par_tasks e (s_heap st) batch) (erase xtr) ->
    Permutation (s_failed (p_st (xrun e xtr (lift st)))) (s_failed st') /\
    forall id i, In id batch -> nth_error (s_heap st) id = Some i -> istate i = Empty ->
      length (okc e id (s_calls (p_st (xrun e xtr (lift st))))) = 1 /\
      exists i', nth_error (s_heap (p_st (xrun e xtr (lift st)))) id = Some i' /\
                 row_of id (s_store (p_st (xrun e xtr (lift st)))) = Some i' /\ istate i' = Evaluated.
  Proof.
    intros L batch st st' xtr ND C0 E M. rewrite xrun_erase. split.
    - exact (proj1 (proj2 (proj2 (parallel_equals_evaluate_serial e L batch st st' (erase xtr) ND E M)))).
    - intros id i IN H Em. split.
      + exact (proj1 (objective_once e L batch st st' (erase xtr) ND C0 E M id i H) Em IN).
      + exact (evaluated_design_persisted e L batch st st' (erase xtr) ND E M id i IN H Em).
  Qed.
End ParallelFacts.

Arguments peq {T} a b.
Arguments same_obs {T} a b.
Arguments ok_stripped {T} e x.
