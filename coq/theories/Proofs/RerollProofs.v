(* C06: the replacement design is sampled parameter by parameter, each coordinate from the keys of ITS OWN
   description (Model/Reroll.v), hence - composing with C08's gen_number / gen_vector theorems
   (Proofs/VariationProofs.v, read-only) - every coordinate lies in its own parameter's box up to half of its
   own precision step (the default 1e-12 when the parameter declares none). *)
From Coq Require Import List Bool ZArith QArith Qround Qabs Lia Lqa.
From Artap Require Import Model.Variation Proofs.VariationProofs Model.Reroll.
Import ListNotations.
Local Open Scope Q_scope.

Definition unit_draw (r : Q) : Prop := 0 <= r /\ r < 1.

(* a description gen_vector can sample from: ordered bounds, non-negative precision *)
Definition pd_wf (d : pdesc) : Prop := pd_lb d <= pd_ub d /\ 0 <= pd_step d.

Lemma pd_wf_q_wf d : pd_wf d -> q_wf (spec_of d).
Proof. intros H. exact H. Qed.

(* --- coordinate k is computed from description k and draw k alone ------------------------------------- *)
Lemma gen_vector_desc_coordinatewise : forall ds draws v,
  gen_vector_desc ds draws = Some v ->
  length v = length ds /\ length draws = length ds /\
  forall k d r, nth_error ds k = Some d -> nth_error draws k = Some r -> nth_error v k = Some (gen_coord d r).
Proof.
  induction ds as [|d ds IH]; intros draws v H.
  - destruct draws; [|discriminate]. inversion H; subst. repeat split; try reflexivity.
    intros k d r Hd. destruct k; discriminate.
  - destruct draws as [|r rs]; [discriminate|]. cbn in H.
    destruct (gen_vector_desc ds rs) as [l|] eqn:E; [|discriminate]. inversion H; subst.
    destruct (IH _ _ E) as (L1 & L2 & N). repeat split; cbn; try congruence.
    intros k d0 r0 Hd Hr. destruct k as [|k]; cbn in *.
    + inversion Hd; inversion Hr; subst. reflexivity.
    + exact (N k d0 r0 Hd Hr).
Qed.

Lemma gen_vector_desc_total : forall ds draws, length draws = length ds -> exists v, gen_vector_desc ds draws = Some v.
Proof.
  induction ds as [|d ds IH]; intros [|r rs] L; try discriminate.
  - exists []. reflexivity.
  - cbn in L. destruct (IH rs ltac:(congruence)) as [v E]. exists (gen_coord d r :: v). cbn. rewrite E. reflexivity.
Qed.

(* --- real-valued parameters: gen_vector_desc IS C08's gen_vector on each parameter's own (lb, ub, precision) - *)
Lemma gen_vector_desc_real : forall ds draws,
  Forall (fun d => truncates d = false) ds ->
  gen_vector_desc ds draws = gen_vector (map spec_of ds) draws.
Proof.
  induction ds as [|d ds IH]; intros draws F.
  - destruct draws; reflexivity.
  - inversion F as [|? ? Hd F']; subst. destruct draws as [|r rs]; [reflexivity|].
    cbn. rewrite (IH rs F'). unfold gen_coord. rewrite Hd. reflexivity.
Qed.

(* --- int(): truncation towards zero ----------------------------------------------------------------------- *)
Lemma Qtrunc_near x : Qabs (inject_Z (Qtrunc x) - x) < 1.
Proof.
  unfold Qtrunc. apply Qabs_Qlt_condition.
  pose proof (Qfloor_le x) as A. pose proof (Qlt_floor x) as B.
  pose proof (Qle_ceiling x) as C. pose proof (Qceiling_lt x) as D.
  rewrite inject_Z_plus in B. change (inject_Z 1) with 1 in B.
  unfold Z.sub in D. rewrite inject_Z_plus, inject_Z_opp in D. change (inject_Z 1) with 1 in D.
  destruct (Qle_bool 0 x); split; lra.
Qed.

Lemma Qfloor_ge_Z (a : Z) x : inject_Z a <= x -> (a <= Qfloor x)%Z.
Proof.
  intros H. pose proof (Qlt_floor x) as B.
  assert (L : inject_Z a < inject_Z (Qfloor x + 1)) by lra.
  rewrite <- Zlt_Qlt in L. lia.
Qed.

Lemma Qceiling_le_Z (b : Z) x : x <= inject_Z b -> (Qceiling x <= b)%Z.
Proof.
  intros H. pose proof (Qceiling_lt x) as D.
  assert (L : inject_Z (Qceiling x - 1) < inject_Z b) by lra.
  rewrite <- Zlt_Qlt in L. lia.
Qed.

(* between integer bounds truncation stays between them *)
Lemma Qtrunc_in_int_box (a b : Z) x : inject_Z a <= x -> x <= inject_Z b -> (a <= Qtrunc x <= b)%Z.
Proof.
  intros A B. unfold Qtrunc. destruct (Qle_bool 0 x) eqn:E.
  - apply Qle_bool_iff in E. split; [exact (Qfloor_ge_Z a x A)|].
    pose proof (Qfloor_le x) as F. assert (L : inject_Z (Qfloor x) <= inject_Z b) by lra.
    rewrite <- Zle_Qle in L. exact L.
  - split; [|exact (Qceiling_le_Z b x B)].
    pose proof (Qle_ceiling x) as C. assert (L : inject_Z a <= inject_Z (Qceiling x)) by lra.
    rewrite <- Zle_Qle in L. exact L.
Qed.

(* --- each coordinate in its own box ------------------------------------------------------------------------ *)
(* real-valued: within half of ITS OWN step of ITS OWN bounds (C08's q_inside on this parameter's triple);
   integer-typed without a precision: an integer less than one away from such a number *)
Definition own_box (d : pdesc) (x : Q) : Prop :=
  if truncates d then
    (exists z, x = inject_Z z) /\
    pd_lb d - effective_precision (pd_step d) / 2 - 1 < x /\ x < pd_ub d + effective_precision (pd_step d) / 2 + 1
  else q_inside (spec_of d) x.

Lemma gen_coord_in_own_box d r : pd_wf d -> unit_draw r -> own_box d (gen_coord d r).
Proof.
  intros [Wb Wp] [R0 R1]. unfold own_box, gen_coord.
  pose proof (gen_number_in_box r (pd_lb d) (pd_ub d) (pd_step d) R0 R1 Wb Wp) as [B1 B2].
  destruct (truncates d).
  - set (x := gen_number r (pd_lb d) (pd_ub d) (pd_step d)) in *.
    pose proof (Qtrunc_near x) as N. apply Qabs_Qlt_condition in N. destruct N as [N1 N2].
    split; [exists (Qtrunc x); reflexivity|]. split; lra.
  - unfold q_inside, spec_of. split; assumption.
Qed.

Theorem gen_vector_desc_in_own_box : forall ds draws v,
  Forall pd_wf ds -> Forall unit_draw draws -> gen_vector_desc ds draws = Some v ->
  length v = length ds /\ Forall2 own_box ds v.
Proof.
  induction ds as [|d ds IH]; intros draws v W D H.
  - destruct draws; [|discriminate]. inversion H; subst. split; [reflexivity|constructor].
  - destruct draws as [|r rs]; [discriminate|]. cbn in H.
    destruct (gen_vector_desc ds rs) as [l|] eqn:E; [|discriminate]. inversion H; subst.
    inversion W as [|? ? Wd W']; subst. inversion D as [|? ? Dr D']; subst.
    destruct (IH _ _ W' D' E) as [L F]. split; [cbn; congruence|].
    constructor; [exact (gen_coord_in_own_box d r Wd Dr)|exact F].
Qed.

(* all parameters real-valued: exactly C08's statement, instantiated with every parameter's own triple *)
Theorem gen_vector_desc_real_in_box : forall ds draws v,
  Forall (fun d => truncates d = false) ds -> Forall pd_wf ds -> Forall unit_draw draws ->
  gen_vector_desc ds draws = Some v ->
  length v = length ds /\ Forall2 q_inside (map spec_of ds) v.
Proof.
  intros ds draws v R W D H. rewrite (gen_vector_desc_real ds draws R) in H.
  assert (W' : Forall q_wf (map spec_of ds)).
  { apply Forall_map. revert W. apply Forall_impl. exact pd_wf_q_wf. }
  destruct (gen_vector_in_box (map spec_of ds) draws v W' D H) as [L F].
  split; [rewrite L; apply map_length|exact F].
Qed.

(* integer-typed parameter with integer bounds: whenever the rounded number itself is inside [lb, ub] (it is
   unless the draw is within half a step - 5e-13 - of a bound), so is the truncated one *)
Lemma gen_coord_int_in_box d r (a b : Z) :
  truncates d = true -> pd_lb d == inject_Z a -> pd_ub d == inject_Z b ->
  pd_lb d <= gen_number r (pd_lb d) (pd_ub d) (pd_step d) <= pd_ub d ->
  pd_lb d <= gen_coord d r <= pd_ub d.
Proof.
  intros Ht Ha Hb [X1 X2]. unfold gen_coord. rewrite Ht.
  set (x := gen_number r (pd_lb d) (pd_ub d) (pd_step d)) in *.
  destruct (Qtrunc_in_int_box a b x) as [T1 T2]; [lra|lra|].
  rewrite Zle_Qle in T1, T2. split; lra.
Qed.

(* --- composition with the retry loop (Proofs/JobProofs.v): the stored vector of a design that was evaluated
       after any number of re-rolls lies, coordinate by coordinate, in its own parameter's box ------------------ *)
From Artap Require Import Model.Job Proofs.JobProofs.

(* every replacement the oracle hands to Job.evaluate is an output of gen_vector on the problem's parameter
   descriptions for some draws of random() in [0, 1) *)
Definition rerolls_from (ds : list pdesc) (e : env Q) : Prop :=
  forall c, exists draws, Forall unit_draw draws /\ gen_vector_desc ds draws = Some (e_reroll e c).

Theorem stored_vector_in_own_box (ltb : Q -> Q -> bool) (zero : Q) (roundp : nat -> Q -> Q) (smul : bool -> Q -> Q)
    (ds : list pdesc) (e : env Q) st id i st' :
  Forall pd_wf ds -> rerolls_from ds e ->
  nth_error (s_heap st) id = Some i -> istate i <> Evaluated ->
  job_evaluate ltb zero roundp smul e st id = (st', Done) ->
  Forall2 own_box ds (ivec i) ->
  exists i', nth_error (s_heap st') id = Some i' /\ Forall2 own_box ds (ivec i').
Proof.
  intros W R H NE E P0.
  apply (stored_vector_invariant Q ltb zero roundp smul e st id i st' (fun v => Forall2 own_box ds v) H NE E P0).
  intros c. destruct (R c) as (draws & D & G).
  exact (proj2 (gen_vector_desc_in_own_box ds draws _ W D G)).
Qed.

(* every call of one job after the first is made with such a replacement: the objective never sees a design
   outside the box either *)
Theorem retried_vectors_in_own_box (ds : list pdesc) (e : env Q) (c : call Q) :
  Forall pd_wf ds -> rerolls_from ds e -> Forall2 own_box ds (e_reroll e c).
Proof.
  intros W R. destruct (R c) as (draws & D & G).
  exact (proj2 (gen_vector_desc_in_own_box ds draws _ W D G)).
Qed.
