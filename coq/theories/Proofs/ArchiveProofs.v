From Coq Require Import List Arith Bool Lia Permutation Sorted.
From Artap Require Import Base.StableSort Model.Archive.
Import ListNotations.

(* ---------- generic list helpers ---------- *)
Section Pairwise.
  Context {A : Type} (R : A -> A -> Prop).
  Fixpoint pairwise (l : list A) : Prop :=
    match l with [] => True | a :: l' => Forall (R a) l' /\ pairwise l' end.

  Lemma pairwise_app l1 l2 :
    pairwise (l1 ++ l2) <-> pairwise l1 /\ pairwise l2 /\ (forall a b, In a l1 -> In b l2 -> R a b).
  Proof.
    induction l1 as [|x l1 IH]; cbn.
    - split; [intros P; repeat split; auto; intros ? ? [] | tauto].
    - rewrite Forall_app, IH. split.
      + intros ((F1 & F2) & P1 & P2 & P3). repeat split; auto.
        intros a b [<-|Ha] Hb; [rewrite Forall_forall in F2; auto | auto].
      + intros ((F1 & P1) & P2 & P3). repeat split; auto.
        apply Forall_forall. intros b Hb. apply P3; auto.
  Qed.

  Lemma pairwise_filter f l : pairwise l -> pairwise (filter f l).
  Proof.
    induction l as [|x l IH]; cbn; [tauto|]. intros (F & P).
    destruct (f x); cbn; [split|]; auto.
    apply Forall_forall. intros y Hy. apply filter_In in Hy as [Hy _].
    rewrite Forall_forall in F. auto.
  Qed.

  Lemma pairwise_split l1 y l2 : pairwise (l1 ++ y :: l2) -> forall z, In z l1 -> R z y.
  Proof.
    rewrite pairwise_app. intros (_ & _ & P) z Hz. apply P; [assumption | left; reflexivity].
  Qed.
End Pairwise.

Lemma sorted_firstn_skipn_gen {A} (R : A -> A -> Prop) : forall l n x y, StronglySorted R l ->
  In x (firstn n l) -> In y (skipn n l) -> R x y.
Proof.
  induction l as [|a l IH]; intros n x y S Hx Hy.
  - destruct n; cbn in Hx; contradiction.
  - destruct n as [|n]; cbn in Hx, Hy; [contradiction|].
    inversion S as [|? ? S' F]; subst. destruct Hx as [<-|Hx].
    + rewrite Forall_forall in F. apply F. eapply in_skipn_in; exact Hy.
    + eapply IH; eauto.
Qed.

Lemma sorted_rev {A} (R : A -> A -> Prop) l :
  StronglySorted R l -> StronglySorted (fun x y => R y x) (rev l).
Proof.
  induction l as [|a l IH]; intros S; cbn; [constructor|].
  inversion S as [|? ? S' F]; subst.
  assert (G : forall l1 : list A, StronglySorted (fun x y => R y x) l1 -> (forall z, In z l1 -> R a z) ->
            StronglySorted (fun x y => R y x) (l1 ++ [a])).
  { induction l1 as [|b l1 IH1]; intros S1 H1; cbn; [constructor; constructor|].
    inversion S1 as [|? ? S1' F1]; subst. constructor.
    - apply IH1; auto. intros z Hz. apply H1. right. assumption.
    - apply Forall_app. split; [assumption|]. constructor; [apply H1; left; reflexivity|constructor]. }
  apply (G (rev l)); [apply IH; assumption|].
  intros z Hz. apply in_rev in Hz. rewrite Forall_forall in F. auto.
Qed.

(* ---------- loop characterisation: no hypothesis on the comparator ---------- *)
Section Arch.
  Context {C : Type} (cmp : C -> C -> nat) (ceq : C -> C -> bool).
  Local Notation add_loop := (add_loop cmp ceq).
  Local Notation archive_add := (archive_add cmp ceq).
  Local Notation archive_adds := (archive_adds cmp ceq).

  Definition stops (x y : C) : bool := match cmp x y with 2 => true | 0 => ceq x y | _ => false end.
  Definition kills (x y : C) : bool := Nat.eqb (cmp x y) 1.

  Fixpoint char (x : C) (snap : list C) : list C * bool * bool :=
    match snap with
    | [] => ([], false, false)
    | y :: snap' =>
        if stops x y then (y :: snap', Nat.eqb (cmp x y) 2, negb (Nat.eqb (cmp x y) 2))
        else let '(l, d, c) := char x snap' in ((if kills x y then [] else [y]) ++ l, d, c)
    end.

  Lemma remove_nth_app (kept : list C) y rest :
    remove_nth (length kept) (kept ++ y :: rest) = kept ++ rest.
  Proof. induction kept; cbn; congruence. Qed.

  Lemma add_loop_char x : forall snap kept index deleted,
    deleted <= index -> index - deleted = length kept ->
    add_loop x snap index deleted (kept ++ snap) =
    let '(l, d, c) := char x snap in (kept ++ l, d, c).
  Proof.
    induction snap as [|y snap IH]; intros kept index deleted Hle Hk; cbn [Archive.add_loop char].
    - reflexivity.
    - unfold stops, kills.
      assert (Hshift : forall deleted', deleted' <= S index -> S index - deleted' = length (kept ++ [y]) ->
                add_loop x snap (S index) deleted' (kept ++ y :: snap) =
                let '(l, d, c) := char x snap in (kept ++ [y] ++ l, d, c)).
      { intros d' H1 H2. replace (kept ++ y :: snap) with ((kept ++ [y]) ++ snap)
          by (rewrite <- app_assoc; reflexivity).
        rewrite IH by assumption. destruct (char x snap) as [[l d] c]. rewrite <- app_assoc. reflexivity. }
      destruct (cmp x y) as [|[|[|n]]] eqn:E; cbn [Nat.eqb].
      + destruct (ceq x y); [reflexivity|].
        rewrite Hshift by (rewrite ?app_length; simpl length; lia).
        destruct (char x snap) as [[l d] c]. reflexivity.
      + rewrite Hk, remove_nth_app. rewrite IH by lia.
        destruct (char x snap) as [[l d] c]. reflexivity.
      + reflexivity.
      + rewrite Hshift by (rewrite ?app_length; simpl length; lia).
        destruct (char x snap) as [[l d] c]. reflexivity.
  Qed.

  Lemma add_char a x :
    archive_add a x = let '(l, d, c) := char x a in if negb d && negb c then (l ++ [x], true) else (l, false).
  Proof.
    unfold Archive.archive_add. destruct a as [|y a']; [reflexivity|].
    change (y :: a') with ([] ++ (y :: a')) at 2.
    rewrite (add_loop_char x (y :: a') [] 0 0 (le_n 0) eq_refl).
    destruct (char x (y :: a')) as [[l d] c]. reflexivity.
  Qed.

  Lemma char_nostop x : forall a, existsb (stops x) a = false ->
    char x a = (filter (fun y => negb (kills x y)) a, false, false).
  Proof.
    induction a as [|y a IH]; cbn; [reflexivity|].
    intros E. apply orb_false_elim in E as [E1 E2]. rewrite E1, (IH E2).
    destruct (kills x y); reflexivity.
  Qed.

  Lemma char_stop x : forall a, existsb (stops x) a = true ->
    exists l1 y l2 d c, a = l1 ++ y :: l2 /\ stops x y = true /\ existsb (stops x) l1 = false /\
      char x a = (filter (fun z => negb (kills x z)) l1 ++ y :: l2, d, c) /\ negb d && negb c = false.
  Proof.
    induction a as [|y a IH]; cbn; [discriminate|].
    destruct (stops x y) eqn:E1.
    - intros _. exists [], y, a, (Nat.eqb (cmp x y) 2), (negb (Nat.eqb (cmp x y) 2)).
      repeat split; auto. destruct (Nat.eqb (cmp x y) 2); reflexivity.
    - cbn. intros E2. destruct (IH E2) as (l1 & y' & l2 & d & c & -> & Hs & Hn & Hc & Hdc).
      exists (y :: l1), y', l2, d, c. repeat split; auto.
      + cbn. rewrite E1, Hn. reflexivity.
      + rewrite Hc. cbn. destruct (kills x y); reflexivity.
  Qed.

  Lemma add_nostop a x : existsb (stops x) a = false ->
    archive_add a x = (filter (fun y => negb (kills x y)) a ++ [x], true).
  Proof. intros E. rewrite add_char, (char_nostop x a E). reflexivity. Qed.

  Lemma add_stop a x : existsb (stops x) a = true ->
    exists l1 y l2, a = l1 ++ y :: l2 /\ stops x y = true /\ existsb (stops x) l1 = false /\
      archive_add a x = (filter (fun z => negb (kills x z)) l1 ++ y :: l2, false).
  Proof.
    intros E. destruct (char_stop x a E) as (l1 & y & l2 & d & c & Ha & Hs & Hn & Hc & Hdc).
    exists l1, y, l2. repeat split; auto. rewrite add_char, Hc, Hdc. reflexivity.
  Qed.

  (* ---------- refinement under the comparator laws ---------- *)
  (* the comparator laws, for well-formed individuals (e.g. cost vectors of the common length) *)
  Record ArchLaws (dom : C -> C -> bool) (wf : C -> Prop) : Prop := {
    al_dom_irrefl : forall x, wf x -> dom x x = false;
    al_dom_trans : forall x y z, wf x -> wf y -> wf z ->
      dom x y = true -> dom y z = true -> dom x z = true;
    al_ceq_refl : forall x, wf x -> ceq x x = true;
    al_ceq_sym : forall x y, wf x -> wf y -> ceq x y = ceq y x;
    al_ceq_trans : forall x y z, wf x -> wf y -> wf z ->
      ceq x y = true -> ceq y z = true -> ceq x z = true;
    al_dom_ceq_l : forall x x' y, wf x -> wf x' -> wf y -> ceq x x' = true -> dom x y = dom x' y;
    al_dom_ceq_r : forall x y y', wf x -> wf y -> wf y' -> ceq y y' = true -> dom x y = dom x y';
    al_cmp_kills : forall x y, wf x -> wf y -> kills x y = dom x y;
    al_cmp_stops : forall x y, wf x -> wf y -> stops x y = dom y x || ceq x y }.

  Section Laws.
    Variable dom : C -> C -> bool.         (* x dominates y *)
    Variable wf : C -> Prop.
    Hypothesis L : ArchLaws dom wf.
    Let dom_irrefl := al_dom_irrefl dom wf L.
    Let dom_trans := al_dom_trans dom wf L.
    Let ceq_refl := al_ceq_refl dom wf L.
    Let ceq_sym := al_ceq_sym dom wf L.
    Let ceq_trans := al_ceq_trans dom wf L.
    Let dom_ceq_l := al_dom_ceq_l dom wf L.
    Let dom_ceq_r := al_dom_ceq_r dom wf L.
    Let cmp_kills := al_cmp_kills dom wf L.
    Let cmp_stops := al_cmp_stops dom wf L.

    Lemma ceq_nodom x y : wf x -> wf y -> ceq x y = true -> dom x y = false.
    Proof. intros Wx Wy E. rewrite (dom_ceq_r x y x Wx Wy Wx); [apply dom_irrefl; assumption|].
      rewrite ceq_sym; assumption. Qed.

    Definition indep (y z : C) : Prop := dom y z = false /\ dom z y = false /\ ceq y z = false.
    Definition Inv (a : list C) : Prop := Forall wf a /\ pairwise indep a.
    Definition covers (y x : C) : Prop := dom y x = true \/ ceq y x = true.

    Lemma prefix_untouched a l1 y l2 x : Inv a -> wf x -> a = l1 ++ y :: l2 -> stops x y = true ->
      filter (fun z => negb (kills x z)) l1 = l1.
    Proof.
      intros (W & P) Wx -> Hs.
      assert (Wy : wf y) by (rewrite Forall_forall in W; apply W, in_or_app; right; left; reflexivity).
      rewrite (cmp_stops x y Wx Wy) in Hs.
      assert (H1 : forall z, In z l1 -> kills x z = false).
      { intros z Hz.
        assert (Wz : wf z) by (rewrite Forall_forall in W; apply W, in_or_app; left; assumption).
        destruct (pairwise_split indep l1 y l2 P z Hz) as (_ & Hyz & _).
        rewrite (cmp_kills x z Wx Wz). destruct (dom x z) eqn:D; [|reflexivity]. exfalso.
        apply orb_true_iff in Hs as [Hs|Hs].
        - rewrite (dom_trans y x z Wy Wx Wz Hs D) in Hyz. discriminate.
        - rewrite (dom_ceq_l x y z Wx Wy Wz Hs) in D. congruence. }
      clear P W. induction l1 as [|z l1 IH]; cbn; [reflexivity|].
      rewrite (H1 z (or_introl eq_refl)). cbn. f_equal. apply IH. intros z' Hz'. apply H1. right. assumption.
    Qed.

    Lemma filter_ext_wf (f g : C -> bool) l : (forall z, In z l -> f z = g z) -> filter f l = filter g l.
    Proof. intros E. apply filter_ext_in. exact E. Qed.

    (* the archive after one addition, as a function of the set-level test *)
    Theorem add_refines a x : Inv a -> wf x ->
      (existsb (fun y => dom y x || ceq x y) a = true -> archive_add a x = (a, false)) /\
      (existsb (fun y => dom y x || ceq x y) a = false ->
         archive_add a x = (filter (fun y => negb (dom x y)) a ++ [x], true)) /\
      Inv (fst (archive_add a x)).
    Proof.
      intros I Wx. pose proof I as (W & P).
      assert (Est : existsb (stops x) a = existsb (fun y => dom y x || ceq x y) a).
      { clear P I. induction a as [|y a IH]; cbn; [reflexivity|].
        inversion W; subst. rewrite (cmp_stops x y), IH; auto. }
      assert (Efl : filter (fun y => negb (kills x y)) a = filter (fun y => negb (dom x y)) a).
      { apply filter_ext_in. intros z Hz. rewrite cmp_kills; auto. rewrite Forall_forall in W. auto. }
      assert (A1 : existsb (stops x) a = true -> archive_add a x = (a, false)).
      { intros E. destruct (add_stop a x E) as (l1 & y & l2 & Ha & Hs & _ & Hadd).
        rewrite Hadd, (prefix_untouched a l1 y l2 x I Wx Ha Hs), Ha. reflexivity. }
      repeat split.
      - rewrite <- Est. exact A1.
      - rewrite <- Est. intros E. rewrite (add_nostop a x E), Efl. reflexivity.
      - destruct (existsb (stops x) a) eqn:E.
        + rewrite (A1 eq_refl). exact W.
        + rewrite (add_nostop a x E). cbn. apply Forall_app. split; [|constructor; auto].
          apply Forall_forall. intros z Hz. apply filter_In in Hz as [Hz _].
          rewrite Forall_forall in W. auto.
      - destruct (existsb (stops x) a) eqn:E.
        + rewrite (A1 eq_refl). exact P.
        + rewrite (add_nostop a x E). cbn. apply pairwise_app. split; [|split].
          * apply pairwise_filter. exact P.
          * cbn. auto.
          * intros y x' Hy Hx'. destruct Hx' as [Hx'|[]]. subst x'. apply filter_In in Hy as [Hy Hk].
            assert (Wy : wf y) by (rewrite Forall_forall in W; auto).
            assert (Hs : stops x y = false).
            { destruct (stops x y) eqn:S; [|reflexivity].
              assert (existsb (stops x) a = true) by (apply existsb_exists; eauto). congruence. }
            rewrite (cmp_stops x y Wx Wy) in Hs. apply orb_false_elim in Hs as [H1 H2].
            rewrite (cmp_kills x y Wx Wy) in Hk. apply negb_true_iff in Hk.
            unfold indep. rewrite (ceq_sym y x Wy Wx). auto.
    Qed.

    Corollary add_inv a x : Inv a -> wf x -> Inv (fst (archive_add a x)).
    Proof. intros I W. apply (add_refines a x I W). Qed.

    (* success is reported exactly when the solution was inserted (at the end), and a
       failed addition changes nothing *)
    Corollary add_reports a x : Inv a -> wf x ->
      forall a' ok, archive_add a x = (a', ok) ->
        (ok = true -> exists kept, a' = kept ++ [x] /\ kept = filter (fun y => negb (dom x y)) a) /\
        (ok = false -> a' = a /\ exists y, In y a /\ covers y x).
    Proof.
      intros I Wx a' ok Hadd. destruct (add_refines a x I Wx) as (A1 & A2 & _).
      destruct (existsb (fun y => dom y x || ceq x y) a) eqn:E.
      - rewrite (A1 eq_refl) in Hadd. injection Hadd as <- <-. split; [discriminate|]. intros _. split; [reflexivity|].
        apply existsb_exists in E as (y & Hy & Hc). exists y. split; [assumption|].
        pose proof I as (W & _). assert (Wy : wf y) by (rewrite Forall_forall in W; auto).
        apply orb_true_iff in Hc as [Hc|Hc]; [left; assumption | right; rewrite ceq_sym; assumption].
      - rewrite (A2 eq_refl) in Hadd. injection Hadd as <- <-. split; [|discriminate].
        intros _. eexists. split; reflexivity.
    Qed.

    (* one step preserves: members are offered, every offered vector is covered by a member *)
    Lemma add_step a x seen : Inv a -> wf x -> Forall wf seen -> incl a seen ->
      (forall w, In w seen -> exists y, In y a /\ covers y w) ->
      let a' := fst (archive_add a x) in
      incl a' (seen ++ [x]) /\ (forall w, In w (seen ++ [x]) -> exists y, In y a' /\ covers y w).
    Proof.
      intros I Wx Ws Hin Hcov. pose proof I as (W & P).
      destruct (add_refines a x I Wx) as (A1 & A2 & _).
      destruct (existsb (fun y => dom y x || ceq x y) a) eqn:E; cbn zeta.
      - rewrite (A1 eq_refl). cbn. split; [apply incl_appl; assumption|].
        intros w Hw. apply in_app_or in Hw as [Hw|[<-|[]]]; [auto|].
        apply existsb_exists in E as (y & Hy & Hc). exists y. split; [assumption|].
        assert (Wy : wf y) by (rewrite Forall_forall in W; auto).
        apply orb_true_iff in Hc as [Hc|Hc]; [left; assumption | right; rewrite ceq_sym; assumption].
      - rewrite (A2 eq_refl). cbn. split.
        + intros z Hz. apply in_app_or in Hz as [Hz|Hz]; apply in_or_app; [left|right; assumption].
          apply filter_In in Hz as [Hz _]. auto.
        + intros w Hw. apply in_app_or in Hw as [Hw|[<-|[]]].
          * destruct (Hcov w Hw) as (y & Hy & Hc).
            assert (Wy : wf y) by (rewrite Forall_forall in W; auto).
            assert (Ww : wf w) by (rewrite Forall_forall in Ws; auto).
            destruct (dom x y) eqn:D.
            -- exists x. split; [apply in_or_app; right; left; reflexivity|]. left.
               destruct Hc as [Hc|Hc]; [apply (dom_trans x y w); assumption|].
               rewrite <- (dom_ceq_r x y w Wx Wy Ww Hc). exact D.
            -- exists y. split; [|assumption]. apply in_or_app. left. apply filter_In.
               rewrite D. auto.
          * exists x. split; [apply in_or_app; right; left; reflexivity|]. right. apply ceq_refl; assumption.
    Qed.

    Lemma adds_inv : forall xs a seen, Inv a -> Forall wf xs -> Forall wf seen -> incl a seen ->
      (forall w, In w seen -> exists y, In y a /\ covers y w) ->
      let a' := archive_adds a xs in
      Inv a' /\ incl a' (seen ++ xs) /\ (forall w, In w (seen ++ xs) -> exists y, In y a' /\ covers y w).
    Proof.
      induction xs as [|x xs IH]; intros a seen I Wxs Ws Hin Hcov; cbn.
      - rewrite app_nil_r. auto.
      - inversion Wxs as [|? ? Wx Wxs']; subst.
        destruct (add_step a x seen I Wx Ws Hin Hcov) as (S1 & S2).
        assert (Ws' : Forall wf (seen ++ [x])) by (apply Forall_app; split; auto).
        specialize (IH (fst (archive_add a x)) (seen ++ [x]) (add_inv a x I Wx) Wxs' Ws' S1 S2).
        rewrite <- app_assoc in IH. exact IH.
    Qed.

    Definition maximal (offered : list C) (c : C) : Prop :=
      (exists x, In x offered /\ ceq x c = true) /\ forall d, In d offered -> dom d c = false.

    (* after any history the archive is exactly the set of maximal offered cost vectors,
       one representative each *)
    Theorem history_is_maximal_set xs : Forall wf xs ->
      let a := archive_adds [] xs in
      Inv a /\ incl a xs /\
      forall c, wf c -> ((exists y, In y a /\ ceq y c = true) <-> maximal xs c).
    Proof.
      intros Wxs. cbn zeta.
      assert (I0 : Inv []) by (split; [constructor | exact I]).
      destruct (adds_inv xs [] [] I0 Wxs (Forall_nil _) (incl_refl _)) as (I1 & I2 & I3).
      { intros w []. }
      cbn in I2, I3. split; [exact I1|]. split; [exact I2|].
      intros c Wc. split.
      - intros (y & Hy & Hc). split.
        + exists y. split; [apply I2|]; assumption.
        + intros d Hd.
          pose proof I1 as (Wa & Pa).
          assert (Wy : wf y) by (rewrite Forall_forall in Wa; auto).
          assert (Wd : wf d) by (rewrite Forall_forall in Wxs; auto).
          destruct (dom d c) eqn:D; [|reflexivity]. exfalso.
          rewrite <- (dom_ceq_r d y c Wd Wy Wc Hc) in D.
          destruct (I3 d Hd) as (z & Hz & Hcz).
          assert (Wz : wf z) by (rewrite Forall_forall in Wa; auto).
          assert (Dzy : dom z y = true).
          { destruct Hcz as [Hcz|Hcz]; [apply (dom_trans z d y); assumption|].
            rewrite (dom_ceq_l z d y Wz Wd Wy Hcz). exact D. }
          apply in_split in Hy as (l1 & l2 & Ha). rewrite Ha in Hz, Pa.
          apply in_app_or in Hz as [Hz|[Hz|Hz]].
          * destruct (pairwise_split indep l1 y l2 Pa z Hz) as (Hn & _). congruence.
          * subst z. rewrite dom_irrefl in Dzy; [discriminate|assumption].
          * apply pairwise_app in Pa as (_ & Pa & _). cbn in Pa. destruct Pa as (F & _).
            rewrite Forall_forall in F. destruct (F z Hz) as (_ & Hn & _). congruence.
      - intros ((x & Hx & Hc) & Hmax).
        destruct (I3 x Hx) as (y & Hy & Hcy). exists y. split; [assumption|].
        pose proof I1 as (Wa & _).
        assert (Wy : wf y) by (rewrite Forall_forall in Wa; auto).
        assert (Wx : wf x) by (rewrite Forall_forall in Wxs; auto).
        destruct Hcy as [Hcy|Hcy].
        + exfalso. rewrite (dom_ceq_r y x c Wy Wx Wc Hc) in Hcy.
          rewrite (Hmax y (I2 y Hy)) in Hcy. discriminate.
        + apply (ceq_trans y x c); assumption.
    Qed.

    Corollary members_mutually_nondominated xs : Forall wf xs ->
      pairwise (fun y z => dom y z = false /\ dom z y = false) (archive_adds [] xs).
    Proof.
      intros W. destruct (history_is_maximal_set xs W) as ((_ & P) & _).
      revert P. generalize (archive_adds [] xs). induction l as [|y l IH]; cbn; [tauto|].
      intros (F & P). split; [|auto]. eapply Forall_impl; [|exact F]. intros z (A & B & _). auto.
    Qed.

    Corollary rejected_or_evicted_is_covered xs : Forall wf xs ->
      forall x, In x xs -> exists y, In y (archive_adds [] xs) /\ covers y x.
    Proof.
      intros Wxs x Hx.
      assert (I0 : Inv []) by (split; [constructor | exact I]).
      destruct (adds_inv xs [] [] I0 Wxs (Forall_nil _) (incl_refl _)) as (_ & _ & I3).
      { intros w []. }
      apply I3. exact Hx.
    Qed.

    Corollary order_independent xs ys : Forall wf xs -> Permutation xs ys ->
      forall c, wf c -> ((exists y, In y (archive_adds [] xs) /\ ceq y c = true) <->
                         (exists y, In y (archive_adds [] ys) /\ ceq y c = true)).
    Proof.
      intros Wxs Pm c Wc.
      assert (Wys : Forall wf ys) by (eapply Permutation_Forall; eauto).
      destruct (history_is_maximal_set xs Wxs) as (_ & _ & Hx).
      destruct (history_is_maximal_set ys Wys) as (_ & _ & Hy).
      rewrite (Hx c Wc), (Hy c Wc). unfold maximal.
      split; intros ((x & Hin & Hc) & Hm); (split; [exists x; split; [|assumption]|intros d Hd; apply Hm]).
      - eapply Permutation_in; eauto.
      - eapply Permutation_in; [symmetry|]; eauto.
      - eapply Permutation_in; [symmetry|]; eauto.
      - eapply Permutation_in; eauto.
    Qed.
  End Laws.

  (* ---------- truncate ---------- *)
  Section Truncate.
    Variable key_leb : C -> C -> bool.
    Hypothesis key_total : forall x y, key_leb x y = true \/ key_leb y x = true.
    Hypothesis key_trans : forall x y z, key_leb x y = true -> key_leb y z = true -> key_leb x z = true.

    Theorem truncate_keeps_largest a size :
      let r := rev (ssort key_leb a) in
      archive_truncate key_leb a size true = firstn size r /\
      Permutation (firstn size r ++ skipn size r) a /\
      length (firstn size r) = Nat.min size (length a) /\
      forall kept dropped, In kept (firstn size r) -> In dropped (skipn size r) ->
        key_leb dropped kept = true.
    Proof.
      cbn zeta. repeat split.
      - rewrite firstn_skipn. rewrite <- Permutation_rev. apply ssort_perm.
      - rewrite firstn_length, rev_length, ssort_length. reflexivity.
      - intros kept dropped Hk Hd.
        apply (sorted_firstn_skipn_gen (fun x y => key_leb y x = true) (rev (ssort key_leb a)) size kept dropped);
          auto.
        apply (sorted_rev (lebP key_leb)). apply ssort_sorted; assumption.
    Qed.

    Theorem truncate_keeps_smallest a size :
      let r := ssort key_leb a in
      archive_truncate key_leb a size false = firstn size r /\
      Permutation (firstn size r ++ skipn size r) a /\
      forall kept dropped, In kept (firstn size r) -> In dropped (skipn size r) ->
        key_leb kept dropped = true.
    Proof.
      cbn zeta. repeat split.
      - rewrite firstn_skipn. apply ssort_perm.
      - intros kept dropped Hk Hd.
        apply (sorted_firstn_skipn_gen (lebP key_leb) (ssort key_leb a) size kept dropped); auto.
        apply ssort_sorted; assumption.
    Qed.
  End Truncate.
End Arch.
