From Coq Require Import List Bool ZArith Arith Lia.
From Artap Require Import Model.IndividualEq.
Import ListNotations.

Section IndEqProofs.
  Context {T : Type} (ltb : T -> T -> bool) (absdiff : T -> T -> T) (tol : T).
  Local Notation close := (close ltb absdiff tol).
  Local Notation ind_eq := (ind_eq ltb absdiff tol).
  Local Notation eqb_ind := (eqb_ind ltb absdiff tol).

  Lemma eq_total : forall v w, length v = length w -> ind_eq v w <> None.
  Proof.
    induction v as [|a v IH]; intros [|b w] L; try discriminate L; cbn.
    - discriminate.
    - destruct (close a b); [apply IH; cbn in L; congruence | discriminate].
  Qed.

  Lemma eq_iff_all_close : forall v w, length v = length w ->
    (ind_eq v w = Some true <-> Forall2 (fun a b => close a b = true) v w).
  Proof.
    induction v as [|a v IH]; intros [|b w] L; try discriminate L; cbn.
    - split; [constructor | reflexivity].
    - injection L as L. destruct (close a b) eqn:E.
      + rewrite (IH w L). split; [intros F; constructor; assumption | intros F; inversion F; assumption].
      + split; [discriminate | intros F; inversion F; congruence].
  Qed.

  Lemma eq_false_iff_some_far : forall v w, length v = length w ->
    (ind_eq v w = Some false <-> exists i a b, nth_error v i = Some a /\ nth_error w i = Some b /\ close a b = false).
  Proof.
    induction v as [|a v IH]; intros [|b w] L; try discriminate L; cbn.
    - split; [discriminate | intros (i & x & y & Hx & _); destruct i; discriminate].
    - injection L as L. destruct (close a b) eqn:E.
      + rewrite (IH w L). split.
        * intros (i & x & y & Hx & Hy & Hc). exists (S i), x, y. auto.
        * intros (i & x & y & Hx & Hy & Hc). destruct i as [|i]; cbn in Hx, Hy.
          -- congruence.
          -- exists i, x, y. auto.
      + split; [intros _; exists 0, a, b; auto | reflexivity].
  Qed.

  (* a difference in any one coordinate, whichever it is, makes the points unequal *)
  Lemma eq_detects_any_coordinate : forall v w i a b, length v = length w ->
    nth_error v i = Some a -> nth_error w i = Some b -> close a b = false -> ind_eq v w = Some false.
  Proof. intros v w i a b L Ha Hb Hc. apply eq_false_iff_some_far; [assumption|]. exists i, a, b. auto. Qed.

  Lemma eq_sym : (forall a b, close a b = close b a) ->
    forall v w, length v = length w -> ind_eq v w = ind_eq w v.
  Proof.
    intros Hs. induction v as [|a v IH]; intros [|b w] L; try discriminate L; cbn; [reflexivity|].
    injection L as L. rewrite (Hs b a). destruct (close a b); [apply IH; assumption | reflexivity].
  Qed.

  Lemma eq_refl_close : (forall a, close a a = true) -> forall v, ind_eq v v = Some true.
  Proof. intros Hr. induction v as [|a v IH]; cbn; [reflexivity|]. rewrite Hr. exact IH. Qed.

  Lemma eqb_ind_true v w : eqb_ind v w = true <-> ind_eq v w = Some true.
  Proof. unfold IndividualEq.eqb_ind. destruct (ind_eq v w) as [[|]|]; split; congruence. Qed.

  Section Containers.
    Variable h : list T -> Z.
    Local Notation indiv := (indiv (T := T)).
    Local Notation item_eq := (item_eq ltb absdiff tol).
    Local Notation mem := (mem ltb absdiff tol).
    Local Notation list_remove := (list_remove ltb absdiff tol).
    Local Notation same_key := (same_key ltb absdiff tol h).
    Local Notation set_add := (set_add ltb absdiff tol h).
    Local Notation dedupe := (dedupe ltb absdiff tol h).

    Lemma identical_same_hash (x y : indiv) : ivec x = ivec y -> ihash h x = ihash h y.
    Proof. unfold ihash. intros ->. reflexivity. Qed.

    (* item_eq means: the very same object, or all coordinates within the tolerance *)
    Lemma item_eq_spec (item x : indiv) : length (ivec item) = length (ivec x) ->
      (item_eq item x = true <->
       fst item = fst x \/ Forall2 (fun a b => close a b = true) (ivec item) (ivec x)).
    Proof.
      intros L. unfold IndividualEq.item_eq. rewrite orb_true_iff, Nat.eqb_eq, eqb_ind_true,
        (eq_iff_all_close _ _ L). reflexivity.
    Qed.

    Lemma mem_spec x l : mem x l = true <-> exists item, In item l /\ item_eq item x = true.
    Proof. unfold IndividualEq.mem. apply existsb_exists. Qed.

    Lemma remove_spec : forall x l r, list_remove x l = Some r ->
      exists l1 y l2, l = l1 ++ y :: l2 /\ r = l1 ++ l2 /\ item_eq y x = true /\
                      forall z, In z l1 -> item_eq z x = false.
    Proof.
      intros x. induction l as [|y l IH]; intros r Hr; cbn in Hr; [discriminate|].
      destruct (item_eq y x) eqn:E.
      - injection Hr as <-. exists [], y, l. repeat split; auto. intros z [].
      - destruct (list_remove x l) as [r'|] eqn:R; [|discriminate]. injection Hr as <-.
        destruct (IH r' eq_refl) as (l1 & y' & l2 & -> & -> & Hy & Hl1).
        exists (y :: l1), y', l2. repeat split; auto.
        intros z [<-|Hz]; auto.
    Qed.

    Lemma remove_none x l : list_remove x l = None <-> mem x l = false.
    Proof.
      induction l as [|y l IH]; cbn; [tauto|].
      destruct (item_eq y x); cbn; [split; discriminate|].
      destruct (list_remove x l); rewrite <- IH; split; congruence.
    Qed.

    Lemma set_add_incl acc x : incl (set_add acc x) (acc ++ [x]).
    Proof.
      unfold IndividualEq.set_add. destruct (existsb _ acc); [apply incl_appl|]; apply incl_refl.
    Qed.

    Definition covered (acc : list indiv) (x : indiv) : Prop :=
      exists e, In e acc /\ same_key e x = true.

    Lemma set_add_keeps acc x : incl acc (set_add acc x).
    Proof.
      unfold IndividualEq.set_add. destruct (existsb _ acc); [apply incl_refl | apply incl_appl, incl_refl].
    Qed.
    Lemma set_add_covers acc x : same_key x x = true -> covered (set_add acc x) x.
    Proof.
      intros Hr. unfold IndividualEq.set_add.
      destruct (existsb (fun e => same_key e x) acc) eqn:E.
      - apply existsb_exists in E as (e & He & Hs). exists e. auto.
      - exists x. split; [apply in_or_app; right; left; reflexivity | exact Hr].
    Qed.

    (* no later entry is a repeat of an earlier one *)
    Definition NoRepeat (acc : list indiv) : Prop :=
      forall l1 e l2, acc = l1 ++ e :: l2 -> forall e', In e' l1 -> same_key e' e = false.

    Lemma dedupe_fold_spec : forall l acc, NoRepeat acc ->
      let r := fold_left set_add l acc in
      incl r (acc ++ l) /\ incl acc r /\ NoRepeat r /\
      (forall x, In x l -> (forall y, same_key y y = true) -> covered r x).
    Proof.
      induction l as [|x l IH]; intros acc Hn; cbn.
      - rewrite app_nil_r. repeat split; auto using incl_refl. intros x [].
      - assert (Hn' : NoRepeat (set_add acc x)).
        { unfold IndividualEq.set_add. destruct (existsb (fun e => same_key e x) acc) eqn:E; [exact Hn|].
          intros l1 e l2 Heq e' He'.
          destruct l2 as [|z l2] using rev_ind.
          - apply app_inj_tail in Heq as [-> ->].
            rewrite <- not_true_iff_false. intro C.
            assert (existsb (fun e0 => same_key e0 e) l1 = true) by (apply existsb_exists; eauto). congruence.
          - rewrite app_comm_cons, app_assoc in Heq. apply app_inj_tail in Heq as [Heq _].
            eapply Hn; eauto. }
        destruct (IH (set_add acc x) Hn') as (I1 & I2 & I3 & I4). repeat split.
        + intros z Hz. apply I1 in Hz. apply in_app_or in Hz as [Hz|Hz].
          * apply set_add_incl in Hz. apply in_app_or in Hz as [Hz|[<-|[]]];
              apply in_or_app; [left|right; left]; auto.
          * apply in_or_app. right. right. assumption.
        + intros z Hz. apply I2, set_add_keeps. assumption.
        + exact I3.
        + intros y [<-|Hy] Hrefl; [|apply I4; assumption].
          destruct (set_add_covers acc x (Hrefl x)) as (e & He & Hs).
          exists e. split; [apply I2|]; assumption.
    Qed.

    Lemma dedupe_spec l :
      incl (dedupe l) l /\ NoRepeat (dedupe l) /\
      ((forall y, same_key y y = true) -> forall x, In x l -> covered (dedupe l) x).
    Proof.
      unfold IndividualEq.dedupe.
      assert (Hn : NoRepeat []) by (intros [|? ?] ? ? E; discriminate).
      destruct (dedupe_fold_spec l [] Hn) as (I1 & _ & I3 & I4). cbn in I1.
      repeat split; auto.
    Qed.

    (* a merged (discarded) element is within the tolerance of its representative in every
       coordinate, or is the same object: set() never discards a distinct design *)
    Lemma same_key_close (e x : indiv) : length (ivec e) = length (ivec x) -> same_key e x = true ->
      ihash h e = ihash h x /\
      (fst e = fst x \/ Forall2 (fun a b => close a b = true) (ivec e) (ivec x)).
    Proof.
      intros L. unfold IndividualEq.same_key. rewrite andb_true_iff, Z.eqb_eq, (item_eq_spec _ _ L). tauto.
    Qed.

    Lemma child_repeated_spec (child : indiv) offs :
      child_repeated ltb absdiff tol child offs = true <->
      exists o, In o offs /\ ind_eq (ivec child) (ivec o) = Some true.
    Proof.
      unfold IndividualEq.child_repeated. rewrite existsb_exists.
      split; intros (o & Ho & E); exists o; (split; [assumption|]); apply eqb_ind_true; assumption.
    Qed.
  End Containers.
End IndEqProofs.
