From Coq Require Import List Bool ZArith Arith Lia.
From Artap Require Import Model.IndividualEq.
Import ListNotations.

Section IndEqProofs.
  Context {T : Type} (ltb : T -> T -> bool) (absdiff : T -> T -> T) (tol : T).
  Local Notation close := (close ltb absdiff tol).
  Local Notation ind_eq := (ind_eq ltb absdiff tol).
  Local Notation eqb_ind := (eqb_ind ltb absdiff tol).

  Lemma eq_total : forall v w, length v = length w -> ind_eq v w <> None.
  Proof.
    induction v as [|a v IH]; intros [|b w] L; try discriminate L; cbn.
    - discriminate.
    - destruct (close a b); [apply IH; cbn in L; congruence | discriminate].
  Qed.

  Lemma eq_iff_all_close : forall v w, length v = length w ->
    (ind_eq v w = Some true <-> Forall2 (fun a b => close a b = true) v w).
  Proof.
    induction v as [|a v IH]; intros [|b w] L; try discriminate L; cbn.
    - split; [constructor | reflexivity].
    - injection L as L. destruct (close a b) eqn:E.
      + rewrite (IH w L). split; [intros F; constructor; assumption | intros F; inversion F; assumption].
      + split; [discriminate | intros F; inversion F; congruence].
  Qed.

  Lemma eq_false_iff_some_far : forall v w, length v = length w ->
    (ind_eq v w = Some false <-> exists i a b, nth_error v i = Some a /\ nth_error w i = Some b /\ close a b = false).
  Proof.
    induction v as [|a v IH]; intros [|b w] L; try discriminate L; cbn.
    - split; [discriminate | intros (i & x & y & Hx & _); destruct i; discriminate].
    - injection L as L. destruct (close a b) eqn:E.
      + rewrite (IH w L). split.
        * intros (i & x & y & Hx & Hy & Hc). exists (S i), x, y. auto.
        * intros (i & x & y & Hx & Hy & Hc). destruct i as [|i]; cbn in Hx, Hy.
          -- congruence.
          -- exists i, x, y. auto.
      + split; [intros _; exists 0, a, b; auto | reflexivity].
  Qed.

  (* a difference in any one coordinate, whichever it is, makes the points unequal *)
  Lemma eq_detects_any_coordinate : forall v w i a b, length v = length w ->
    nth_error v i = Some a -> nth_error w i = Some b -> close a b = false -> ind_eq v w = Some false.
  Proof. intros v w i a b L Ha Hb Hc. apply eq_false_iff_some_far; [assumption|]. exists i, a, b. auto. Qed.

  Lemma eq_sym : (forall a b, close a b = close b a) ->
    forall v w, length v = length w -> ind_eq v w = ind_eq w v.
  Proof.
    intros Hs. induction v as [|a v IH]; intros [|b w] L; try discriminate L; cbn; [reflexivity|].
    injection L as L. rewrite (Hs b a). destruct (close a b); [apply IH; assumption | reflexivity].
  Qed.

  Lemma eq_refl_close : (forall a, close a a = true) -> forall v, ind_eq v v = Some true.
  Proof. intros Hr. induction v as [|a v IH]; cbn; [reflexivity|]. rewrite Hr. exact IH. Qed.

  Lemma eqb_ind_true v w : eqb_ind v w = true <-> ind_eq v w = Some true.
  Proof. unfold IndividualEq.eqb_ind. destruct (ind_eq v w) as [[|]|]; split; congruence. Qed.

  Section Containers.
    Variable h : list T -> Z.
    Local Notation indiv := (indiv (T := T)).
    Local Notation item_eq := (item_eq ltb absdiff tol).
    Local Notation mem := (mem ltb absdiff tol).
    Local Notation list_remove := (list_remove ltb absdiff tol).
    Local Notation same_key := (same_key ltb absdiff tol h).
    Local Notation set_add := (set_add ltb absdiff tol h).
    Local Notation dedupe := (dedupe ltb absdiff tol h).

    Lemma identical_same_hash (x y : indiv) : ivec x = ivec y -> ihash h x = ihash h y.
    Proof. unfold ihash. intros ->. reflexivity. Qed.

    (* item_eq means: the very same object, or all coordinates within the tolerance *)
    Lemma item_eq_spec (item x : indiv) : length (ivec item) = length (ivec x) ->
      (item_eq item x = true <->
       fst item = fst x \/ Forall2 (fun a b => close a b = true) (ivec item) (ivec x)).
    Proof.
      intros L. unfold IndividualEq.item_eq. rewrite orb_true_iff, Nat.eqb_eq, eqb_ind_true,
        (eq_iff_all_close _ _ L). reflexivity.
    Qed.

    Lemma mem_spec x l : mem x l = true <-> exists item, In item l /\ item_eq item x = true.
    Proof. unfold IndividualEq.mem. apply existsb_exists. Qed.

    Lemma remove_spec : forall x l r, list_remove x l = Some r ->
      exists l1 y l2, l = l1 ++ y :: l2 /\ r = l1 ++ l2 /\ item_eq y x = true /\
                      forall z, In z l1 -> item_eq z x = false.
    Proof.
      intros x. induction l as [|y l IH]; intros r Hr; cbn in Hr; [discriminate|].
      destruct (item_eq y x) eqn:E.
      - injection Hr as <-. exists [], y, l. repeat split; auto. intros z [].
      - destruct (list_remove x l) as [r'|] eqn:R; [|discriminate]. injection Hr as <-.
        destruct (IH r' eq_refl) as (l1 & y' & l2 & -> & -> & Hy & Hl1).
        exists (y :: l1), y', l2. repeat split; auto.
        intros z [<-|Hz]; auto.
    Qed.

    Lemma remove_none x l : list_remove x l = None <-> mem x l = false.
    Proof.
      induction l as [|y l IH]; cbn; [tauto|].
      destruct (item_eq y x); cbn; [split; discriminate|].
      destruct (list_remove x l); rewrite <- IH; split; congruence.
    Qed.

    Lemma set_add_incl acc x : incl (set_add acc x) (acc ++ [x]).
    Proof.
      unfold IndividualEq.set_add. destruct (existsb _ acc); [apply incl_appl|]; apply incl_refl.
    Qed.

    Definition covered (acc : list indiv) (x : indiv) : Prop :=
      exists e, In e acc /\ same_key e x = true.

    Lemma set_add_keeps acc x : incl acc (set_add acc x).
    Proof.
      unfold IndividualEq.set_add. destruct (existsb _ acc); [apply incl_refl | apply incl_appl, incl_refl].
    Qed.
    Lemma set_add_covers acc x : same_key x x = true -> covered (set_add acc x) x.
    Proof.
      intros Hr. unfold IndividualEq.set_add.
      destruct (existsb (fun e => same_key e x) acc) eqn:E.
      - apply existsb_exists in E as (e & He & Hs). exists e. auto.
      - exists x. split; [apply in_or_app; right; left; reflexivity | exact Hr].
    Qed.

    (* no later entry is a repeat of an earlier one *)
    Definition NoRepeat (acc : list indiv) : Prop :=
      forall l1 e l2, acc = l1 ++ e :: l2 -> forall e', In e' l1 -> same_key e' e = false.

    Lemma dedupe_fold_spec : forall l acc, NoRepeat acc ->
      let r := fold_left set_add l acc in
      incl r (acc ++ l) /\ incl acc r /\ NoRepeat r /\
      (forall x, In x l -> (forall y, same_key y y = true) -> covered r x).
    Proof.
      induction l as [|x l IH]; intros acc Hn; cbn.
      - rewrite app_nil_r. repeat split; auto using incl_refl. intros x [].
      - assert (Hn' : NoRepeat (set_add acc x)).
        { unfold IndividualEq.set_add. destruct (existsb (fun e => same_key e x) acc) eqn:E; [exact Hn|].
          intros l1 e l2 Heq e' He'.
          destruct l2 as [|z l2] using rev_ind.
          - apply app_inj_tail in Heq as [-> ->].
            rewrite <- not_true_iff_false. intro C.
            assert (existsb (fun e0 => same_key e0 e) l1 = true) by (apply existsb_exists; eauto). congruence.
          - rewrite app_comm_cons, app_assoc in Heq. apply app_inj_tail in Heq as [Heq _].
            eapply Hn; eauto. }
        destruct (IH (set_add acc x) Hn') as (I1 & I2 & I3 & I4). repeat split.
        + intros z Hz. apply I1 in Hz. apply in_app_or in Hz as [Hz|Hz].
          * apply set_add_incl in Hz. apply in_app_or in Hz as [Hz|[<-|[]]];
              apply in_or_app; [left|right; left]; auto.
          * apply in_or_app. right. right. assumption.
        + intros z Hz. apply I2, set_add_keeps. assumption.
        + exact I3.
        + intros y [<-|Hy] Hrefl; [|apply I4; assumption].
          destruct (set_add_covers acc x (Hrefl x)) as (e & He & Hs).
          exists e. split; [apply I2|]; assumption.
    Qed.

    Lemma dedupe_spec l :
      incl (dedupe l) l /\ NoRepeat (dedupe l) /\
      ((forall y, same_key y y = true) -> forall x, In x l -> covered (dedupe l) x).
    Proof.
      unfold IndividualEq.dedupe.
      assert (Hn : NoRepeat []) by (intros [|? ?] ? ? E; discriminate).
      destruct (dedupe_fold_spec l [] Hn) as (I1 & _ & I3 & I4). cbn in I1.
      repeat split; auto.
    Qed.

    (* a merged (discarded) element is within the tolerance of its representative in every
       coordinate, or is the same object: set() never discards a distinct design *)
    Lemma same_key_close (e x : indiv) : length (ivec e) = length (ivec x) -> same_key e x = true ->
      ihash h e = ihash h x /\
      (fst e = fst x \/ Forall2 (fun a b => close a b = true) (ivec e) (ivec x)).
    Proof.
      intros L. unfold IndividualEq.same_key. rewrite andb_true_iff, Z.eqb_eq, (item_eq_spec _ _ L). tauto.
    Qed.

    Lemma child_repeated_spec (child : indiv) offs :
      child_repeated ltb absdiff tol child offs = true <->
      exists o, In o offs /\ ind_eq (ivec child) (ivec o) = Some true.
    Proof.
      unfold IndividualEq.child_repeated. rewrite existsb_exists.
      split; intros (o & Ho & E); exists o; (split; [assumption|]); apply eqb_ind_true; assumption.
    Qed.

    (* equality, hashing and the container primitives depend on the two vectors and on object
       identity only *)
    Lemma item_eq_vectors_only (x y x' y' : indiv) :
      ivec x = ivec x' -> ivec y = ivec y' -> Nat.eqb (fst x) (fst y) = Nat.eqb (fst x') (fst y') ->
      item_eq x y = item_eq x' y' /\ ihash h x = ihash h x' /\
      child_repeated ltb absdiff tol x [y] = child_repeated ltb absdiff tol x' [y'].
    Proof.
      intros Hx Hy Hi. unfold IndividualEq.item_eq, IndividualEq.child_repeated, ihash. cbn.
      rewrite Hx, Hy, Hi. auto.
    Qed.

    (* ---------------- GeneticAlgorithm.generate ---------------- *)
    Local Notation child_repeated := (child_repeated ltb absdiff tol).
    Local Notation gen_step := (gen_step ltb absdiff tol).
    Local Notation generate := (generate ltb absdiff tol).

    Lemma child_repeated_incl c l l' : incl l l' -> child_repeated c l = true -> child_repeated c l' = true.
    Proof.
      unfold IndividualEq.child_repeated. rewrite !existsb_exists. intros I (o & Ho & E). exists o. auto.
    Qed.

    (* no accepted offspring is a repeat (child == earlier offspring) of an earlier accepted one *)
    Definition GenNoRep (offs : list indiv) : Prop :=
      forall l1 e l2, offs = l1 ++ e :: l2 -> child_repeated e l1 = false.

    Lemma GenNoRep_nil : GenNoRep [].
    Proof. intros [|? ?] ? ? E; discriminate. Qed.

    Lemma GenNoRep_snoc l c : GenNoRep l -> child_repeated c l = false -> GenNoRep (l ++ [c]).
    Proof.
      intros Hn Hc l1 e l2 Heq.
      destruct l2 as [|z l2 _] using rev_ind.
      - apply app_inj_tail in Heq as [-> ->]. exact Hc.
      - rewrite app_comm_cons, app_assoc in Heq. apply app_inj_tail in Heq as [Heq _].
        eapply Hn; eauto.
    Qed.

    Lemma gen_step_incl N offs c1 c2 : incl offs (gen_step N offs c1 c2).
    Proof.
      unfold IndividualEq.gen_step.
      set (offs1 := match offs with [] => [c1] | _ => offs end).
      assert (I1 : incl offs offs1) by (destruct offs; [intros ? [] | apply incl_refl]).
      set (offs2 := if child_repeated c1 offs1 && (length offs1 <? N) then offs1 else offs1 ++ [c1]).
      assert (I2 : incl offs1 offs2)
        by (subst offs2; destruct (child_repeated c1 offs1 && (length offs1 <? N));
            [apply incl_refl | apply incl_appl, incl_refl]).
      assert (I3 : incl offs offs2) by (intros z Hz; auto).
      destruct (child_repeated c2 offs2 && (length offs2 <? N)); [exact I3|].
      destruct (length offs2 <? N); [|exact I3].
      intros z Hz. apply in_or_app. left. auto.
    Qed.

    (* one pass of the loop body, entered with room left (len < N), for N >= 2:
       nothing repeated is accepted; child1 is kept or is a repeat of a kept design; child2 is kept,
       or is a repeat of a kept design, or the list was already full *)
    Lemma gen_step_spec N offs c1 c2 : 2 <= N -> length offs < N -> GenNoRep offs ->
      let r := gen_step N offs c1 c2 in
      GenNoRep r /\ length r <= N /\
      (In c1 r \/ child_repeated c1 r = true) /\
      (In c2 r \/ child_repeated c2 r = true \/ length r = N).
    Proof.
      intros HN HL Hn. unfold IndividualEq.gen_step.
      set (offs1 := match offs with [] => [c1] | _ => offs end).
      assert (H1 : GenNoRep offs1 /\ length offs1 < N).
      { subst offs1. destruct offs as [|o offs']; [|auto]. split; [|cbn; lia].
        apply (GenNoRep_snoc [] c1 GenNoRep_nil). reflexivity. }
      destruct H1 as [Hn1 HL1].
      set (offs2 := if child_repeated c1 offs1 && (length offs1 <? N) then offs1 else offs1 ++ [c1]).
      assert (H2 : GenNoRep offs2 /\ length offs2 <= N /\ (In c1 offs2 \/ child_repeated c1 offs2 = true)).
      { subst offs2. apply Nat.ltb_lt in HL1 as E. rewrite E, andb_true_r.
        destruct (child_repeated c1 offs1) eqn:R.
        - repeat split; auto; lia.
        - repeat split; [apply GenNoRep_snoc; assumption | rewrite app_length; cbn; lia |].
          left. apply in_or_app. right. left. reflexivity. }
      destruct H2 as (Hn2 & HL2 & Hc1).
      destruct (length offs2 <? N) eqn:E2.
      - rewrite andb_true_r. destruct (child_repeated c2 offs2) eqn:R2.
        + repeat split; auto.
        + apply Nat.ltb_lt in E2. repeat split.
          * apply GenNoRep_snoc; assumption.
          * rewrite app_length; cbn; lia.
          * destruct Hc1 as [Hc1|Hc1]; [left; apply in_or_app; auto|].
            right. eapply child_repeated_incl; [|exact Hc1]. apply incl_appl, incl_refl.
          * left. apply in_or_app. right. left. reflexivity.
      - rewrite andb_false_r. apply Nat.ltb_ge in E2. repeat split; auto. right. right. lia.
    Qed.

    Lemma generate_left N : forall pairs offs, snd (generate N pairs offs) <= length pairs.
    Proof.
      induction pairs as [|[c1 c2] ps IH]; intros offs; cbn; destruct (N <=? length offs); cbn; auto;
        try (specialize (IH (gen_step N offs c1 c2)); lia).
    Qed.

    Lemma generate_incl N : forall pairs offs, incl offs (fst (generate N pairs offs)).
    Proof.
      induction pairs as [|[c1 c2] ps IH]; intros offs; cbn; destruct (N <=? length offs); cbn;
        try apply incl_refl.
      eapply incl_tran; [apply gen_step_incl | apply IH].
    Qed.

    Lemma generate_full N pairs offs : N <= length offs -> generate N pairs offs = (offs, length pairs).
    Proof.
      intros H. apply Nat.leb_le in H. destruct pairs as [|[? ?] ?]; cbn [IndividualEq.generate];
        rewrite H; reflexivity.
    Qed.

    (* the whole loop, N >= 2: no accepted offspring repeats an earlier accepted one, at most N are
       returned, and a child of a consumed pair that is not returned is a repeat (child == o) of a
       returned design - except the second child of the last consumed pair when the list is full *)
    Lemma generate_spec N : 2 <= N -> forall pairs offs r left,
      generate N pairs offs = (r, left) -> GenNoRep offs -> length offs <= N ->
      GenNoRep r /\ length r <= N /\
      forall k c1 c2, nth_error pairs k = Some (c1, c2) -> k < length pairs - left ->
        (In c1 r \/ child_repeated c1 r = true) /\
        (In c2 r \/ child_repeated c2 r = true \/ (S k = length pairs - left /\ length r = N)).
    Proof.
      intros HN. induction pairs as [|[d1 d2] ps IH]; intros offs r left G Hn HL.
      - cbn in G. destruct (N <=? length offs); injection G as <- <-; (split; [|split]); auto;
          intros k c1 c2 Hk; destruct k; discriminate.
      - cbn [IndividualEq.generate] in G. destruct (N <=? length offs) eqn:E.
        + injection G as <- <-. (split; [|split]); auto. intros k c1 c2 _ Hlt. cbn [length] in Hlt. lia.
        + apply Nat.leb_gt in E.
          destruct (gen_step_spec N offs d1 d2 HN E Hn) as (Sn & SL & S1 & S2).
          destruct (IH _ _ _ G Sn SL) as (Rn & RL & Rk).
          assert (Hleft : left <= length ps)
            by (pose proof (generate_left N ps (gen_step N offs d1 d2)) as Q; rewrite G in Q; exact Q).
          assert (Hincl : incl (gen_step N offs d1 d2) r)
            by (pose proof (generate_incl N ps (gen_step N offs d1 d2)) as Q; rewrite G in Q; exact Q).
          (split; [|split]); auto. intros k c1 c2 Hk Hlt. destruct k as [|k]; cbn in Hk.
          * injection Hk as <- <-. split.
            -- destruct S1 as [S1|S1]; [left; auto | right; eapply child_repeated_incl; eauto].
            -- destruct S2 as [S2|[S2|S2]]; [left; auto | right; left; eapply child_repeated_incl; eauto |].
               right; right. rewrite generate_full in G by lia. injection G as <- <-.
               cbn [length]. split; [lia | exact S2].
          * cbn [length] in Hlt |- *. destruct (Rk k c1 c2 Hk ltac:(lia)) as (A & B). split; [exact A|].
            destruct B as [B|[B|[B1 B2]]]; auto. right; right; split; [lia | assumption].
    Qed.

    (* the same with the repeat spelled out: a discarded child is within the tolerance, in every
       coordinate, of a design that was kept *)
    Lemma generate_discards_only_repeats N pairs r left : 2 <= N -> generate N pairs [] = (r, left) ->
      forall k c1 c2, nth_error pairs k = Some (c1, c2) -> k < length pairs - left ->
        (In c1 r \/ exists o, In o r /\ ind_eq (ivec c1) (ivec o) = Some true) /\
        (In c2 r \/ (exists o, In o r /\ ind_eq (ivec c2) (ivec o) = Some true) \/
         (S k = length pairs - left /\ length r = N)).
    Proof.
      intros HN G k c1 c2 Hk Hlt.
      destruct (generate_spec N HN pairs [] r left G GenNoRep_nil ltac:(cbn; lia)) as (_ & _ & Rk).
      destruct (Rk k c1 c2 Hk Hlt) as (A & B). rewrite !child_repeated_spec in *. tauto.
    Qed.

    Lemma generate_accepts_no_repeat N pairs r left : 2 <= N -> generate N pairs [] = (r, left) ->
      length r <= N /\
      forall l1 e l2, r = l1 ++ e :: l2 -> forall o, In o l1 -> ind_eq (ivec e) (ivec o) <> Some true.
    Proof.
      intros HN G.
      destruct (generate_spec N HN pairs [] r left G GenNoRep_nil ltac:(cbn; lia)) as (Rn & RL & _).
      split; [exact RL|]. intros l1 e l2 Heq o Ho C.
      specialize (Rn l1 e l2 Heq). rewrite <- not_true_iff_false in Rn. apply Rn.
      apply child_repeated_spec. exists o. auto.
    Qed.
  End Containers.
End IndEqProofs.
