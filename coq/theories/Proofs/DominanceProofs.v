From Coq Require Import List ZArith Bool Arith Lia.
From Artap Require Import Base.Ord Model.Dominance.
Import ListNotations.

Section DomProofs.
  Context {T : Type} (ltb : T -> T -> bool) (H : SWO ltb).
  Local Notation scan := (scan ltb).
  Local Notation pareto_compare := (pareto_compare ltb).

  (* exists i, p_i < q_i  (over the zipped prefix) *)
  Fixpoint better (p q : list T) : bool :=
    match p, q with a :: p', b :: q' => ltb a b || better p' q' | _, _ => false end.

  Definition verdict_of (bp bq : bool) : nat :=
    if bp && bq then 0 else if bp then 1 else if bq then 2 else 0.

  Lemma scan_spec : forall p q dp dq,
    scan dp dq p q = verdict_of (dp || better p q) (dq || better q p).
  Proof.
    unfold verdict_of.
    induction p as [|a p IH]; intros q dp dq.
    - cbn. destruct q; cbn; rewrite !orb_false_r; destruct dp, dq; reflexivity.
    - destruct q as [|b q].
      + cbn. rewrite !orb_false_r; destruct dp, dq; reflexivity.
      + cbn [Dominance.scan better].
        destruct (ltb b a) eqn:Hba.
        * rewrite (lt_asym ltb H _ _ Hba). destruct dp; rewrite ?IH; cbn;
            destruct dq, (better p q), (better q p); reflexivity.
        * destruct (ltb a b) eqn:Hab.
          -- destruct dq; rewrite ?IH; cbn; destruct dp, (better p q), (better q p); reflexivity.
          -- rewrite IH; cbn; destruct dp, dq, (better p q), (better q p); reflexivity.
  Qed.

  Definition cmp0 (p q : list T) := scan false false p q.
  Lemma cmp0_spec p q : cmp0 p q = verdict_of (better p q) (better q p).
  Proof. unfold cmp0. rewrite scan_spec. reflexivity. Qed.

  Lemma better_irrefl p : better p p = false.
  Proof. induction p; cbn; rewrite ?(lt_irrefl _ H), ?IHp; reflexivity. Qed.

  Definition swap (v : nat) : nat := match v with 1 => 2 | 2 => 1 | _ => 0 end.

  Lemma cmp0_irrefl p : cmp0 p p = 0.
  Proof. rewrite cmp0_spec, better_irrefl. reflexivity. Qed.
  Lemma cmp0_antisym p q : cmp0 q p = swap (cmp0 p q).
  Proof. rewrite !cmp0_spec. unfold verdict_of. destruct (better p q), (better q p); reflexivity. Qed.
  Lemma cmp0_range p q : cmp0 p q <= 2.
  Proof. rewrite cmp0_spec. unfold verdict_of. destruct (better p q), (better q p); cbn; lia. Qed.

  Lemma better_trans : forall p q r, length p = length q -> length q = length r ->
    better q p = false -> better r q = false -> better r p = false.
  Proof.
    induction p as [|a p IH]; intros [|b q] [|c r] L1 L2 H1 H2; try discriminate; try reflexivity.
    cbn in *. apply orb_false_elim in H1 as [H1 H1']. apply orb_false_elim in H2 as [H2 H2'].
    rewrite (lt_negtrans _ H c b a H2 H1). cbn. apply (IH q r); auto; lia.
  Qed.
  Lemma better_weak_trans : forall p q r, length p = length q -> length q = length r ->
    better q p = false -> better r q = false -> better p q = true -> better p r = true.
  Proof.
    induction p as [|a p IH]; intros [|b q] [|c r] L1 L2 H1 H2 H3; try discriminate.
    cbn in *. apply orb_false_elim in H1 as [H1 H1']. apply orb_false_elim in H2 as [H2 H2'].
    apply orb_true_iff in H3 as [H3|H3].
    - destruct (ltb a c) eqn:E; [reflexivity|]. exfalso.
      rewrite (lt_negtrans _ H a c b E H2) in H3. discriminate.
    - assert (better p r = true) as -> by (apply (IH q r); auto; lia). apply orb_true_r.
  Qed.
  Lemma better_weak_trans' : forall p q r, length p = length q -> length q = length r ->
    better q p = false -> better r q = false -> better q r = true -> better p r = true.
  Proof.
    induction p as [|a p IH]; intros [|b q] [|c r] L1 L2 H1 H2 H3; try discriminate.
    cbn in *. apply orb_false_elim in H1 as [H1 H1']. apply orb_false_elim in H2 as [H2 H2'].
    apply orb_true_iff in H3 as [H3|H3].
    - destruct (ltb a c) eqn:E; [reflexivity|]. exfalso.
      rewrite (lt_negtrans _ H b a c H1 E) in H3. discriminate.
    - assert (better p r = true) as -> by (apply (IH q r); auto; lia). apply orb_true_r.
  Qed.

  Lemma cmp0_trans p q r : length p = length q -> length q = length r ->
    cmp0 p q = 1 -> cmp0 q r = 1 -> cmp0 p r = 1.
  Proof.
    intros L1 L2. rewrite !cmp0_spec. unfold verdict_of.
    destruct (better p q) eqn:A, (better q p) eqn:B; try discriminate. intros _.
    destruct (better q r) eqn:C, (better r q) eqn:D; try discriminate. intros _.
    rewrite (better_trans p q r L1 L2 B D), (better_weak_trans p q r L1 L2 B D A). reflexivity.
  Qed.

  (* --- declarative dominance ------------------------------------------- *)
  Definition weakly (p q : list T) : Prop := Forall2 (fun a b => ltb b a = false) p q.
  Definition strictly (p q : list T) : Prop :=
    Exists (fun ab => ltb (fst ab) (snd ab) = true) (combine p q).
  Definition dominates (p q : list T) : Prop := weakly p q /\ strictly p q.

  Lemma better_strictly p q : better p q = true <-> strictly p q.
  Proof.
    unfold strictly. revert q; induction p as [|a p IH]; intros [|b q]; cbn;
      try (split; [discriminate | intros E; inversion E]).
    rewrite orb_true_iff, IH, Exists_cons. reflexivity.
  Qed.
  Lemma nbetter_weakly p q : length p = length q -> (better q p = false <-> weakly p q).
  Proof.
    unfold weakly. revert q; induction p as [|a p IH]; intros [|b q] L; try discriminate; cbn.
    - split; [constructor | reflexivity].
    - rewrite orb_false_iff. injection L as L. rewrite (IH q L). split.
      + intros [A B]; constructor; assumption.
      + intros F; inversion F; subst; split; assumption.
  Qed.

  Lemma cmp0_dominates p q : length p = length q ->
    (cmp0 p q = 1 <-> dominates p q) /\ (cmp0 p q = 2 <-> dominates q p) /\
    (cmp0 p q = 0 <-> ~ dominates p q /\ ~ dominates q p).
  Proof.
    intros L. unfold dominates. rewrite cmp0_spec. unfold verdict_of.
    rewrite <- !better_strictly, <- (nbetter_weakly p q L), <- (nbetter_weakly q p (eq_sym L)).
    destruct (better p q), (better q p); cbn; repeat split; try discriminate; try tauto;
      intros; intuition congruence.
  Qed.

  (* --- markers --------------------------------------------------------- *)
  Local Open Scope Z_scope.
  Lemma marker_verdict_lex pm qm :
    marker_verdict pm qm =
      if Z.abs pm <? Z.abs qm then Some 1%nat
      else if Z.abs qm <? Z.abs pm then Some 2%nat else None.
  Proof.
    unfold marker_verdict.
    destruct (pm =? qm) eqn:E1; [apply Z.eqb_eq in E1; subst;
      rewrite Z.ltb_irrefl; reflexivity|].
    apply Z.eqb_neq in E1.
    destruct (pm =? 0) eqn:E2; [apply Z.eqb_eq in E2; subst|apply Z.eqb_neq in E2].
    - assert (Z.abs 0 <? Z.abs qm = true) as -> by (apply Z.ltb_lt; lia). reflexivity.
    - destruct (qm =? 0) eqn:E3; [apply Z.eqb_eq in E3; subst|apply Z.eqb_neq in E3].
      + assert (Z.abs pm <? Z.abs 0 = false) as -> by (apply Z.ltb_ge; lia).
        assert (Z.abs 0 <? Z.abs pm = true) as -> by (apply Z.ltb_lt; lia). reflexivity.
      + reflexivity.
  Qed.

  Theorem pareto_marker_lex pc qc pm qm :
    pareto_compare (pc, pm) (qc, qm) =
      if Z.abs pm <? Z.abs qm then 1%nat else if Z.abs qm <? Z.abs pm then 2%nat
      else pareto_compare (pc, 0) (qc, 0).
  Proof.
    unfold pareto_compare; cbn [fst snd]. rewrite marker_verdict_lex.
    destruct (Z.abs pm <? Z.abs qm); [reflexivity|].
    destruct (Z.abs qm <? Z.abs pm); reflexivity.
  Qed.

  Lemma pareto_same_marker pc qc m : pareto_compare (pc, m) (qc, m) = cmp0 pc qc.
  Proof.
    unfold pareto_compare; cbn [fst snd]. rewrite marker_verdict_lex, Z.ltb_irrefl. reflexivity.
  Qed.

  Lemma pareto_lex pc qc pm qm :
    pareto_compare (pc, pm) (qc, qm) =
      if Z.abs pm <? Z.abs qm then 1%nat else if Z.abs qm <? Z.abs pm then 2%nat
      else cmp0 pc qc.
  Proof. rewrite pareto_marker_lex, pareto_same_marker. reflexivity. Qed.

  Theorem pareto_spec pc qc m : length pc = length qc ->
    (pareto_compare (pc, m) (qc, m) = 1%nat <-> dominates pc qc) /\
    (pareto_compare (pc, m) (qc, m) = 2%nat <-> dominates qc pc) /\
    (pareto_compare (pc, m) (qc, m) = 0%nat <-> ~ dominates pc qc /\ ~ dominates qc pc).
  Proof. intros L. rewrite pareto_same_marker. apply cmp0_dominates; assumption. Qed.

  Theorem pareto_range p q : (pareto_compare p q <= 2)%nat.
  Proof.
    destruct p as [pc pm], q as [qc qm]. rewrite pareto_lex.
    destruct (Z.abs pm <? Z.abs qm); [lia|]. destruct (Z.abs qm <? Z.abs pm); [lia|].
    apply cmp0_range.
  Qed.

  Theorem pareto_irrefl p : pareto_compare p p = 0%nat.
  Proof. destruct p as [pc pm]. rewrite pareto_same_marker. apply cmp0_irrefl. Qed.

  Theorem pareto_antisym p q : pareto_compare q p = swap (pareto_compare p q).
  Proof.
    destruct p as [pc pm], q as [qc qm]. rewrite !pareto_lex.
    destruct (Z.abs pm <? Z.abs qm) eqn:A, (Z.abs qm <? Z.abs pm) eqn:B; try reflexivity.
    - apply Z.ltb_lt in A, B. lia.
    - apply cmp0_antisym.
  Qed.

  Definition same_len (p q : list T * Z) : Prop := length (fst p) = length (fst q).

  Theorem pareto_trans p q r : same_len p q -> same_len q r ->
    pareto_compare p q = 1%nat -> pareto_compare q r = 1%nat -> pareto_compare p r = 1%nat.
  Proof.
    destruct p as [pc pm], q as [qc qm], r as [rc rm]. unfold same_len; cbn [fst].
    intros L1 L2. rewrite !pareto_lex.
    destruct (Z.abs pm <? Z.abs qm) eqn:A.
    - intros _. destruct (Z.abs qm <? Z.abs rm) eqn:B.
      + intros _. apply Z.ltb_lt in A, B.
        assert (Z.abs pm <? Z.abs rm = true) as -> by (apply Z.ltb_lt; lia). reflexivity.
      + destruct (Z.abs rm <? Z.abs qm) eqn:C; [discriminate|]. intros _.
        apply Z.ltb_lt in A. apply Z.ltb_ge in B, C.
        assert (Z.abs pm <? Z.abs rm = true) as -> by (apply Z.ltb_lt; lia). reflexivity.
    - destruct (Z.abs qm <? Z.abs pm) eqn:A'; [discriminate|]. intros E1.
      destruct (Z.abs qm <? Z.abs rm) eqn:B.
      + intros _. apply Z.ltb_ge in A, A'. apply Z.ltb_lt in B.
        assert (Z.abs pm <? Z.abs rm = true) as -> by (apply Z.ltb_lt; lia). reflexivity.
      + destruct (Z.abs rm <? Z.abs qm) eqn:C; [discriminate|]. intros E2.
        apply Z.ltb_ge in A, A', B, C.
        assert (Z.abs pm <? Z.abs rm = false) as -> by (apply Z.ltb_ge; lia).
        assert (Z.abs rm <? Z.abs pm = false) as -> by (apply Z.ltb_ge; lia).
        eapply cmp0_trans; eauto.
  Qed.

  (* the strict order also composes with "no worse" on either side, which is what
     the sorting and archive proofs need *)
  Local Close Scope Z_scope.

  (* --- epsilon comparator ---------------------------------------------- *)
  Section Eps.
    Variable sc : nat -> T -> T.
    Local Notation escan := (escan ltb sc).
    Local Notation eps_compare := (eps_compare ltb sc).

    Fixpoint ebetter (i : nat) (p q : list T) : bool :=
      match p, q with
      | a :: p', b :: q' => ltb (sc i a) (sc i b) || ebetter (S i) p' q'
      | _, _ => false
      end.

    Lemma escan_spec : forall p q i dp dq, dp && dq = false ->
      escan i dp dq p q =
        let bp := dp || ebetter i p q in let bq := dq || ebetter i q p in
        if bp && bq then Some 0 else if bp then Some 1 else if bq then Some 2 else None.
    Proof.
      induction p as [|a p IH]; intros q i dp dq Hd.
      - cbn. destruct q; cbn; rewrite !orb_false_r; destruct dp, dq; try discriminate; reflexivity.
      - destruct q as [|b q].
        + cbn. rewrite !orb_false_r; destruct dp, dq; try discriminate; reflexivity.
        + cbn [Dominance.escan ebetter].
          destruct (ltb (sc i b) (sc i a)) eqn:Hba.
          * rewrite (lt_asym ltb H _ _ Hba). destruct dp; rewrite ?IH by reflexivity; cbn;
              destruct dq, (ebetter (S i) p q), (ebetter (S i) q p); try discriminate; reflexivity.
          * destruct (ltb (sc i a) (sc i b)) eqn:Hab.
            -- destruct dq; rewrite ?IH by (rewrite ?andb_false_r; reflexivity); cbn;
                 destruct dp, (ebetter (S i) p q), (ebetter (S i) q p); try discriminate; reflexivity.
            -- rewrite IH by assumption; cbn;
                 destruct dp, dq, (ebetter (S i) p q), (ebetter (S i) q p); try discriminate; reflexivity.
    Qed.

    (* coordinates that differ stay strictly ordered after scaling *)
    Definition separated_from (i0 : nat) (pc qc : list T) : Prop :=
      forall i a b, nth_error pc i = Some a -> nth_error qc i = Some b ->
        (ltb a b = true -> ltb (sc (i0 + i) a) (sc (i0 + i) b) = true) /\
        (ltb b a = true -> ltb (sc (i0 + i) b) (sc (i0 + i) a) = true) /\
        (ltb a b = false -> ltb b a = false ->
           ltb (sc (i0 + i) a) (sc (i0 + i) b) = false /\ ltb (sc (i0 + i) b) (sc (i0 + i) a) = false).
    Definition separated := separated_from 0.

    Lemma separated_tail i0 a b pc qc :
      separated_from i0 (a :: pc) (b :: qc) -> separated_from (S i0) pc qc.
    Proof.
      intros Sp i x y Hx Hy. specialize (Sp (S i) x y Hx Hy).
      replace (i0 + S i) with (S i0 + i) in Sp by lia. exact Sp.
    Qed.

    Lemma ebetter_better : forall pc qc i0, separated_from i0 pc qc ->
      ebetter i0 pc qc = better pc qc.
    Proof.
      induction pc as [|a pc IH]; intros [|b qc] i0 Sp; try reflexivity.
      cbn. rewrite (IH qc (S i0) (separated_tail _ _ _ _ _ Sp)). f_equal.
      destruct (Sp 0 a b eq_refl eq_refl) as (S1 & S2 & S3). rewrite Nat.add_0_r in *.
      destruct (ltb a b) eqn:E; [auto|].
      destruct (ltb b a) eqn:F.
      - apply (lt_asym ltb H). auto.
      - apply S3; reflexivity.
    Qed.

    Lemma separated_sym i0 pc qc : separated_from i0 pc qc -> separated_from i0 qc pc.
    Proof.
      intros Sp i a b Ha Hb. destruct (Sp i b a Hb Ha) as (S1 & S2 & S3).
      repeat split; auto; intros; apply S3; auto.
    Qed.

    Theorem eps_agrees d1 d2 pc qc pm qm : separated pc qc ->
      better pc qc = true \/ better qc pc = true \/ Z.abs pm <> Z.abs qm ->
      eps_compare d1 d2 (pc, pm) (qc, qm) = pareto_compare (pc, pm) (qc, qm).
    Proof.
      intros Sp D. unfold Dominance.eps_compare, Dominance.pareto_compare; cbn [fst snd].
      rewrite marker_verdict_lex.
      destruct (Z.abs pm <? Z.abs qm)%Z eqn:A; [reflexivity|].
      destruct (Z.abs qm <? Z.abs pm)%Z eqn:B; [reflexivity|].
      rewrite escan_spec by reflexivity. rewrite scan_spec. cbn [orb].
      rewrite (ebetter_better pc qc 0 Sp), (ebetter_better qc pc 0 (separated_sym _ _ _ Sp)).
      unfold verdict_of.
      destruct (better pc qc) eqn:E, (better qc pc) eqn:F; cbn; try reflexivity.
      exfalso. destruct D as [D|[D|D]]; try discriminate.
      apply Z.ltb_ge in A, B. lia.
    Qed.

    Lemma ebetter_irrefl : forall p i, ebetter i p p = false.
    Proof. induction p; intros; cbn; rewrite ?(lt_irrefl _ H), ?IHp; reflexivity. Qed.

    Theorem eps_names_loser d1 d2 pc m :
      eps_compare d1 d2 (pc, m) (pc, m) = 1 \/ eps_compare d1 d2 (pc, m) (pc, m) = 2.
    Proof.
      unfold Dominance.eps_compare; cbn [fst snd].
      rewrite marker_verdict_lex, Z.ltb_irrefl, escan_spec by reflexivity. rewrite ebetter_irrefl. cbn.
      destruct (ltb d1 d2); auto.
    Qed.

    Theorem eps_identical_rejects d pc m : eps_compare d d (pc, m) (pc, m) = 2.
    Proof.
      unfold Dominance.eps_compare; cbn [fst snd].
      rewrite marker_verdict_lex, Z.ltb_irrefl, escan_spec by reflexivity. rewrite ebetter_irrefl. cbn.
      rewrite (lt_irrefl _ H). reflexivity.
    Qed.

    (* never "neither" when no coordinate differs after scaling, and the verdict
       range is 0..2 in general *)
    Theorem eps_range d1 d2 p q : eps_compare d1 d2 p q <= 2.
    Proof.
      destruct p as [pc pm], q as [qc qm]. unfold Dominance.eps_compare; cbn [fst snd].
      rewrite marker_verdict_lex.
      destruct (Z.abs pm <? Z.abs qm)%Z; [lia|]. destruct (Z.abs qm <? Z.abs pm)%Z; [lia|].
      rewrite escan_spec by reflexivity. cbn [orb].
      destruct (ebetter 0 pc qc), (ebetter 0 qc pc); cbn; try lia. destruct (ltb d1 d2); lia.
    Qed.
  End Eps.
End DomProofs.
