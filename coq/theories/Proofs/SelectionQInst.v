(* The exact-rational instance of the arithmetic premises of crowding_bounds (C03):
   for Q with + - / the premises are theorems, so the bounds hold unconditionally there. *)
From Coq Require Import List ZArith QArith Bool Lia Lqa.
From Artap Require Import Base.Ord Base.QInst Model.Selection Proofs.SelectionProofs.
Import ListNotations.
Local Open Scope Q_scope.

Definition Qbound (k : nat) : Q := inject_Z (Z.of_nat k).

Lemma Qleb_spec x y : Ord.leb Qltb x y = true <-> x <= y.
Proof. unfold Ord.leb. rewrite negb_true_iff. apply Qltb_false. Qed.

Lemma Qbound_succ k : Qbound (S k) == Qbound k + 1.
Proof. unfold Qbound. rewrite Nat2Z.inj_succ. unfold Z.succ. rewrite inject_Z_plus. reflexivity. Qed.

Lemma Q_term_bounds : term_bounds_hyp Qltb Qminus Qdiv 0 1.
Proof.
  intros lo a b hi. rewrite !Qleb_spec, Qltb_spec. intros H1 H2 H3 Hpos. split.
  - apply Qle_shift_div_l; [exact Hpos|]. lra.
  - apply Qle_shift_div_r; [exact Hpos|]. lra.
Qed.

Lemma Q_add_bounds : add_bounds_hyp Qltb Qplus 0 1 Qbound.
Proof.
  intros k v t. rewrite !Qleb_spec, Qbound_succ. generalize (Qbound k). intros q ? ? ? ?. split; lra.
Qed.

Lemma Q_bound_mono : bound_mono_hyp Qltb Qbound.
Proof. intros k. rewrite Qleb_spec, Qbound_succ. generalize (Qbound k). intros q. lra. Qed.

Lemma Q_bound_start : bound_start_hyp Qltb 0 Qbound.
Proof. unfold bound_start_hyp. rewrite Qleb_spec. unfold Qbound, Qle. cbn. lia. Qed.

Theorem crowding_bounds_Q {A : Type} (costs : A -> list Q) f x v :
  In (x, Fin v) (crowding Qltb Qplus Qminus Qdiv 0 costs f) ->
  0 <= v /\ v <= inject_Z (Z.of_nat (nobj costs f)).
Proof.
  intros Hin.
  destruct (crowding_bounds Qltb Qltb_SWO Qplus Qminus Qdiv 0 1 Qbound costs
              Q_term_bounds Q_add_bounds Q_bound_mono Q_bound_start f x v Hin) as [B0 B1].
  apply Qleb_spec in B0. apply Qleb_spec in B1. split; assumption.
Qed.

(* the premise of crowding_interior_formula for Q *)
Lemma Q_sub_pos : forall a b, Qltb a b = true -> Qltb 0 (b - a) = true.
Proof. intros a b. rewrite !Qltb_spec. lra. Qed.
