(* C13, Plackett-Burman: the construction of Model/Doe.v (seed matrices, Kronecker doubling,
   column selection, flip) is evaluated by the kernel for the whole family n = 1..23 and the
   boolean checker is reflected into a Prop-level specification. *)
From Coq Require Import List ZArith Bool Arith Lia.
From Artap Require Import Model.Doe Proofs.DoeLists Proofs.DoeFullfact.
Import ListNotations.
Local Open Scope nat_scope.

Definition col (j : nat) (m : mat) : list Z := map (fun r => nth j r 0%Z) m.
Definition zsum (l : list Z) : Z := fold_right Z.add 0%Z l.
Fixpoint dot (a b : list Z) : Z :=
  match a, b with
  | x :: a', y :: b' => (x * y + dot a' b')%Z
  | _, _ => 0%Z
  end.

(* what the property asks of the coded design for n factors *)
Record pb_spec (n : nat) (m : mat) : Prop := {
  pb_runs : length m = 4 * (n / 4 + 1);                     (* next multiple of four above n *)
  pb_entries : forall r, In r m -> length r = n /\ forall x, In x r -> x = (-1)%Z \/ x = 1%Z;
  pb_balanced : forall j, j < n -> zsum (col j m) = 0%Z;    (* as many +1 as -1 in every column *)
  pb_orthogonal : forall i j, i < n -> j < n -> i <> j -> dot (col i m) (col j m) = 0%Z }.

Definition pb_matrix_ok (n : nat) (m : mat) : bool :=
  (length m =? 4 * (n / 4 + 1)) &&
  forallb (fun r => (length r =? n) && forallb (fun x => (x =? -1)%Z || (x =? 1)%Z) r) m &&
  forallb (fun j => (zsum (col j m) =? 0)%Z) (seq 0 n) &&
  forallb (fun i => forallb (fun j => (i =? j) || (dot (col i m) (col j m) =? 0)%Z) (seq 0 n)) (seq 0 n).

Definition pb_ok (n : nat) : bool :=
  match pbdesign n with Ok m => pb_matrix_ok n m | Err _ => false end.

Lemma pb_matrix_ok_spec n m : pb_matrix_ok n m = true -> pb_spec n m.
Proof.
  unfold pb_matrix_ok. rewrite !andb_true_iff. intros [[[A B] C] D].
  rewrite forallb_forall in B, C, D. constructor.
  - apply Nat.eqb_eq. exact A.
  - intros r I. specialize (B r I). rewrite andb_true_iff in B. destruct B as [B1 B2]. split.
    + apply Nat.eqb_eq. exact B1.
    + intros x Ix. rewrite forallb_forall in B2. specialize (B2 x Ix).
      rewrite orb_true_iff, !Z.eqb_eq in B2. exact B2.
  - intros j Lj. apply Z.eqb_eq. apply C. apply in_seq. lia.
  - intros i j Li Lj Ne. assert (In i (seq 0 n)) as Ii by (apply in_seq; lia).
    specialize (D i Ii). rewrite forallb_forall in D.
    assert (In j (seq 0 n)) as Ij by (apply in_seq; lia). specialize (D j Ij).
    rewrite orb_true_iff in D. destruct D as [E|E]; [apply Nat.eqb_eq in E; contradiction|].
    apply Z.eqb_eq. exact E.
Qed.

Lemma pb_family : forallb pb_ok (seq 1 23) = true.
Proof. vm_compute. reflexivity. Qed.

Theorem pb_structure : forall n, 1 <= n <= 23 -> exists m, pbdesign n = Ok m /\ pb_spec n m.
Proof.
  intros n Hn. pose proof pb_family as F. rewrite forallb_forall in F.
  assert (In n (seq 1 23)) as I by (apply in_seq; lia). specialize (F n I).
  unfold pb_ok in F. destruct (pbdesign n) as [m|e]; [|discriminate].
  exists m. split; [reflexivity|]. apply pb_matrix_ok_spec. exact F.
Qed.

Definition pb_rejected (n : nat) : bool :=
  match pbdesign n with Err EAssert => true | _ => false end.

Lemma pb_reject_family : forallb pb_rejected (0 :: seq 24 4) = true.
Proof. vm_compute. reflexivity. Qed.

(* the sizes the code rejects (assert): 0 and 24..27 (28 is not 2^e, 12*2^e or 20*2^e) *)
Theorem pb_rejects : forall n, n = 0 \/ 24 <= n <= 27 -> pbdesign n = Err EAssert.
Proof.
  intros n Hn. pose proof pb_reject_family as F. rewrite forallb_forall in F.
  assert (In n (0 :: seq 24 4)) as I.
  { destruct Hn as [E|Hn]; [left; symmetry; exact E|right; apply in_seq; lia]. }
  specialize (F n I). unfold pb_rejected in F.
  destruct (pbdesign n) as [m|[| | |]]; try discriminate. reflexivity.
Qed.

(* ---------------------------------------------------------------- level values ------ *)
Section Levels.
  Context {T : Type}.

  Lemma pb_index_lt code : forall (fl : list (list T)),
    length code = length fl -> (forall x, In x code -> x = (-1)%Z \/ x = 1%Z) ->
    Forall (fun l => length l = 2) fl ->
    Forall2 lt (map pb_index code) (map (@length T) fl).
  Proof.
    induction code as [|x code IH]; intros fl L E F; destruct fl as [|l fl]; try discriminate; simpl.
    - constructor.
    - inversion F as [|? ? Hl F']; subst. constructor.
      + rewrite Hl. destruct (E x (or_introl eq_refl)) as [-> | ->]; vm_compute; lia.
      + apply IH; [simpl in L; lia|intros y Iy; apply E; right; exact Iy|exact F'].
  Qed.

  (* PlackettBurmanGenerator on n = 1..23 two-level factors [l_b, u_b]: the run count, and every
     run takes in factor j the value l_b (code -1) or u_b (code +1) of a coded design that is
     balanced and orthogonal *)
  Theorem pb_levels (fl : list (list T)) :
    1 <= length fl <= 23 -> Forall (fun l => length l = 2) fl ->
    exists m rows,
      pbdesign (length fl) = Ok m /\ pb_spec (length fl) m /\
      build_plackett_burman fl = Ok rows /\
      length rows = 4 * (length fl / 4 + 1) /\
      Forall2 (fun code r => select_row (map pb_index code) fl = Ok r) m rows /\
      forall r, In r rows -> Forall2 (@In T) r fl.
  Proof.
    intros Hn F. destruct (pb_structure _ Hn) as (m & Em & S). exists m.
    destruct (construct_df_ok (map (map pb_index) m) fl) as (rows & Erows).
    { intros row I. apply in_map_iff in I. destruct I as (code & <- & Ic).
      destruct (pb_entries _ _ S code Ic) as [Lc Ec].
      apply select_row_ok. apply pb_index_lt; assumption. }
    pose proof (construct_df_rel _ _ _ Erows) as Rel.
    exists rows. split; [exact Em|]. split; [exact S|].
    split; [unfold build_plackett_burman; rewrite Em; exact Erows|].
    split; [rewrite <- (Forall2_len _ _ _ Rel), map_length; apply (pb_runs _ _ S)|].
    assert (Forall2 (fun code r => select_row (map pb_index code) fl = Ok r) m rows) as Rel'.
    { clear -Rel. remember (map (map pb_index) m) as x eqn:Ex. revert m Ex.
      induction Rel as [|row r x rows Er Rel IH]; intros m Ex; destruct m as [|code m]; try discriminate;
        [constructor|]. inversion Ex; subst. constructor; [exact Er|]. apply IH. reflexivity. }
    split; [exact Rel'|].
    intros r Ir. destruct (Forall2_In_r _ _ _ _ Rel' Ir) as (code & Ic & Er).
    eapply select_row_In; [exact Er|]. rewrite map_length. apply (pb_entries _ _ S code Ic).
  Qed.
End Levels.
