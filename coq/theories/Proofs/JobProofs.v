(* Proofs about Model/Job.v (shared by C05 and C06). *)
From Coq Require Import List Bool Arith Lia ZArith.
From Artap Require Import Model.Job Model.Dominance Proofs.DominanceProofs.
Import ListNotations.
Local Open Scope nat_scope.

(* ------------------------------------------------------------------ lists *)
Section ListFacts.
  Context {A : Type}.

  Lemma length_upd (l : list A) n x : length (upd l n x) = length l.
  Proof. revert n; induction l as [|y l IH]; intros [|n]; cbn; auto. Qed.

  Lemma nth_error_upd_same (l : list A) n x : n < length l -> nth_error (upd l n x) n = Some x.
  Proof.
    revert n; induction l as [|y l IH]; intros [|n] L; cbn in *; try lia; auto. apply IH; lia.
  Qed.

  Lemma nth_error_upd_other (l : list A) n m x : n <> m -> nth_error (upd l n x) m = nth_error l m.
  Proof.
    revert n m; induction l as [|y l IH]; intros [|n] [|m] D; cbn; auto; try congruence.
  Qed.

  Lemma nth_error_app_new (l : list A) x : nth_error (l ++ [x]) (length l) = Some x.
  Proof. rewrite nth_error_app2 by lia. rewrite Nat.sub_diag. reflexivity. Qed.

  Lemma filter_all_false (f : A -> bool) l : Forall (fun x => f x = false) l -> filter f l = [].
  Proof. induction 1 as [|x l H _ IH]; cbn; [reflexivity|]. rewrite H. exact IH. Qed.

  Lemma filter_all_true (f : A -> bool) l : Forall (fun x => f x = true) l -> filter f l = l.
  Proof. induction 1 as [|x l H _ IH]; cbn; [reflexivity|]. rewrite H, IH. reflexivity. Qed.

  Lemma filter_len_le (f : A -> bool) l : length (filter f l) <= length l.
  Proof. induction l as [|x l IH]; cbn; [lia|]. destruct (f x); cbn; lia. Qed.
End ListFacts.

Section JobFacts.
  Variable T : Type.
  Variable ltb : T -> T -> bool.
  Variable zero : T.
  Variable roundp : nat -> T -> T.
  Variable smul : bool -> T -> T.

  Notation ind := (ind T).
  Notation call := (call T).
  Notation env := (env T).
  Notation state := (state T).
  Notation attempt := (attempt ltb zero roundp smul).
  Notation attempts := (attempts ltb zero roundp smul).
  Notation job_evaluate := (job_evaluate ltb zero roundp smul).
  Notation evaluate_serial := (evaluate_serial ltb zero roundp smul).
  Notation evaluate_history := (evaluate_history ltb zero roundp smul).
  Notation evaluate_scalar := (evaluate_scalar ltb zero roundp smul).
  Notation sweep := (sweep ltb zero roundp smul).
  Notation signed_costs := (signed_costs roundp smul).
  Notation feasible_of := (feasible_of ltb zero).

  Definition mkcall (n id att : nat) (v : list T) : call :=
    {| c_no := n; c_id := id; c_att := att; c_vec := v |}.

  Definition ok_b (e : env) (c : call) : bool := match e_obj e c with Ok _ => true | _ => false end.
  Definition tr_b (e : env) (c : call) : bool := match e_obj e c with Transient => true | _ => false end.
  Definition calls_of (id : nat) (l : list call) : list call := filter (fun c => c_id c =? id) l.
  Definition okc (e : env) (id : nat) (l : list call) : list call :=
    filter (fun c => (c_id c =? id) && ok_b e c) l.
  Definition failed_of (e : env) (l : list call) : list ind :=
    map (fun c => mk_failed (c_vec c)) (filter (tr_b e) l).

  (* the calls of one job: numbered consecutively, same design, attempts att, att+1, ...; the first is made
     with v, every later one with what gen_vector returned after the previous (transient) failure *)
  Fixpoint chain (e : env) (id n att : nat) (v : list T) (cs : list call) : Prop :=
    match cs with
    | [] => True
    | c :: cs' => c = mkcall n id att v /\
                  match cs' with
                  | [] => True
                  | _ => e_obj e c = Transient /\ chain e id (S n) (S att) (e_reroll e c) cs'
                  end
    end.

  (* what the individual looks like after an attempt with vector v that started with feasibility flag f0 *)
  Definition evaluated_ind (e : env) (prec : nat) (f0 : bool) (v costs : list T) : ind :=
    let feas := feasible_of f0 (e_cons e v) in
    {| ivec := v; icosts := costs; isigned := Some (signed_costs prec (e_signs e) costs feas);
       istate := Evaluated; ifeas := feas; iprec := prec |}.
  Definition rerolled_ind (i : ind) (v : list T) : ind :=
    {| ivec := v; icosts := icosts i; isigned := isigned i; istate := Empty; ifeas := false; iprec := iprec i |}.
  Definition inprogress_ind (e : env) (i : ind) (f0 : bool) (v : list T) : ind :=
    {| ivec := v; icosts := icosts i; isigned := isigned i; istate := InProgress;
       ifeas := feasible_of f0 (e_cons e v); iprec := iprec i |}.
  (* the flag the last attempt starts with: the design's own on the first attempt, False after a failure *)
  Definition flag0 (i : ind) (pre : list call) : bool := match pre with [] => ifeas i | _ => false end.

  Definition all_transient (e : env) (l : list call) : Prop := Forall (fun c => e_obj e c = Transient) l.

  Definition attempts_post (e : env) (id fuel : nat) (i : ind) (st : state) (i' : ind) (st' : state) (r : result)
             (cs : list call) : Prop :=
    match r with
    | Done => exists pre c costs, cs = pre ++ [c] /\ length cs <= fuel /\ all_transient e pre /\
                e_obj e c = Ok costs /\
                s_failed st' = s_failed st ++ map (fun c => mk_failed (c_vec c)) pre /\
                i' = evaluated_ind e (iprec i) (flag0 i pre) (c_vec c) costs /\
                s_store st' = s_store st ++ [(id, i')]
    | Raised5 => length cs = fuel /\ all_transient e cs /\
                s_failed st' = s_failed st ++ map (fun c => mk_failed (c_vec c)) cs /\
                s_store st' = s_store st /\
                i' = match rev cs with [] => i | c :: _ => rerolled_ind i (e_reroll e c) end
    | RaisedFatal k => exists pre c, cs = pre ++ [c] /\ length cs <= fuel /\ all_transient e pre /\
                e_obj e c = Fatal k /\
                s_failed st' = s_failed st ++ map (fun c => mk_failed (c_vec c)) pre /\
                s_store st' = s_store st /\
                i' = inprogress_ind e i (flag0 i pre) (c_vec c)
    end.

  Lemma attempts_spec e id : forall fuel att i st i' st' r,
    attempts e id fuel att i st = (i', st', r) ->
    exists cs,
      s_calls st' = s_calls st ++ cs /\ s_heap st' = s_heap st /\ s_pop st' = s_pop st /\
      chain e id (length (s_calls st)) att (ivec i) cs /\
      attempts_post e id fuel i st i' st' r cs.
  Proof.
    induction fuel as [|fuel IH]; intros att i st i' st' r E.
    - cbn in E. inversion E; subst. exists []. rewrite app_nil_r. repeat split; auto.
      + constructor.
      + cbn. rewrite app_nil_r. reflexivity.
    - cbn [Job.attempts] in E. unfold Job.attempt in E.
      set (c := next_call st id att (ivec i)) in *.
      destruct (e_obj e c) as [costs| |k] eqn:O.
      + inversion E; subst; clear E. exists [c]. cbn [s_calls s_heap s_pop add_store log_call].
        repeat split; auto.
        exists [], c, costs. cbn. repeat split; auto; try lia; try (now constructor); try (now rewrite app_nil_r).
      + apply IH in E. destruct E as (cs & C & H & P & Ch & Post).
        cbn [s_calls s_heap s_pop s_failed s_store add_failed log_call ivec] in *.
        exists (c :: cs). rewrite C, <- app_assoc. repeat split; auto.
        * destruct cs as [|c1 cs]; [exact I|]. split; [exact O|].
          rewrite app_length in Ch. cbn [length] in Ch. rewrite Nat.add_1_r in Ch. exact Ch.
        * unfold attempts_post in *.
          cbn [s_calls s_heap s_pop s_failed s_store add_failed log_call] in Post.
          destruct r as [| |k].
          -- destruct Post as (pre & cl & costs & -> & L & Tr & Ok' & F & I' & S').
             exists (c :: pre), cl, costs. cbn [app length map] in *. rewrite <- app_assoc in F.
             repeat split; auto; try lia.
             ++ constructor; assumption.
             ++ rewrite I'. unfold flag0. cbn [ifeas]. destruct pre; reflexivity.
          -- destruct Post as (L & Tr & F & S' & I').
             cbn [length map] in *. rewrite <- app_assoc in F. repeat split; auto.
             ++ constructor; assumption.
             ++ rewrite I'. cbn [rev]. destruct (rev cs) as [|cl rc] eqn:R; cbn; [reflexivity|].
                unfold rerolled_ind; cbn. reflexivity.
          -- destruct Post as (pre & cl & -> & L & Tr & Fa & F & S' & I').
             exists (c :: pre), cl. cbn [app length map] in *. rewrite <- app_assoc in F.
             repeat split; auto; try lia.
             ++ constructor; assumption.
             ++ rewrite I'. unfold inprogress_ind, flag0. cbn [ifeas icosts isigned]. destruct pre; reflexivity.
      + inversion E; subst; clear E. exists [c]. cbn [s_calls s_heap s_pop log_call].
        repeat split; auto.
        exists [], c. cbn. repeat split; auto; try lia; try (now constructor); try (now rewrite app_nil_r).
  Qed.
  (* ------------------------------------------------------------------ chains *)
  Lemma chain_ids e id : forall cs n att v, chain e id n att v cs -> Forall (fun c => c_id c = id) cs.
  Proof.
    induction cs as [|c cs IH]; intros n att v H; [constructor|].
    cbn in H. destruct H as [E H]. constructor; [rewrite E; reflexivity|].
    destruct cs as [|c' cs']; [constructor|]. destruct H as [_ H]. eapply IH; exact H.
  Qed.

  Lemma chain_numbers e id : forall cs n att v, chain e id n att v cs ->
    map (@c_no T) cs = seq n (length cs) /\ map (@c_att T) cs = seq att (length cs).
  Proof.
    induction cs as [|c cs IH]; intros n att v H; [split; reflexivity|].
    cbn in H. destruct H as [E H]. cbn [map length seq].
    destruct cs as [|c' cs'].
    - rewrite E. split; reflexivity.
    - destruct H as [_ H]. apply IH in H. destruct H as [H1 H2]. rewrite H1, H2, E. split; reflexivity.
  Qed.

  Lemma chain_head e id n att v c cs : chain e id n att v (c :: cs) -> c = mkcall n id att v.
  Proof. cbn. intros [E _]. exact E. Qed.

  Lemma chain_last_vec e id : forall pre n att v c, chain e id n att v (pre ++ [c]) ->
    c_vec c = match rev pre with [] => v | p :: _ => e_reroll e p end.
  Proof.
    induction pre as [|p pre IH]; intros n att v c H.
    - cbn in H. destruct H as [E _]. rewrite E. reflexivity.
    - cbn [app] in H. cbn in H. destruct H as [E H].
      destruct (pre ++ [c]) as [|x l] eqn:A; [destruct pre; discriminate|].
      destruct H as [_ H]. rewrite <- A in H. apply IH in H. rewrite H. cbn [rev].
      destruct (rev pre) as [|q rp]; reflexivity.
  Qed.

  Lemma chain_tail_att e id : forall cs n att v, chain e id n att v cs ->
    Forall (fun c => att <= c_att c) cs.
  Proof.
    induction cs as [|c cs IH]; intros n att v H; [constructor|].
    cbn in H. destruct H as [E H]. constructor; [rewrite E; cbn; lia|].
    destruct cs as [|c' cs']; [constructor|]. destruct H as [_ H]. apply IH in H.
    eapply Forall_impl; [|exact H]. cbn. intros; lia.
  Qed.

  Lemma chain_att0 e id n v c cs : chain e id n 0 v (c :: cs) ->
    filter (fun x => c_att x =? 0) (c :: cs) = [c] /\ c_vec c = v.
  Proof.
    intros H. pose proof (chain_head _ _ _ _ _ _ _ H) as E. cbn in H. destruct H as [_ H].
    cbn [filter]. rewrite E at 1. cbn [c_att mkcall Nat.eqb]. split; [|rewrite E; reflexivity]. f_equal.
    destruct cs as [|c' cs']; [reflexivity|]. destruct H as [_ H]. apply chain_tail_att in H.
    apply filter_all_false. eapply Forall_impl; [|exact H]. cbn. intros a L.
    destruct (c_att a); [lia|reflexivity].
  Qed.

  (* ------------------------------------------------------------------ filters over one job's calls *)
  Lemma tr_b_true e c : e_obj e c = Transient -> tr_b e c = true.
  Proof. unfold tr_b. intros ->. reflexivity. Qed.
  Lemma ok_b_tr e c : e_obj e c = Transient -> ok_b e c = false.
  Proof. unfold ok_b. intros ->. reflexivity. Qed.

  Lemma failed_of_app e a b : failed_of e (a ++ b) = failed_of e a ++ failed_of e b.
  Proof. unfold failed_of. rewrite filter_app, map_app. reflexivity. Qed.

  Lemma failed_of_transient e l : all_transient e l -> failed_of e l = map (fun c => mk_failed (c_vec c)) l.
  Proof.
    intros H. unfold failed_of. rewrite filter_all_true; [reflexivity|].
    eapply Forall_impl; [|exact H]. cbn. intros a. apply tr_b_true.
  Qed.

  Lemma okc_app e id a b : okc e id (a ++ b) = okc e id a ++ okc e id b.
  Proof. apply filter_app. Qed.
  Lemma calls_of_app id (a b : list call) : calls_of id (a ++ b) = calls_of id a ++ calls_of id b.
  Proof. apply filter_app. Qed.

  Lemma okc_transient e id l : all_transient e l -> okc e id l = [].
  Proof.
    intros H. apply filter_all_false. eapply Forall_impl; [|exact H]. cbn. intros a Ha.
    rewrite (ok_b_tr _ _ Ha). apply andb_false_r.
  Qed.

  Lemma calls_of_other id id' (l : list call) : id' <> id -> Forall (fun c => c_id c = id) l -> calls_of id' l = [].
  Proof.
    intros D H. apply filter_all_false. eapply Forall_impl; [|exact H]. cbn. intros a ->.
    apply Nat.eqb_neq. congruence.
  Qed.
  Lemma calls_of_same id (l : list call) : Forall (fun c => c_id c = id) l -> calls_of id l = l.
  Proof.
    intros H. apply filter_all_true. eapply Forall_impl; [|exact H]. cbn. intros a ->. apply Nat.eqb_refl.
  Qed.
  Lemma okc_sub e id l : calls_of id l = [] -> okc e id l = [].
  Proof.
    unfold calls_of, okc. induction l as [|c l IH]; cbn; [reflexivity|].
    destruct (c_id c =? id); cbn; [discriminate|]. exact IH.
  Qed.

  (* ------------------------------------------------------------------ one job *)
  Lemma job_skip e st id i :
    nth_error (s_heap st) id = Some i -> istate i = Evaluated -> job_evaluate e st id = (st, Done).
  Proof. intros H E. unfold Job.job_evaluate. rewrite H, E. reflexivity. Qed.

  Lemma job_invalid e st id : nth_error (s_heap st) id = None -> job_evaluate e st id = (st, Done).
  Proof. intros H. unfold Job.job_evaluate. rewrite H. reflexivity. Qed.

  Lemma job_spec e st id i st' r :
    nth_error (s_heap st) id = Some i -> istate i <> Evaluated -> job_evaluate e st id = (st', r) ->
    exists cs i',
      s_calls st' = s_calls st ++ cs /\ s_heap st' = upd (s_heap st) id i' /\ s_pop st' = s_pop st /\
      chain e id (length (s_calls st)) 0 (ivec i) cs /\
      attempts_post e id 5 i st i' st' r cs.
  Proof.
    intros H NE E. unfold Job.job_evaluate in E. rewrite H in E.
    destruct (attempts e id 5 0 i st) as [[i1 st1] r1] eqn:A.
    assert (E' : (set_heap st1 (upd (s_heap st1) id i1), r1) = (st', r)).
    { destruct (istate i); try exact E. congruence. }
    inversion E'; subst; clear E E'.
    apply attempts_spec in A. destruct A as (cs & C & Hh & P & Ch & Post).
    exists cs, i1. cbn [s_calls s_heap s_pop set_heap]. rewrite Hh. repeat split; auto.
  Qed.

  (* facts that hold whatever the design's state and whatever the result *)
  Lemma job_frame e st id st' r : job_evaluate e st id = (st', r) ->
    exists cs,
      s_calls st' = s_calls st ++ cs /\ length cs <= 5 /\ Forall (fun c => c_id c = id) cs /\
      length (s_heap st') = length (s_heap st) /\ s_pop st' = s_pop st /\
      (forall id', id' <> id -> nth_error (s_heap st') id' = nth_error (s_heap st) id') /\
      s_failed st' = s_failed st ++ failed_of e cs /\
      (cs <> [] -> id < length (s_heap st)).
  Proof.
    intros E. destruct (nth_error (s_heap st) id) as [i|] eqn:H.
    - destruct (dstate_eqb (istate i) Evaluated) eqn:S.
      + assert (istate i = Evaluated) by (destruct (istate i); try discriminate; reflexivity).
        rewrite (job_skip e st id i H H0) in E. inversion E; subst.
        exists []. rewrite !app_nil_r. repeat split; auto; try (cbn; lia). congruence.
      + assert (istate i <> Evaluated) by (intros X; rewrite X in S; discriminate).
        destruct (job_spec e st id i st' r H H0 E) as (cs & i' & C & Hh & P & Ch & Post).
        exists cs. rewrite Hh, length_upd. repeat split; auto.
        * unfold attempts_post in Post. destruct r as [| |k].
          -- destruct Post as (pre & c & costs & -> & L & _). exact L.
          -- destruct Post as (L & _). lia.
          -- destruct Post as (pre & c & -> & L & _). exact L.
        * eapply chain_ids; exact Ch.
        * intros id' D. apply nth_error_upd_other. congruence.
        * unfold attempts_post in Post. destruct r as [| |k].
          -- destruct Post as (pre & c & costs & -> & L & Tr & Ok' & F & _).
             rewrite F, failed_of_app, (failed_of_transient _ _ Tr). unfold failed_of. cbn.
             unfold tr_b. rewrite Ok'. cbn. rewrite app_nil_r. reflexivity.
          -- destruct Post as (L & Tr & F & _). rewrite F, (failed_of_transient _ _ Tr). reflexivity.
          -- destruct Post as (pre & c & -> & L & Tr & Fa & F & _).
             rewrite F, failed_of_app, (failed_of_transient _ _ Tr). unfold failed_of. cbn.
             unfold tr_b. rewrite Fa. cbn. rewrite app_nil_r. reflexivity.
        * intros _. apply nth_error_Some. congruence.
    - rewrite (job_invalid e st id H) in E. inversion E; subst.
      exists []. rewrite !app_nil_r. repeat split; auto; try (cbn; lia). congruence.
  Qed.
  (* ------------------------------------------------------------------ the invariant of every history *)
  (* the design holds the result of its one successful objective call *)
  Definition evaluated_by (e : env) (id : nat) (cs : list call) (i : ind) : Prop :=
    exists c costs, okc e id cs = [c] /\ e_obj e c = Ok costs /\ c_vec c = ivec i /\ icosts i = costs /\
      istate i = Evaluated /\
      isigned i = Some (signed_costs (iprec i) (e_signs e) costs (ifeas i)) /\
      (e_cons e (ivec i) <> [] -> ifeas i = forallb (fun g => ltb g zero) (e_cons e (ivec i))).
  Definition touched_ok (e : env) (id : nat) (cs : list call) (i : ind) : Prop :=
    (okc e id cs = [] /\ istate i <> Evaluated) \/ evaluated_by e id cs i.

  (* st is reachable from st0 and cs are the objective calls made since *)
  Definition R (e : env) (st0 st : state) (cs : list call) : Prop :=
    s_calls st = s_calls st0 ++ cs /\
    length (s_heap st0) <= length (s_heap st) /\
    (forall c, In c cs -> c_id c < length (s_heap st)) /\
    (forall id i, nth_error (s_heap st) id = Some i ->
       match nth_error (s_heap st0) id with
       | Some i0 => match istate i0 with
                    | Evaluated => i = i0 /\ calls_of id cs = []
                    | _ => touched_ok e id cs i
                    end
       | None => touched_ok e id cs i
       end).

  Lemma R_refl e st : R e st st [].
  Proof.
    unfold R. split; [rewrite app_nil_r; reflexivity|]. split; [lia|]. split; [intros c []|].
    intros id i H. rewrite H. destruct (istate i) eqn:S; try (left; split; [reflexivity|congruence]).
    split; reflexivity.
  Qed.

  Lemma feasible_of_nonempty f g : g <> [] -> feasible_of f g = forallb (fun v => ltb v zero) g.
  Proof. destruct g; [congruence|reflexivity]. Qed.

  (* effect of one job on its own design, given that the design had no successful call so far *)
  Lemma job_touched e st id i st' r cs :
    nth_error (s_heap st) id = Some i -> istate i <> Evaluated -> job_evaluate e st id = (st', r) ->
    okc e id cs = [] ->
    exists cs' i', s_calls st' = s_calls st ++ cs' /\ nth_error (s_heap st') id = Some i' /\
      touched_ok e id (cs ++ cs') i' /\ (r = Done -> istate i' = Evaluated).
  Proof.
    intros H NE E K. destruct (job_spec e st id i st' r H NE E) as (cs' & i' & C & Hh & P & Ch & Post).
    assert (L : id < length (s_heap st)) by (apply nth_error_Some; congruence).
    exists cs', i'. split; [exact C|]. split; [rewrite Hh; apply nth_error_upd_same; exact L|].
    pose proof (chain_ids _ _ _ _ _ _ Ch) as Ids.
    unfold attempts_post in Post. unfold touched_ok, evaluated_by. rewrite okc_app, K. cbn [app].
    destruct r as [| |k].
    - destruct Post as (pre & c & costs & -> & _ & Tr & Ok' & _ & I' & _).
      split; [|intros _; rewrite I'; reflexivity]. right. exists c, costs.
      apply Forall_app in Ids. destruct Ids as [_ Ic]. inversion Ic as [|? ? Idc _]; subst.
      rewrite okc_app, (okc_transient _ _ _ Tr). cbn [app]. unfold okc. cbn [filter].
      rewrite Nat.eqb_refl. unfold ok_b. rewrite Ok'. cbn.
      repeat split; auto. intros G. cbn in G. apply feasible_of_nonempty. exact G.
    - destruct Post as (_ & Tr & _ & _ & I'). split; [|discriminate]. left.
      split; [apply okc_transient; exact Tr|]. rewrite I'. destruct (rev cs'); [exact NE|cbn; discriminate].
    - destruct Post as (pre & c & -> & _ & Tr & Fa & _ & _ & I'). split; [|discriminate]. left. split.
      + rewrite okc_app, (okc_transient _ _ _ Tr). cbn [app]. unfold okc. cbn [filter]. unfold ok_b. rewrite Fa.
        rewrite andb_false_r. reflexivity.
      + rewrite I'. cbn. discriminate.
  Qed.

  Lemma R_job e st0 st cs id st' r :
    R e st0 st cs -> job_evaluate e st id = (st', r) ->
    exists cs', R e st0 st' (cs ++ cs') /\ s_calls st' = s_calls st ++ cs'.
  Proof.
    intros (C & Len & W & D) E.
    destruct (job_frame e st id st' r E) as (cs' & C' & _ & Ids & L' & _ & Oth & _ & Val).
    exists cs'. split; [|exact C'].
    split; [rewrite C', C, app_assoc; reflexivity|]. split; [lia|]. split.
    { intros c Hc. apply in_app_or in Hc. rewrite L'. destruct Hc as [Hc|Hc]; [apply W; exact Hc|].
      rewrite Forall_forall in Ids. rewrite (Ids c Hc). apply Val. intros ->. exact Hc. }
    intros id' i' H'.
    destruct (Nat.eq_dec id' id) as [->|Ne].
    - (* the design of the job *)
      destruct (nth_error (s_heap st) id) as [i|] eqn:Hi.
      2:{ rewrite (job_invalid e st id Hi) in E. inversion E; subst. rewrite Hi in H'. discriminate. }
      specialize (D id i Hi).
      destruct (dstate_eqb (istate i) Evaluated) eqn:S.
      + assert (Ev : istate i = Evaluated) by (destruct (istate i); try discriminate; reflexivity).
        rewrite (job_skip e st id i Hi Ev) in E. inversion E; subst st' r.
        rewrite Hi in H'. inversion H'; subst i'.
        assert (cs' = []) as ->.
        { rewrite <- (app_nil_r (s_calls st)) in C' at 1. apply app_inv_head in C'. congruence. }
        rewrite app_nil_r. exact D.
      + assert (NE : istate i <> Evaluated) by (intros X; rewrite X in S; discriminate).
        assert (K : okc e id cs = []).
        { destruct (nth_error (s_heap st0) id) as [i0|].
          - destruct (istate i0) eqn:S0; try (destruct D as [[K _]|(c & co & _ & _ & _ & _ & Ev & _)]; [exact K|congruence]).
            destruct D as [-> _]. congruence.
          - destruct D as [[K _]|(c & co & _ & _ & _ & _ & Ev & _)]; [exact K|congruence]. }
        destruct (job_touched e st id i st' r cs Hi NE E K) as (cs2 & i2 & C2 & H2 & T2 & _).
        assert (cs2 = cs') as -> by (rewrite C' in C2; apply app_inv_head in C2; congruence).
        rewrite H2 in H'. inversion H'; subst i2.
        destruct (nth_error (s_heap st0) id) as [i0|]; [|exact T2].
        destruct (istate i0) eqn:S0; try exact T2.
        destruct D as [-> _]. congruence.
    - (* any other design *)
      rewrite (Oth id' Ne) in H'. specialize (D id' i' H').
      assert (Z : calls_of id' cs' = []) by (apply calls_of_other with (id := id); auto).
      assert (Zo : okc e id' (cs ++ cs') = okc e id' cs).
      { rewrite okc_app, (okc_sub e id' cs' Z), app_nil_r. reflexivity. }
      unfold touched_ok, evaluated_by in *. rewrite Zo, calls_of_app, Z, app_nil_r. exact D.
  Qed.

  Lemma serial_frame e : forall batch st st' r, evaluate_serial e st batch = (st', r) ->
    exists cs', s_calls st' = s_calls st ++ cs' /\ length (s_heap st') = length (s_heap st) /\
      s_pop st' = s_pop st /\ s_failed st' = s_failed st ++ failed_of e cs' /\
      Forall (fun c => In (c_id c) batch) cs'.
  Proof.
    induction batch as [|id rest IH]; intros st st' r E; cbn [Job.evaluate_serial] in E.
    - inversion E; subst. exists []. rewrite !app_nil_r. repeat split; auto.
    - assert (Skip : evaluate_serial e st rest = (st', r) ->
                     exists cs', s_calls st' = s_calls st ++ cs' /\ length (s_heap st') = length (s_heap st) /\
                       s_pop st' = s_pop st /\ s_failed st' = s_failed st ++ failed_of e cs' /\
                       Forall (fun c => In (c_id c) (id :: rest)) cs').
      { intros E'. apply IH in E'. destruct E' as (cs' & A & B & C & D & F). exists cs'. repeat split; auto.
        eapply Forall_impl; [|exact F]. cbn. auto. }
      destruct (nth_error (s_heap st) id) as [i|] eqn:Hi; [|apply Skip; exact E].
      destruct (istate i) eqn:S; try (apply Skip; exact E).
      destruct (job_evaluate e st id) as [st1 r1] eqn:J.
      destruct (job_frame e st id st1 r1 J) as (cs1 & C1 & _ & Ids & L1 & P1 & _ & F1 & _).
      assert (In1 : Forall (fun c => In (c_id c) (id :: rest)) cs1).
      { eapply Forall_impl; [|exact Ids]. cbn. intros a ->. left; reflexivity. }
      destruct r1 as [| |k].
      + apply IH in E. destruct E as (cs2 & C2 & L2 & P2 & F2 & In2).
        exists (cs1 ++ cs2). rewrite C2, C1, L2, L1, P2, P1, F2, F1, failed_of_app, <- !app_assoc.
        repeat split; auto. apply Forall_app. split; [exact In1|].
        eapply Forall_impl; [|exact In2]. cbn. auto.
      + inversion E; subst. exists cs1. repeat split; auto.
      + inversion E; subst. exists cs1. repeat split; auto.
  Qed.

  Lemma R_serial e st0 : forall batch st cs st' r,
    R e st0 st cs -> evaluate_serial e st batch = (st', r) ->
    exists cs', R e st0 st' (cs ++ cs') /\ s_calls st' = s_calls st ++ cs'.
  Proof.
    induction batch as [|id rest IH]; intros st cs st' r HR E; cbn [Job.evaluate_serial] in E.
    - inversion E; subst. exists []. rewrite !app_nil_r. split; auto.
    - destruct (nth_error (s_heap st) id) as [i|] eqn:Hi; [|eapply IH; eauto].
      destruct (istate i) eqn:S; try (eapply IH; eauto; fail).
      destruct (job_evaluate e st id) as [st1 r1] eqn:J.
      destruct (R_job e st0 st cs id st1 r1 HR J) as (cs1 & R1 & C1).
      destruct r1 as [| |k].
      + destruct (IH st1 (cs ++ cs1) st' r R1 E) as (cs2 & R2 & C2).
        exists (cs1 ++ cs2). rewrite app_assoc. split; [exact R2|]. rewrite C2, C1, app_assoc. reflexivity.
      + inversion E; subst. exists cs1. split; assumption.
      + inversion E; subst. exists cs1. split; assumption.
  Qed.

  Lemma R_history e st0 : forall batches st cs st' rs,
    R e st0 st cs -> evaluate_history e st batches = (st', rs) ->
    exists cs', R e st0 st' (cs ++ cs') /\ s_calls st' = s_calls st ++ cs'.
  Proof.
    induction batches as [|b rest IH]; intros st cs st' rs HR E; cbn [Job.evaluate_history] in E.
    - inversion E; subst. exists []. rewrite !app_nil_r. split; auto.
    - destruct (evaluate_serial e st b) as [st1 r1] eqn:S1.
      destruct (evaluate_history e st1 rest) as [st2 rs2] eqn:S2. inversion E; subst; clear E.
      destruct (R_serial e st0 b st cs st1 r1 HR S1) as (cs1 & R1 & C1).
      destruct (IH st1 (cs ++ cs1) st' rs2 R1 S2) as (cs2 & R2 & C2).
      exists (cs1 ++ cs2). rewrite app_assoc. split; [exact R2|]. rewrite C2, C1, app_assoc. reflexivity.
  Qed.

  (* freshly created designs keep the invariant *)
  Lemma R_alloc_many e st0 st cs vs ids :
    R e st0 st cs -> R e st0 (add_pop (set_heap st (s_heap st ++ map (@fresh T) vs)) ids) cs.
  Proof.
    intros (C & Len & W & D). unfold R. cbn [s_calls s_heap add_pop set_heap]. rewrite app_length.
    split; [exact C|]. split; [lia|]. split; [intros c Hc; specialize (W c Hc); lia|].
    intros id i H. destruct (Nat.lt_ge_cases id (length (s_heap st))) as [Lt|Ge].
    - rewrite nth_error_app1 in H by exact Lt. apply D; exact H.
    - rewrite nth_error_app2 in H by exact Ge. apply nth_error_In in H. apply in_map_iff in H.
      destruct H as (v & <- & _).
      assert (N : nth_error (s_heap st0) id = None) by (apply nth_error_None; lia).
      rewrite N. left. split; [|cbn; discriminate].
      apply filter_all_false. apply Forall_forall. intros c Hc. specialize (W c Hc).
      replace (c_id c =? id) with false; [reflexivity|]. symmetry. apply Nat.eqb_neq. lia.
  Qed.

  (* ------------------------------------------------------------------ serial evaluation of a batch *)
  Lemma job_done_evaluated e st id i st' :
    nth_error (s_heap st) id = Some i -> istate i <> Evaluated -> job_evaluate e st id = (st', Done) ->
    exists i', nth_error (s_heap st') id = Some i' /\ istate i' = Evaluated.
  Proof.
    intros H NE E. destruct (job_touched e st id i st' Done [] H NE E eq_refl) as (cs' & i' & _ & H' & _ & Ev).
    exists i'. split; [exact H'|apply Ev; reflexivity].
  Qed.

  (* designs that are not EMPTY are never touched by evaluate_serial *)
  Lemma serial_frozen e : forall batch st st' r id i,
    evaluate_serial e st batch = (st', r) -> nth_error (s_heap st) id = Some i -> istate i <> Empty ->
    nth_error (s_heap st') id = Some i.
  Proof.
    induction batch as [|h rest IH]; intros st st' r id i E H NE; cbn [Job.evaluate_serial] in E.
    - inversion E; subst. exact H.
    - destruct (nth_error (s_heap st) h) as [ih|] eqn:Hh; [|eapply IH; eauto].
      destruct (istate ih) eqn:S; try (eapply IH; eauto; fail).
      assert (D : id <> h) by (intros ->; rewrite Hh in H; inversion H; subst; congruence).
      destruct (job_evaluate e st h) as [st1 r1] eqn:J.
      destruct (job_frame e st h st1 r1 J) as (_ & _ & _ & _ & _ & _ & Oth & _).
      rewrite <- (Oth id D) in H.
      destruct r1; [eapply IH; eauto| |]; inversion E; subst; exact H.
  Qed.

  (* designs outside the batch are never touched *)
  Lemma serial_untouched e : forall batch st st' r id,
    evaluate_serial e st batch = (st', r) -> ~ In id batch ->
    nth_error (s_heap st') id = nth_error (s_heap st) id.
  Proof.
    induction batch as [|h rest IH]; intros st st' r id E NI; cbn [Job.evaluate_serial] in E.
    - inversion E; subst. reflexivity.
    - assert (D : id <> h) by (intros ->; apply NI; left; reflexivity).
      assert (NI' : ~ In id rest) by (intros X; apply NI; right; exact X).
      destruct (nth_error (s_heap st) h) as [ih|] eqn:Hh; [|eapply IH; eauto].
      destruct (istate ih) eqn:S; try (eapply IH; eauto; fail).
      destruct (job_evaluate e st h) as [st1 r1] eqn:J.
      destruct (job_frame e st h st1 r1 J) as (_ & _ & _ & _ & _ & _ & Oth & _).
      rewrite <- (Oth id D).
      destruct r1; [eapply IH; eauto| |]; inversion E; subst; reflexivity.
  Qed.

  (* the objective is invoked only for designs of the batch that were EMPTY when the call started *)
  Lemma serial_calls_empty e : forall batch st st' r cs,
    evaluate_serial e st batch = (st', r) -> s_calls st' = s_calls st ++ cs ->
    Forall (fun c => In (c_id c) batch /\ exists i, nth_error (s_heap st) (c_id c) = Some i /\ istate i = Empty) cs.
  Proof.
    induction batch as [|h rest IH]; intros st st' r cs E C; cbn [Job.evaluate_serial] in E.
    - inversion E; subst. rewrite <- (app_nil_r (s_calls st')) in C at 1. apply app_inv_head in C. subst. constructor.
    - assert (Skip : evaluate_serial e st rest = (st', r) ->
         Forall (fun c => In (c_id c) (h :: rest) /\ exists i, nth_error (s_heap st) (c_id c) = Some i /\ istate i = Empty) cs).
      { intros E'. eapply Forall_impl; [|eapply IH; eauto]. cbn. intros a [A B]. split; auto. }
      destruct (nth_error (s_heap st) h) as [ih|] eqn:Hh; [|apply Skip; exact E].
      destruct (istate ih) eqn:S; try (apply Skip; exact E).
      destruct (job_evaluate e st h) as [st1 r1] eqn:J.
      destruct (job_frame e st h st1 r1 J) as (cs1 & C1 & _ & Ids & _ & _ & Oth & _ & _).
      assert (F1 : Forall (fun c => In (c_id c) (h :: rest) /\
                                   exists i, nth_error (s_heap st) (c_id c) = Some i /\ istate i = Empty) cs1).
      { eapply Forall_impl; [|exact Ids]. cbn. intros a ->. split; [left; reflexivity|]. exists ih. auto. }
      destruct r1 as [| |k].
      + destruct (serial_frame e rest st1 st' r E) as (cs2 & C2 & _).
        assert (cs = cs1 ++ cs2) as ->.
        { rewrite C2, C1, <- app_assoc in C. apply app_inv_head in C. congruence. }
        apply Forall_app. split; [exact F1|].
        pose proof (IH st1 st' r cs2 E C2) as F2.
        eapply Forall_impl; [|exact F2]. cbn. intros a [A (ia & Ha & Ea)]. split; [right; exact A|].
        destruct (Nat.eq_dec (c_id a) h) as [X|X].
        * rewrite X in Ha. assert (NEv : istate ih <> Evaluated) by congruence.
          destruct (job_done_evaluated e st h ih st1 Hh NEv J) as (i' & Hi' & Ev). congruence.
        * rewrite (Oth _ X) in Ha. exists ia. auto.
      + inversion E; subst. rewrite C1 in C. apply app_inv_head in C. subst. exact F1.
      + inversion E; subst. rewrite C1 in C. apply app_inv_head in C. subst. exact F1.
  Qed.

  Lemma serial_done_evaluated e : forall batch st st' id i,
    evaluate_serial e st batch = (st', Done) -> In id batch ->
    nth_error (s_heap st) id = Some i -> istate i = Empty ->
    exists i', nth_error (s_heap st') id = Some i' /\ istate i' = Evaluated.
  Proof.
    induction batch as [|h rest IH]; intros st st' id i E IN H Em; [destruct IN|].
    cbn [Job.evaluate_serial] in E.
    destruct (Nat.eq_dec id h) as [->|D].
    - rewrite H, Em in E. destruct (job_evaluate e st h) as [st1 r1] eqn:J.
      destruct r1; try discriminate.
      assert (NEv : istate i <> Evaluated) by congruence.
      destruct (job_done_evaluated e st h i st1 H NEv J) as (i' & Hi' & Ev).
      exists i'. split; [|exact Ev]. eapply serial_frozen; eauto. congruence.
    - assert (IN' : In id rest) by (destruct IN; congruence).
      destruct (nth_error (s_heap st) h) as [ih|] eqn:Hh; [|eapply IH; eauto].
      destruct (istate ih) eqn:S; try (eapply IH; eauto; fail).
      destruct (job_evaluate e st h) as [st1 r1] eqn:J.
      destruct (job_frame e st h st1 r1 J) as (_ & _ & _ & _ & _ & _ & Oth & _).
      destruct r1; try discriminate. eapply IH; eauto. rewrite (Oth id D). exact H.
  Qed.

  Lemma serial_noop e : forall batch st,
    (forall id i, In id batch -> nth_error (s_heap st) id = Some i -> istate i <> Empty) ->
    evaluate_serial e st batch = (st, Done).
  Proof.
    induction batch as [|h rest IH]; intros st H; cbn [Job.evaluate_serial]; [reflexivity|].
    assert (H' : forall id i, In id rest -> nth_error (s_heap st) id = Some i -> istate i <> Empty)
      by (intros; eapply H; eauto; right; assumption).
    destruct (nth_error (s_heap st) h) as [ih|] eqn:Hh; [|apply IH; exact H'].
    pose proof (H h ih (or_introl eq_refl) Hh) as NE.
    destruct (istate ih); try (apply IH; exact H'). congruence.
  Qed.

  (* ------------------------------------------------------------------ C05: exactly once *)
  Theorem evaluate_once e st batch st' :
    evaluate_serial e st batch = (st', Done) ->
    exists cs, s_calls st' = s_calls st ++ cs /\
      forall id i, nth_error (s_heap st) id = Some i ->
        exists i', nth_error (s_heap st') id = Some i' /\
          (istate i = Empty -> In id batch ->
             exists c costs, okc e id cs = [c] /\ e_obj e c = Ok costs /\ c_vec c = ivec i' /\
                             icosts i' = costs /\ istate i' = Evaluated) /\
          (istate i <> Empty \/ ~ In id batch -> i' = i /\ calls_of id cs = []).
  Proof.
    intros E. destruct (R_serial e st batch st [] st' Done (R_refl e st) E) as (cs & HR & C).
    cbn [app] in HR. exists cs. split; [exact C|]. intros id i H.
    destruct (serial_frame e batch st st' Done E) as (cs0 & C0 & Len & _).
    assert (exists i', nth_error (s_heap st') id = Some i') as (i' & H').
    { destruct (nth_error (s_heap st') id) eqn:X; [eauto|]. apply nth_error_None in X.
      assert (id < length (s_heap st)) by (apply nth_error_Some; congruence). lia. }
    exists i'. split; [exact H'|]. split.
    - intros Em IN. destruct HR as (_ & _ & _ & D). specialize (D id i' H'). rewrite H, Em in D.
      destruct (serial_done_evaluated e batch st st' id i E IN H Em) as (i2 & H2 & Ev).
      rewrite H' in H2. inversion H2; subst i2.
      destruct D as [[_ X]|(c & costs & A1 & A2 & A3 & A4 & A5 & _)]; [congruence|].
      exists c, costs. auto.
    - intros Hyp. split.
      + destruct Hyp as [NE|NI].
        * pose proof (serial_frozen e batch st st' Done id i E H NE). congruence.
        * pose proof (serial_untouched e batch st st' Done id E NI). congruence.
      + pose proof (serial_calls_empty e batch st st' Done cs E C) as F.
        apply filter_all_false. eapply Forall_impl; [|exact F]. cbn. intros a [IN (ia & Ha & Ea)].
        apply Nat.eqb_neq. intros X. rewrite X in *. destruct Hyp as [NE|NI]; [|contradiction].
        rewrite H in Ha. inversion Ha; subst. contradiction.
  Qed.

  (* a second evaluate of the same batch invokes nothing and changes nothing *)
  Theorem repeated_evaluate_noop e st batch st' :
    evaluate_serial e st batch = (st', Done) -> evaluate_serial e st' batch = (st', Done).
  Proof.
    intros E. apply serial_noop. intros id i' IN H'.
    destruct (serial_frame e batch st st' Done E) as (cs0 & C0 & Len & _).
    assert (exists i, nth_error (s_heap st) id = Some i) as (i & H).
    { destruct (nth_error (s_heap st) id) eqn:X; [eauto|]. apply nth_error_None in X.
      assert (id < length (s_heap st')) by (apply nth_error_Some; congruence). lia. }
    destruct (dstate_eqb (istate i) Empty) eqn:S.
    - assert (Em : istate i = Empty) by (destruct (istate i); try discriminate; reflexivity).
      destruct (serial_done_evaluated e batch st st' id i E IN H Em) as (i2 & H2 & Ev). congruence.
    - assert (NE : istate i <> Empty) by (intros X; rewrite X in S; discriminate).
      pose proof (serial_frozen e batch st st' Done id i E H NE). congruence.
  Qed.

  Lemma history_frame e : forall batches st st' rs, evaluate_history e st batches = (st', rs) ->
    length (s_heap st') = length (s_heap st) /\ s_pop st' = s_pop st.
  Proof.
    induction batches as [|b rest IH]; intros st st' rs E; cbn [Job.evaluate_history] in E.
    - inversion E; subst. auto.
    - destruct (evaluate_serial e st b) as [st1 r1] eqn:S1.
      destruct (evaluate_history e st1 rest) as [st2 rs2] eqn:S2. inversion E; subst; clear E.
      destruct (serial_frame e b st st1 r1 S1) as (_ & _ & L1 & P1 & _).
      destruct (IH st1 st' rs2 S2) as [L2 P2]. split; congruence.
  Qed.

  (* over any number of evaluate calls on any batches, by a caller that catches exceptions *)
  Theorem evaluate_once_history e st0 batches st rs :
    evaluate_history e st0 batches = (st, rs) ->
    exists cs, s_calls st = s_calls st0 ++ cs /\
      forall id i0, nth_error (s_heap st0) id = Some i0 ->
        exists i, nth_error (s_heap st) id = Some i /\
          match istate i0 with
          | Evaluated => i = i0 /\ calls_of id cs = []
          | _ => (okc e id cs = [] /\ istate i <> Evaluated) \/ evaluated_by e id cs i
          end.
  Proof.
    intros E. destruct (R_history e st0 batches st0 [] st rs (R_refl e st0) E) as (cs & HR & C).
    cbn [app] in HR. exists cs. split; [exact C|]. intros id i0 H0.
    destruct (history_frame e batches st0 st rs E) as [Len _].
    assert (exists i, nth_error (s_heap st) id = Some i) as (i & H).
    { destruct (nth_error (s_heap st) id) eqn:X; [eauto|]. apply nth_error_None in X.
      assert (id < length (s_heap st0)) by (apply nth_error_Some; congruence). lia. }
    exists i. split; [exact H|]. destruct HR as (_ & _ & _ & D). specialize (D id i H). rewrite H0 in D.
    exact D.
  Qed.
  (* ------------------------------------------------------------------ every history of operations *)
  Inductive reach (e : env) (st0 : state) : state -> list call -> Prop :=
  | reach_refl : reach e st0 st0 []
  | reach_eval st cs batch st' r cs' :
      reach e st0 st cs -> evaluate_serial e st batch = (st', r) -> s_calls st' = s_calls st ++ cs' ->
      reach e st0 st' (cs ++ cs')
  | reach_scalar st cs x st' ret cs' :
      reach e st0 st cs -> evaluate_scalar e st x = (st', ret) -> s_calls st' = s_calls st ++ cs' ->
      reach e st0 st' (cs ++ cs')
  | reach_sweep st cs vs st' r cs' :
      reach e st0 st cs -> sweep e st vs = (st', r) -> s_calls st' = s_calls st ++ cs' ->
      reach e st0 st' (cs ++ cs').

  Lemma R_scalar e st0 st cs x st' ret :
    R e st0 st cs -> evaluate_scalar e st x = (st', ret) ->
    exists cs', R e st0 st' (cs ++ cs') /\ s_calls st' = s_calls st ++ cs'.
  Proof.
    intros HR E. unfold Job.evaluate_scalar in E.
    set (st1 := add_pop (alloc st (fresh x)) [length (s_heap st)]) in *.
    assert (R1 : R e st0 st1 cs) by (apply (R_alloc_many e st0 st cs [x]); exact HR).
    destruct (job_evaluate e st1 (length (s_heap st))) as [st2 r2] eqn:J.
    destruct (R_job e st0 st1 cs _ st2 r2 R1 J) as (cs' & R2 & C2).
    exists cs'. destruct r2; inversion E; subst; split; assumption.
  Qed.

  Lemma R_sweep e st0 st cs vs st' r :
    R e st0 st cs -> sweep e st vs = (st', r) ->
    exists cs', R e st0 st' (cs ++ cs') /\ s_calls st' = s_calls st ++ cs'.
  Proof.
    intros HR E. unfold Job.sweep in E.
    destruct (R_serial e st0 _ _ cs st' r (R_alloc_many e st0 st cs vs _ HR) E) as (cs' & R2 & C2).
    exists cs'. split; [exact R2|exact C2].
  Qed.

  Theorem reach_R e st0 st cs : reach e st0 st cs -> R e st0 st cs.
  Proof.
    induction 1 as [|st cs batch st' r cs' _ IH E C|st cs x st' ret cs' _ IH E C|st cs vs st' r cs' _ IH E C].
    - apply R_refl.
    - destruct (R_serial e st0 batch st cs st' r IH E) as (cs2 & R2 & C2).
      rewrite C2 in C. apply app_inv_head in C. subst. exact R2.
    - destruct (R_scalar e st0 st cs x st' ret IH E) as (cs2 & R2 & C2).
      rewrite C2 in C. apply app_inv_head in C. subst. exact R2.
    - destruct (R_sweep e st0 st cs vs st' r IH E) as (cs2 & R2 & C2).
      rewrite C2 in C. apply app_inv_head in C. subst. exact R2.
  Qed.

  (* in every reachable state an evaluated design that was not evaluated to begin with holds the result
     of its single successful objective call, made for the stored vector *)
  Theorem reach_evaluated e st0 st cs id i :
    reach e st0 st cs -> nth_error (s_heap st) id = Some i -> istate i = Evaluated ->
    (forall i0, nth_error (s_heap st0) id = Some i0 -> istate i0 <> Evaluated) ->
    evaluated_by e id cs i.
  Proof.
    intros HR H Ev N. apply reach_R in HR. destruct HR as (_ & _ & _ & D). specialize (D id i H).
    destruct (nth_error (s_heap st0) id) as [i0|].
    - specialize (N i0 eq_refl). destruct (istate i0); try congruence;
        (destruct D as [[_ X]|X]; [congruence|exact X]).
    - destruct D as [[_ X]|X]; [congruence|exact X].
  Qed.

  Theorem costs_belong_to_vector e st0 st cs id i :
    reach e st0 st cs -> nth_error (s_heap st) id = Some i -> istate i = Evaluated ->
    (forall i0, nth_error (s_heap st0) id = Some i0 -> istate i0 <> Evaluated) ->
    exists c, In c cs /\ c_id c = id /\ c_vec c = ivec i /\ e_obj e c = Ok (icosts i) /\
              (forall c', In c' cs -> c_id c' = id -> ok_b e c' = true -> c' = c).
  Proof.
    intros HR H Ev N. destruct (reach_evaluated e st0 st cs id i HR H Ev N) as (c & costs & K & O & V & Co & _).
    exists c. assert (IN : In c (okc e id cs)) by (rewrite K; left; reflexivity).
    unfold okc in IN. apply filter_In in IN. destruct IN as [IN B]. apply andb_true_iff in B. destruct B as [B1 B2].
    apply Nat.eqb_eq in B1. repeat split; auto; [congruence|].
    intros c' IN' Id' Ok'. assert (X : In c' (okc e id cs)).
    { unfold okc. apply filter_In. split; [exact IN'|]. rewrite Ok'. apply andb_true_iff. split; [|reflexivity].
      apply Nat.eqb_eq. exact Id'. }
    rewrite K in X. destruct X as [X|[]]. congruence.
  Qed.

  Theorem signed_costs_spec e st0 st cs id i :
    reach e st0 st cs -> nth_error (s_heap st) id = Some i -> istate i = Evaluated ->
    (forall i0, nth_error (s_heap st0) id = Some i0 -> istate i0 <> Evaluated) ->
    isigned i = Some (map2 (fun s c => smul s (roundp (iprec i) c)) (e_signs e) (icosts i), negb (ifeas i)) /\
    (e_cons e (ivec i) <> [] -> ifeas i = forallb (fun g => ltb g zero) (e_cons e (ivec i))).
  Proof.
    intros HR H Ev N. destruct (reach_evaluated e st0 st cs id i HR H Ev N) as (c & costs & _ & _ & _ & Co & _ & Sg & Fe).
    subst costs. split; [exact Sg|exact Fe].
  Qed.

  (* the marker, read by C01's comparator (False = 0, True = 1), puts a design that satisfies all
     constraints ahead of one that violates some, whatever the objective values are *)
  Theorem marker_ranks_feasible_first (cltb : T -> T -> bool) pa pb signs ca cb fa fb ga gb :
    ga <> [] -> forallb (fun g => ltb g zero) ga = true ->
    gb <> [] -> forallb (fun g => ltb g zero) gb = false ->
    let sa := signed_costs pa signs ca (feasible_of fa ga) in
    let sb := signed_costs pb signs cb (feasible_of fb gb) in
    pareto_compare cltb (fst sa, Z.b2z (snd sa)) (fst sb, Z.b2z (snd sb)) = 1 /\
    pareto_compare cltb (fst sb, Z.b2z (snd sb)) (fst sa, Z.b2z (snd sa)) = 2.
  Proof.
    intros Na Fa Nb Fb. cbn zeta. unfold Job.signed_costs. cbn [fst snd].
    rewrite (feasible_of_nonempty fa ga Na), (feasible_of_nonempty fb gb Nb), Fa, Fb. cbn [negb Z.b2z].
    split; rewrite pareto_marker_lex; reflexivity.
  Qed.
  (* ------------------------------------------------------------------ sweep *)
  Definition vec_of (st : state) (id : nat) : list T :=
    match nth_error (s_heap st) id with Some i => ivec i | None => [] end.

  Lemma filter_ok_job e pre c costs :
    all_transient e pre -> e_obj e c = Ok costs -> filter (ok_b e) (pre ++ [c]) = [c].
  Proof.
    intros Tr O. rewrite filter_app. rewrite filter_all_false.
    - cbn. unfold ok_b. rewrite O. reflexivity.
    - eapply Forall_impl; [|exact Tr]. cbn. intros a. apply ok_b_tr.
  Qed.

  (* a batch of distinct EMPTY designs: one successful call per design in batch order, and the first
     attempts are made with the designs' vectors in batch order *)
  Lemma serial_order e : forall batch st st' cs,
    NoDup batch ->
    (forall id, In id batch -> exists i, nth_error (s_heap st) id = Some i /\ istate i = Empty) ->
    evaluate_serial e st batch = (st', Done) -> s_calls st' = s_calls st ++ cs ->
    map (@c_id T) (filter (ok_b e) cs) = batch /\
    map (@c_vec T) (filter (fun c => c_att c =? 0) cs) = map (vec_of st) batch.
  Proof.
    induction batch as [|h rest IH]; intros st st' cs ND All E C.
    - cbn in E. inversion E; subst. rewrite <- (app_nil_r (s_calls st')) in C at 1. apply app_inv_head in C.
      subst. split; reflexivity.
    - inversion ND as [|? ? NI ND']; subst.
      destruct (All h (or_introl eq_refl)) as (ih & Hh & Em).
      cbn [Job.evaluate_serial] in E. rewrite Hh, Em in E.
      destruct (job_evaluate e st h) as [st1 r1] eqn:J. destruct r1; try discriminate.
      assert (NEv : istate ih <> Evaluated) by congruence.
      destruct (job_spec e st h ih st1 Done Hh NEv J) as (cs1 & i' & C1 & Hh1 & _ & Ch & Post).
      destruct (job_frame e st h st1 Done J) as (cs1' & C1' & _ & Ids & _ & _ & Oth & _ & _).
      assert (cs1' = cs1) as -> by (rewrite C1 in C1'; apply app_inv_head in C1'; congruence).
      destruct (serial_frame e rest st1 st' Done E) as (cs2 & C2 & _).
      assert (cs = cs1 ++ cs2) as ->.
      { rewrite C2, C1, <- app_assoc in C. apply app_inv_head in C. congruence. }
      assert (All' : forall id, In id rest -> exists i, nth_error (s_heap st1) id = Some i /\ istate i = Empty).
      { intros id IN. assert (id <> h) by (intros ->; contradiction).
        rewrite (Oth id H). apply All. right. exact IN. }
      destruct (IH st1 st' cs2 ND' All' E C2) as [I1 I2].
      unfold attempts_post in Post. destruct Post as (pre & c & costs & -> & _ & Tr & O & _).
      set (cs1 := pre ++ [c]) in *.
      rewrite !filter_app, !map_app, I1, I2. subst cs1. split.
      + rewrite (filter_ok_job e pre c costs Tr O). cbn [map app]. f_equal.
        rewrite Forall_forall in Ids. apply Ids. apply in_or_app. right. left. reflexivity.
      + assert (exists f tl, pre ++ [c] = f :: tl) as (f & tl & Eq) by (destruct pre; cbn; eauto).
        rewrite Eq in Ch |- *. destruct (chain_att0 e h _ _ f tl Ch) as [F V]. rewrite F. cbn [map app].
        f_equal.
        * rewrite V. unfold vec_of. rewrite Hh. reflexivity.
        * apply map_ext_in. intros id IN. unfold vec_of.
          assert (id <> h) by (intros ->; contradiction). rewrite (Oth id H). reflexivity.
  Qed.

  Lemma heap_fresh_vecs : forall (vs : list (list T)) (h : list ind),
    map (fun id => match nth_error (h ++ map (@fresh T) vs) id with Some i => ivec i | None => [] end)
        (seq (length h) (length vs)) = vs.
  Proof.
    induction vs as [|v vs IH]; intros h; [reflexivity|].
    cbn [length seq map]. f_equal.
    - rewrite nth_error_app2 by lia. rewrite Nat.sub_diag. reflexivity.
    - specialize (IH (h ++ [fresh v])). rewrite app_length in IH. cbn [length] in IH.
      rewrite Nat.add_1_r in IH. rewrite <- app_assoc in IH. exact IH.
  Qed.

  Theorem sweep_order e st vs st' r :
    sweep e st vs = (st', r) ->
    let n := length (s_heap st) in
    s_pop st' = s_pop st ++ seq n (length vs) /\
    length (s_heap st') = n + length vs /\
    (forall id, id < n -> nth_error (s_heap st') id = nth_error (s_heap st) id) /\
    exists cs, s_calls st' = s_calls st ++ cs /\
      Forall (fun c => n <= c_id c < n + length vs) cs /\
      (r = Done ->
         map (@c_id T) (filter (ok_b e) cs) = seq n (length vs) /\
         map (@c_vec T) (filter (fun c => c_att c =? 0) cs) = vs /\
         forall k, k < length vs -> exists i, nth_error (s_heap st') (n + k) = Some i /\ istate i = Evaluated).
  Proof.
    intros E n. unfold Job.sweep in E. fold n in E.
    set (st1 := add_pop (set_heap st (s_heap st ++ map (@fresh T) vs)) (seq n (length vs))) in *.
    destruct (serial_frame e _ st1 st' r E) as (cs & C & L & P & _ & In').
    assert (H1 : forall id, In id (seq n (length vs)) ->
                 exists i, nth_error (s_heap st1) id = Some i /\ istate i = Empty).
    { intros id IN. apply in_seq in IN. cbn [st1 s_heap add_pop set_heap].
      rewrite nth_error_app2 by (fold n; lia). fold n.
      destruct (nth_error (map (@fresh T) vs) (id - n)) as [i|] eqn:X.
      - exists i. split; [reflexivity|]. apply nth_error_In in X. apply in_map_iff in X.
        destruct X as (v & <- & _). reflexivity.
      - apply nth_error_None in X. rewrite map_length in X. lia. }
    split; [rewrite P; reflexivity|]. split.
    { rewrite L. cbn [st1 s_heap add_pop set_heap]. rewrite app_length, map_length. reflexivity. }
    split.
    { intros id Lt. rewrite (serial_untouched e _ st1 st' r id E).
      - cbn [st1 s_heap add_pop set_heap]. apply nth_error_app1. exact Lt.
      - intros IN. apply in_seq in IN. lia. }
    exists cs. split; [exact C|]. split.
    { eapply Forall_impl; [|exact In']. cbn. intros a IN. apply in_seq in IN. exact IN. }
    intros ->. destruct (serial_order e _ st1 st' cs (seq_NoDup _ _) H1 E C) as [O1 O2].
    split; [exact O1|]. split.
    - rewrite O2. unfold vec_of. cbn [st1 s_heap add_pop set_heap]. apply heap_fresh_vecs.
    - intros k Lt. assert (IN : In (n + k) (seq n (length vs))) by (apply in_seq; lia).
      destruct (H1 _ IN) as (i & Hi & Em).
      eapply serial_done_evaluated; eauto.
  Qed.

  (* ------------------------------------------------------------------ scalar bridge *)
  Lemma upd_app_new {A : Type} (l : list A) x y : upd (l ++ [x]) (length l) y = l ++ [y].
  Proof. induction l as [|a l IH]; cbn; [reflexivity|]. rewrite IH. reflexivity. Qed.

  Lemma attempts_first_ok e id fuel att i st costs :
    e_obj e (next_call st id att (ivec i)) = Ok costs ->
    attempts e id (S fuel) att i st =
      (evaluated_ind e (iprec i) (ifeas i) (ivec i) costs,
       add_store (log_call st (next_call st id att (ivec i))) id (evaluated_ind e (iprec i) (ifeas i) (ivec i) costs), Done).
  Proof. intros O. cbn [Job.attempts]. unfold Job.attempt. rewrite O. reflexivity. Qed.

  (* the queried point is recorded with its true cost; the optimiser receives the signed cost *)
  Theorem scalar_bridge e st x costs :
    let id := length (s_heap st) in
    let c := mkcall (length (s_calls st)) id 0 x in
    e_obj e c = Ok costs ->
    let i' := evaluated_ind e 7 false x costs in
    evaluate_scalar e st x =
      ({| s_heap := s_heap st ++ [i']; s_pop := s_pop st ++ [id]; s_failed := s_failed st;
          s_store := s_store st ++ [(id, i')]; s_calls := s_calls st ++ [c] |},
       match map2 (fun s k => smul s (roundp 7 k)) (e_signs e) costs with
       | y :: _ => SVal y
       | [] => SMark (negb (feasible_of false (e_cons e x)))
       end).
  Proof.
    intros id c O i'. unfold Job.evaluate_scalar, Job.job_evaluate.
    set (st1 := add_pop (alloc st (fresh x)) [length (s_heap st)]).
    assert (H1 : nth_error (s_heap st1) (length (s_heap st)) = Some (fresh x)) by (cbn; apply nth_error_app_new).
    rewrite H1. cbn [istate fresh].
    assert (O1 : e_obj e (next_call st1 (length (s_heap st)) 0 (ivec (fresh x))) = Ok costs) by exact O.
    rewrite (attempts_first_ok e _ 4 0 (fresh x) st1 costs O1).
    cbn [s_heap add_store log_call set_heap st1 add_pop alloc ivec ifeas iprec fresh s_pop s_failed s_store s_calls].
    rewrite upd_app_new, nth_error_app_new. fold id. unfold evaluated_ind at 3. cbn [isigned].
    unfold Job.signed_costs.
    destruct (map2 (fun s k => smul s (roundp 7 k)) (e_signs e) costs); reflexivity.
  Qed.

  (* the precision of a design is never changed *)
  Lemma job_iprec e st id i st' r :
    nth_error (s_heap st) id = Some i -> istate i <> Evaluated -> job_evaluate e st id = (st', r) ->
    exists i', nth_error (s_heap st') id = Some i' /\ iprec i' = iprec i.
  Proof.
    intros H NE E. destruct (job_spec e st id i st' r H NE E) as (cs & i' & _ & Hh & _ & _ & Post).
    exists i'. split; [rewrite Hh; apply nth_error_upd_same; apply nth_error_Some; congruence|].
    unfold attempts_post in Post. destruct r as [| |k].
    - destruct Post as (pre & c & costs & _ & _ & _ & _ & _ & I' & _). rewrite I'. reflexivity.
    - destruct Post as (_ & _ & _ & _ & I'). rewrite I'. destruct (rev cs); reflexivity.
    - destruct Post as (pre & c & _ & _ & _ & _ & _ & _ & I'). rewrite I'. reflexivity.
  Qed.

  Theorem scalar_bridge_general e st x st' y :
    evaluate_scalar e st x = (st', SVal y) ->
    let id := length (s_heap st) in
    exists i c cs, s_calls st' = s_calls st ++ cs /\ In c cs /\ s_pop st' = s_pop st ++ [id] /\
      nth_error (s_heap st') id = Some i /\ istate i = Evaluated /\
      c_id c = id /\ c_vec c = ivec i /\ e_obj e c = Ok (icosts i) /\
      exists s0 ss c0 cc, e_signs e = s0 :: ss /\ icosts i = c0 :: cc /\ y = smul s0 (roundp (iprec i) c0) /\ iprec i = 7.
  Proof.
    intros E id. unfold Job.evaluate_scalar in E. fold id in E.
    set (st1 := add_pop (alloc st (fresh x)) [id]) in *.
    assert (H1 : nth_error (s_heap st1) id = Some (fresh x)) by (cbn; apply nth_error_app_new).
    assert (NE : istate (fresh x) <> Evaluated) by (cbn; discriminate).
    destruct (job_evaluate e st1 id) as [st2 r2] eqn:J.
    destruct r2; try discriminate.
    destruct (job_touched e st1 id (fresh x) st2 Done [] H1 NE J eq_refl) as (cs & i & C & Hi & Tk & Ev).
    destruct (job_frame e st1 id st2 Done J) as (_ & _ & _ & _ & _ & P & _).
    specialize (Ev eq_refl). cbn [app] in Tk.
    destruct Tk as [[_ X]|(c & costs & K & O & V & Co & _ & Sg & _)]; [congruence|].
    rewrite Hi, Sg in E. assert (st2 = st') by congruence. subst st2.
    assert (H0 : match signed_costs (iprec i) (e_signs e) costs (ifeas i) with
                 | ([], m) => SMark m | (y0 :: _, _) => SVal y0 end = SVal y) by congruence.
    assert (IN : In c (okc e id cs)) by (rewrite K; left; reflexivity).
    unfold okc in IN. apply filter_In in IN. destruct IN as [IN B]. apply andb_true_iff in B. destruct B as [B1 _].
    apply Nat.eqb_eq in B1.
    exists i, c, cs. repeat split; auto; try congruence.
    unfold Job.signed_costs in H0. rewrite <- Co in *.
    destruct (e_signs e) as [|s0 ss]; [cbn in H0; discriminate|].
    destruct (icosts i) as [|c0 cc]; [cbn in H0; discriminate|].
    cbn in H0. inversion H0. exists s0, ss, c0, cc. repeat split; auto.
    destruct (job_iprec e st1 id (fresh x) st' Done H1 NE J) as (i2 & Hi2 & P2). rewrite Hi in Hi2.
    inversion Hi2; subst i2. exact P2.
  Qed.
  (* ------------------------------------------------------------------ C06: the retry protocol *)
  (* the k-th call of a job that starts with call number n, attempt att and vector v, as long as the
     earlier ones failed transiently: determined by the re-roll oracle alone *)
  Fixpoint job_call (e : env) (id n att : nat) (v : list T) (k : nat) : call :=
    match k with
    | 0 => mkcall n id att v
    | S k' => job_call e id (S n) (S att) (e_reroll e (mkcall n id att v)) k'
    end.

  Lemma chain_nth e id : forall cs n att v k c,
    chain e id n att v cs -> nth_error cs k = Some c -> c = job_call e id n att v k.
  Proof.
    induction cs as [|a cs IH]; intros n att v k c Ch H; [destruct k; discriminate|].
    cbn in Ch. destruct Ch as [E Ch]. destruct k as [|k].
    - cbn in H. inversion H; subst. reflexivity.
    - cbn in H. destruct cs as [|c' cs']; [destruct k; discriminate|]. destruct Ch as [_ Ch].
      cbn [job_call]. rewrite <- E. eapply IH; eauto.
  Qed.

  Lemma all_transient_nth e l k p : all_transient e l -> nth_error l k = Some p -> e_obj e p = Transient.
  Proof. intros A H. apply nth_error_In in H. unfold all_transient in A. rewrite Forall_forall in A. auto. Qed.

  Lemma failed_of_states e cs : Forall (fun f => istate f = Failed /\ icosts f = [] /\ isigned f = None) (failed_of e cs).
  Proof. unfold failed_of. apply Forall_forall. intros f IN. apply in_map_iff in IN. destruct IN as (c & <- & _). cbn. auto. Qed.

  Lemma failed_of_job e pre c : all_transient e pre -> tr_b e c = false ->
    failed_of e (pre ++ [c]) = map (fun c => mk_failed (c_vec c)) pre.
  Proof.
    intros Tr F. rewrite failed_of_app, (failed_of_transient e pre Tr). unfold failed_of. cbn. rewrite F. cbn.
    apply app_nil_r.
  Qed.

  (* everything one Job.evaluate does to a design that is not yet evaluated *)
  Theorem job_protocol e st id i st' r :
    nth_error (s_heap st) id = Some i -> istate i <> Evaluated -> job_evaluate e st id = (st', r) ->
    exists cs i',
      s_calls st' = s_calls st ++ cs /\ 1 <= length cs <= 5 /\
      (forall k c, nth_error cs k = Some c -> c = job_call e id (length (s_calls st)) 0 (ivec i) k) /\
      s_failed st' = s_failed st ++ failed_of e cs /\
      nth_error (s_heap st') id = Some i' /\
      (forall id', id' <> id -> nth_error (s_heap st') id' = nth_error (s_heap st) id') /\
      match r with
      | Done => exists pre c costs, cs = pre ++ [c] /\ all_transient e pre /\ e_obj e c = Ok costs /\
                 ivec i' = c_vec c /\ icosts i' = costs /\ istate i' = Evaluated /\
                 failed_of e cs = map (fun c => mk_failed (c_vec c)) pre /\
                 s_store st' = s_store st ++ [(id, i')]
      | Raised5 => length cs = 5 /\ all_transient e cs /\ istate i' = Empty /\ icosts i' = icosts i /\
                 (exists c, nth_error cs 4 = Some c /\ ivec i' = e_reroll e c) /\
                 failed_of e cs = map (fun c => mk_failed (c_vec c)) cs /\ s_store st' = s_store st
      | RaisedFatal k => exists pre c, cs = pre ++ [c] /\ all_transient e pre /\ e_obj e c = Fatal k /\
                 istate i' = InProgress /\ ivec i' = c_vec c /\ icosts i' = icosts i /\
                 failed_of e cs = map (fun c => mk_failed (c_vec c)) pre /\ s_store st' = s_store st
      end.
  Proof.
    intros H NE E. destruct (job_spec e st id i st' r H NE E) as (cs & i' & C & Hh & _ & Ch & Post).
    destruct (job_frame e st id st' r E) as (cs0 & C0 & L5 & _ & _ & _ & Oth & F & _).
    assert (cs0 = cs) as -> by (rewrite C in C0; apply app_inv_head in C0; congruence).
    assert (Lt : id < length (s_heap st)) by (apply nth_error_Some; congruence).
    exists cs, i'. split; [exact C|]. split.
    { split; [|exact L5]. unfold attempts_post in Post. destruct r.
      - destruct Post as (pre & c & costs & -> & _). rewrite app_length. cbn. lia.
      - destruct Post as (L & _). lia.
      - destruct Post as (pre & c & -> & _). rewrite app_length. cbn. lia. }
    split; [intros k c Hk; eapply chain_nth; eauto|]. split; [exact F|].
    split; [rewrite Hh; apply nth_error_upd_same; exact Lt|]. split; [exact Oth|].
    unfold attempts_post in Post. destruct r as [| |k].
    - destruct Post as (pre & c & costs & -> & _ & Tr & O & _ & I' & S').
      exists pre, c, costs. rewrite I'. cbn. repeat split; auto.
      + apply failed_of_job; [exact Tr|]. unfold tr_b. rewrite O. reflexivity.
      + rewrite S', I'. reflexivity.
    - destruct Post as (L & Tr & _ & S' & I').
      destruct cs as [|c0 [|c1 [|c2 [|c3 [|c4 [|c5 cs]]]]]]; cbn in L; try lia.
      cbn in I'. rewrite I'. repeat split; auto.
      + exists c4. split; reflexivity.
      + apply failed_of_transient. exact Tr.
    - destruct Post as (pre & c & -> & _ & Tr & Fa & _ & S' & I').
      exists pre, c. rewrite I'. cbn. repeat split; auto.
      apply failed_of_job; [exact Tr|]. unfold tr_b. rewrite Fa. reflexivity.
  Qed.

  (* the result is decided by the first attempt that does not fail transiently *)
  Theorem job_decided e st id i st' r k :
    nth_error (s_heap st) id = Some i -> istate i <> Evaluated -> job_evaluate e st id = (st', r) ->
    k < 5 ->
    (forall j, j < k -> e_obj e (job_call e id (length (s_calls st)) 0 (ivec i) j) = Transient) ->
    e_obj e (job_call e id (length (s_calls st)) 0 (ivec i) k) <> Transient ->
    exists cs, s_calls st' = s_calls st ++ cs /\ length cs = S k /\
      r = match e_obj e (job_call e id (length (s_calls st)) 0 (ivec i) k) with
          | Ok _ => Done | Fatal kd => RaisedFatal kd | Transient => Raised5 end.
  Proof.
    intros H NE E Lk Tr NT.
    destruct (job_protocol e st id i st' r H NE E) as (cs & i' & C & L & Nth & _ & _ & _ & Post).
    exists cs. split; [exact C|].
    assert (Key : forall pre c, cs = pre ++ [c] -> all_transient e pre -> e_obj e c <> Transient ->
                  length pre = k /\ c = job_call e id (length (s_calls st)) 0 (ivec i) k).
    { intros pre c -> TrP NTc.
      assert (Ec : c = job_call e id (length (s_calls st)) 0 (ivec i) (length pre)) by (apply Nth; apply nth_error_app_new).
      destruct (Nat.lt_trichotomy (length pre) k) as [Lt|[Eq|Gt]].
      - rewrite Ec in NTc. exfalso. apply NTc. apply Tr. exact Lt.
      - rewrite <- Eq. split; [reflexivity|exact Ec].
      - destruct (nth_error pre k) as [p|] eqn:X; [|apply nth_error_None in X; lia].
        assert (Ep : p = job_call e id (length (s_calls st)) 0 (ivec i) k).
        { apply Nth. rewrite nth_error_app1 by lia. exact X. }
        exfalso. apply NT. rewrite <- Ep. eapply all_transient_nth; eauto. }
    destruct r as [| |kd].
    - destruct Post as (pre & c & costs & Eq & TrP & O & _).
      destruct (Key pre c Eq TrP) as [Lp Ec]; [congruence|]. rewrite <- Ec, O, Eq, app_length. cbn. split; [lia|reflexivity].
    - destruct Post as (L5 & TrA & _). exfalso.
      destruct (nth_error cs k) as [p|] eqn:X; [|apply nth_error_None in X; lia].
      apply NT. rewrite <- (Nth k p X). eapply all_transient_nth; eauto.
    - destruct Post as (pre & c & Eq & TrP & Fa & _).
      destruct (Key pre c Eq TrP) as [Lp Ec]; [congruence|]. rewrite <- Ec, Fa, Eq, app_length. cbn. split; [lia|reflexivity].
  Qed.

  (* five consecutive transient failures: RuntimeError, the design is left EMPTY with the fifth replacement *)
  Theorem five_failures_raise e st id i st' r :
    nth_error (s_heap st) id = Some i -> istate i <> Evaluated -> job_evaluate e st id = (st', r) ->
    (forall j, j < 5 -> e_obj e (job_call e id (length (s_calls st)) 0 (ivec i) j) = Transient) ->
    r = Raised5.
  Proof.
    intros H NE E Tr.
    destruct (job_protocol e st id i st' r H NE E) as (cs & i' & C & L & Nth & _ & _ & _ & Post).
    destruct r as [| |kd]; [exfalso|reflexivity|exfalso].
    - destruct Post as (pre & c & costs & -> & _ & O & _). rewrite app_length in L. cbn in L.
      rewrite (Nth (length pre) c (nth_error_app_new pre c)) in O. rewrite Tr in O by lia. discriminate.
    - destruct Post as (pre & c & -> & _ & Fa & _). rewrite app_length in L. cbn in L.
      rewrite (Nth (length pre) c (nth_error_app_new pre c)) in Fa. rewrite Tr in Fa by lia. discriminate.
  Qed.

  (* a design's stored vector after re-rolls satisfies whatever every replacement satisfies *)
  Theorem stored_vector_invariant e st id i st' (P : list T -> Prop) :
    nth_error (s_heap st) id = Some i -> istate i <> Evaluated -> job_evaluate e st id = (st', Done) ->
    P (ivec i) -> (forall c, P (e_reroll e c)) ->
    exists i', nth_error (s_heap st') id = Some i' /\ P (ivec i').
  Proof.
    intros H NE E P0 Pr. destruct (job_spec e st id i st' Done H NE E) as (cs & i' & _ & Hh & _ & Ch & Post).
    exists i'. split.
    - rewrite Hh. apply nth_error_upd_same. apply nth_error_Some. congruence.
    - destruct Post as (pre & c & costs & -> & _ & _ & _ & _ & I' & _). rewrite I'. cbn.
      rewrite (chain_last_vec e id pre _ _ _ c Ch). destruct (rev pre); auto.
  Qed.

  (* batch level *)
  Theorem serial_attempts_le_5 e : forall batch st st' r cs,
    evaluate_serial e st batch = (st', r) -> s_calls st' = s_calls st ++ cs ->
    forall id, length (calls_of id cs) <= 5.
  Proof.
    induction batch as [|h rest IH]; intros st st' r cs E C id; cbn [Job.evaluate_serial] in E.
    - inversion E; subst. rewrite <- (app_nil_r (s_calls st')) in C at 1. apply app_inv_head in C. subst. cbn. lia.
    - destruct (nth_error (s_heap st) h) as [ih|] eqn:Hh; [|eapply IH; eauto].
      destruct (istate ih) eqn:S; try (eapply IH; eauto; fail).
      destruct (job_evaluate e st h) as [st1 r1] eqn:J.
      destruct (job_frame e st h st1 r1 J) as (cs1 & C1 & L1 & Ids & _).
      assert (B1 : length (calls_of id cs1) <= 5).
      { etransitivity; [apply filter_len_le|exact L1]. }
      destruct r1 as [| |k].
      + destruct (serial_frame e rest st1 st' r E) as (cs2 & C2 & _).
        assert (cs = cs1 ++ cs2) as ->.
        { rewrite C2, C1, <- app_assoc in C. apply app_inv_head in C. congruence. }
        rewrite calls_of_app, app_length.
        destruct (Nat.eq_dec id h) as [->|D].
        * (* the design is evaluated now: the rest of the batch does not call it again *)
          assert (NEv : istate ih <> Evaluated) by congruence.
          destruct (job_done_evaluated e st h ih st1 Hh NEv J) as (i' & Hi' & Ev).
          pose proof (serial_calls_empty e rest st1 st' r cs2 E C2) as F.
          assert (calls_of h cs2 = []) as ->.
          { apply filter_all_false. eapply Forall_impl; [|exact F]. cbn. intros a [_ (ia & Ha & Ea)].
            apply Nat.eqb_neq. intros X. rewrite X in Ha. congruence. }
          cbn. lia.
        * rewrite (calls_of_other h id cs1 D Ids). cbn. eapply IH; eauto.
      + inversion E; subst. rewrite C1 in C. apply app_inv_head in C. subst. exact B1.
      + inversion E; subst. rewrite C1 in C. apply app_inv_head in C. subst. exact B1.
  Qed.

  (* an exception leaves the batch at once: the state is the one the raising job produced *)
  Theorem serial_raise_stops e : forall batch st st' r,
    evaluate_serial e st batch = (st', r) -> r <> Done ->
    exists pre h post st1 ih, batch = pre ++ h :: post /\ evaluate_serial e st pre = (st1, Done) /\
      nth_error (s_heap st1) h = Some ih /\ istate ih = Empty /\ job_evaluate e st1 h = (st', r).
  Proof.
    induction batch as [|h rest IH]; intros st st' r E NR; cbn [Job.evaluate_serial] in E.
    - inversion E; subst. congruence.
    - assert (Skip : evaluate_serial e st [h] = (st, Done) -> evaluate_serial e st rest = (st', r) ->
        exists pre h0 post st1 ih, h :: rest = pre ++ h0 :: post /\ evaluate_serial e st pre = (st1, Done) /\
          nth_error (s_heap st1) h0 = Some ih /\ istate ih = Empty /\ job_evaluate e st1 h0 = (st', r)).
      { intros S1 E'. destruct (IH st st' r E' NR) as (pre & h0 & post & st1 & ih & -> & Ep & Hh & Em & J).
        exists (h :: pre), h0, post, st1, ih. repeat split; auto.
        cbn [Job.evaluate_serial] in S1 |- *.
        destruct (nth_error (s_heap st) h) as [i0|]; [|exact Ep].
        destruct (istate i0); try exact Ep.
        destruct (job_evaluate e st h) as [sx rx]. destruct rx; inversion S1; subst. exact Ep. }
      destruct (nth_error (s_heap st) h) as [ih|] eqn:Hh.
      2:{ apply Skip; [cbn; rewrite Hh; reflexivity|exact E]. }
      destruct (istate ih) eqn:S; try (apply Skip; [cbn; rewrite Hh, S; reflexivity|exact E]).
      destruct (job_evaluate e st h) as [st1 r1] eqn:J.
      destruct r1 as [| |k].
      + destruct (IH st1 st' r E NR) as (pre & h0 & post & st2 & ih2 & -> & Ep & Hh2 & Em & J2).
        exists (h :: pre), h0, post, st2, ih2. repeat split; auto.
        cbn [Job.evaluate_serial]. rewrite Hh, S, J. exact Ep.
      + inversion E; subst. exists [], h, rest, st, ih. repeat split; auto.
      + inversion E; subst. exists [], h, rest, st, ih. repeat split; auto.
  Qed.

  (* the failed list over every history of operations *)
  Theorem reach_failed e st0 st cs :
    reach e st0 st cs -> s_calls st = s_calls st0 ++ cs /\ s_failed st = s_failed st0 ++ failed_of e cs.
  Proof.
    induction 1 as [|st cs batch st' r cs' _ [IC IF] E C|st cs x st' ret cs' _ [IC IF] E C|st cs vs st' r cs' _ [IC IF] E C].
    - rewrite !app_nil_r. auto.
    - destruct (serial_frame e batch st st' r E) as (cs2 & C2 & _ & _ & F2 & _).
      assert (cs2 = cs') as -> by (rewrite C2 in C; apply app_inv_head in C; congruence).
      rewrite C, F2, IC, IF, failed_of_app, !app_assoc. auto.
    - unfold Job.evaluate_scalar in E.
      destruct (job_evaluate e (add_pop (alloc st (fresh x)) [length (s_heap st)]) (length (s_heap st))) as [st2 r2] eqn:J.
      destruct (job_frame e _ _ st2 r2 J) as (cs2 & C2 & _ & _ & _ & _ & _ & F2 & _).
      cbn [s_calls s_failed add_pop alloc set_heap] in C2, F2.
      assert (st2 = st') by (destruct r2; inversion E; reflexivity). subst st2.
      assert (cs2 = cs') as -> by (rewrite C2 in C; apply app_inv_head in C; congruence).
      rewrite C, F2, IC, IF, failed_of_app, !app_assoc. auto.
    - unfold Job.sweep in E. destruct (serial_frame e _ _ st' r E) as (cs2 & C2 & _ & _ & F2 & _).
      cbn [s_calls s_failed add_pop set_heap] in C2, F2.
      assert (cs2 = cs') as -> by (rewrite C2 in C; apply app_inv_head in C; congruence).
      rewrite C, F2, IC, IF, failed_of_app, !app_assoc. auto.
  Qed.
  (* ------------------------------------------------------------------ statements used by Props/C05.v, Props/C06.v *)
  Theorem reach_once e st0 st cs id i :
    reach e st0 st cs -> nth_error (s_heap st) id = Some i ->
    (forall i0, nth_error (s_heap st0) id = Some i0 -> istate i0 <> Evaluated) ->
    (okc e id cs = [] /\ istate i <> Evaluated) \/ evaluated_by e id cs i.
  Proof.
    intros HR H N. apply reach_R in HR. destruct HR as (_ & _ & _ & D). specialize (D id i H).
    destruct (nth_error (s_heap st0) id) as [i0|]; [|exact D].
    specialize (N i0 eq_refl). destruct (istate i0); try exact D. congruence.
  Qed.

  Theorem reach_evaluated_untouched e st0 st cs id i0 :
    reach e st0 st cs -> nth_error (s_heap st0) id = Some i0 -> istate i0 = Evaluated ->
    nth_error (s_heap st) id = Some i0 /\ calls_of id cs = [].
  Proof.
    intros HR H0 Ev. apply reach_R in HR. destruct HR as (_ & Len & _ & D).
    destruct (nth_error (s_heap st) id) as [i|] eqn:H.
    - specialize (D id i H). rewrite H0, Ev in D. destruct D as [-> Z]. auto.
    - apply nth_error_None in H. assert (id < length (s_heap st0)) by (apply nth_error_Some; congruence). lia.
  Qed.

  Theorem job_attempts_le_5 e st id st' r :
    job_evaluate e st id = (st', r) ->
    exists cs, s_calls st' = s_calls st ++ cs /\ length cs <= 5 /\ Forall (fun c => c_id c = id) cs /\
               s_failed st' = s_failed st ++ failed_of e cs.
  Proof.
    intros E. destruct (job_frame e st id st' r E) as (cs & C & L & Ids & _ & _ & _ & F & _).
    exists cs. auto.
  Qed.

  Theorem failed_log_exact e st0 st cs :
    reach e st0 st cs ->
    s_calls st = s_calls st0 ++ cs /\
    s_failed st = s_failed st0 ++ map (fun c => mk_failed (c_vec c)) (filter (tr_b e) cs) /\
    Forall (fun f => istate f = Failed /\ icosts f = [] /\ isigned f = None)
           (map (fun c => mk_failed (c_vec c)) (filter (tr_b e) cs)).
  Proof.
    intros HR. destruct (reach_failed e st0 st cs HR) as [C F]. split; [exact C|]. split; [exact F|].
    apply failed_of_states.
  Qed.

  Theorem stored_pair_after_reroll e st id i st' :
    nth_error (s_heap st) id = Some i -> istate i <> Evaluated -> job_evaluate e st id = (st', Done) ->
    exists pre c costs i',
      s_calls st' = s_calls st ++ pre ++ [c] /\ all_transient e pre /\ e_obj e c = Ok costs /\
      c_vec c = match rev pre with [] => ivec i | p :: _ => e_reroll e p end /\
      nth_error (s_heap st') id = Some i' /\ ivec i' = c_vec c /\ icosts i' = costs /\ istate i' = Evaluated /\
      s_failed st' = s_failed st ++ map (fun c => mk_failed (c_vec c)) pre /\
      s_store st' = s_store st ++ [(id, i')].
  Proof.
    intros H NE E. destruct (job_spec e st id i st' Done H NE E) as (cs & i' & C & Hh & _ & Ch & Post).
    destruct Post as (pre & c & costs & -> & _ & Tr & O & F & I' & S').
    exists pre, c, costs, i'. repeat split; auto.
    - eapply chain_last_vec; eauto.
    - rewrite Hh. apply nth_error_upd_same. apply nth_error_Some. congruence.
    - rewrite I'. reflexivity.
    - rewrite I'. reflexivity.
    - rewrite I'. reflexivity.
  Qed.

  Theorem five_failures_state e st id i st' r :
    nth_error (s_heap st) id = Some i -> istate i <> Evaluated -> job_evaluate e st id = (st', r) ->
    (forall j, j < 5 -> e_obj e (job_call e id (length (s_calls st)) 0 (ivec i) j) = Transient) ->
    r = Raised5 /\
    exists cs i', s_calls st' = s_calls st ++ cs /\ length cs = 5 /\
      s_failed st' = s_failed st ++ map (fun c => mk_failed (c_vec c)) cs /\
      s_store st' = s_store st /\
      nth_error (s_heap st') id = Some i' /\ istate i' = Empty /\ icosts i' = icosts i /\
      ivec i' = e_reroll e (job_call e id (length (s_calls st)) 0 (ivec i) 4).
  Proof.
    intros H NE E Tr. pose proof (five_failures_raise e st id i st' r H NE E Tr) as ->. split; [reflexivity|].
    destruct (job_protocol e st id i st' Raised5 H NE E) as (cs & i' & C & _ & Nth & F & Hi & _ & Post).
    destruct Post as (L & _ & Em & Co & (c4 & N4 & V) & Fo & S').
    exists cs, i'. rewrite <- Fo. repeat split; auto. rewrite V, (Nth 4 c4 N4). reflexivity.
  Qed.

  Theorem four_failures_do_not_raise e st id i st' r costs :
    nth_error (s_heap st) id = Some i -> istate i <> Evaluated -> job_evaluate e st id = (st', r) ->
    (forall j, j < 4 -> e_obj e (job_call e id (length (s_calls st)) 0 (ivec i) j) = Transient) ->
    e_obj e (job_call e id (length (s_calls st)) 0 (ivec i) 4) = Ok costs ->
    r = Done /\ exists cs, s_calls st' = s_calls st ++ cs /\ length cs = 5.
  Proof.
    intros H NE E Tr O.
    destruct (job_decided e st id i st' r 4 H NE E) as (cs & C & L & Hr); [lia|exact Tr|congruence|].
    rewrite O in Hr. split; [exact Hr|]. exists cs. auto.
  Qed.

  Theorem fatal_propagates e st id i st' r k kd :
    nth_error (s_heap st) id = Some i -> istate i <> Evaluated -> job_evaluate e st id = (st', r) ->
    k < 5 ->
    (forall j, j < k -> e_obj e (job_call e id (length (s_calls st)) 0 (ivec i) j) = Transient) ->
    e_obj e (job_call e id (length (s_calls st)) 0 (ivec i) k) = Fatal kd ->
    r = RaisedFatal kd /\
    exists pre c i', s_calls st' = s_calls st ++ pre ++ [c] /\ length pre = k /\
      c = job_call e id (length (s_calls st)) 0 (ivec i) k /\
      s_failed st' = s_failed st ++ map (fun c => mk_failed (c_vec c)) pre /\
      s_store st' = s_store st /\
      nth_error (s_heap st') id = Some i' /\ istate i' = InProgress /\ ivec i' = c_vec c /\ icosts i' = icosts i.
  Proof.
    intros H NE E Lk Tr Fa.
    destruct (job_decided e st id i st' r k H NE E Lk Tr) as (cs & C & L & Hr); [congruence|].
    rewrite Fa in Hr. subst r. split; [reflexivity|].
    destruct (job_protocol e st id i st' (RaisedFatal kd) H NE E) as (cs' & i' & C' & _ & Nth & F & Hi & _ & Post).
    assert (cs' = cs) as -> by (rewrite C in C'; apply app_inv_head in C'; congruence).
    destruct Post as (pre & c & -> & _ & _ & St & V & Co & Fo & S').
    rewrite app_length in L. cbn in L.
    exists pre, c, i'. rewrite <- Fo. repeat split; auto; try lia.
    rewrite (Nth (length pre) c (nth_error_app_new pre c)). f_equal. lia.
  Qed.
  (* ------------------------------------------------------------------ the stored precision is never changed *)
  Lemma serial_iprec e : forall batch st st' r id i,
    evaluate_serial e st batch = (st', r) -> nth_error (s_heap st) id = Some i ->
    exists i', nth_error (s_heap st') id = Some i' /\ iprec i' = iprec i.
  Proof.
    induction batch as [|h rest IH]; intros st st' r id i E H; cbn [Job.evaluate_serial] in E.
    - inversion E; subst. eauto.
    - destruct (nth_error (s_heap st) h) as [ih|] eqn:Hh; [|eapply IH; eauto].
      destruct (istate ih) eqn:S; try (eapply IH; eauto; fail).
      destruct (job_evaluate e st h) as [st1 r1] eqn:J.
      assert (NEv : istate ih <> Evaluated) by congruence.
      assert (exists i1, nth_error (s_heap st1) id = Some i1 /\ iprec i1 = iprec i) as (i1 & H1 & P1).
      { destruct (Nat.eq_dec id h) as [->|D].
        - rewrite Hh in H. inversion H; subst ih. eapply job_iprec; eauto.
        - destruct (job_frame e st h st1 r1 J) as (_ & _ & _ & _ & _ & _ & Oth & _).
          exists i. rewrite (Oth id D). auto. }
      destruct r1 as [| |k].
      + destruct (IH st1 st' r id i1 E H1) as (i' & H' & P'). exists i'. split; [exact H'|congruence].
      + inversion E; subst. eauto.
      + inversion E; subst. eauto.
  Qed.

  Theorem reach_iprec e st0 st cs id i :
    reach e st0 st cs -> nth_error (s_heap st) id = Some i ->
    iprec i = match nth_error (s_heap st0) id with Some i0 => iprec i0 | None => 7 end.
  Proof.
    intros HR. revert id i.
    induction HR as [|st cs batch st' r cs' HR IH E C|st cs x st' ret cs' HR IH E C|st cs vs st' r cs' HR IH E C]; intros id i H.
    - rewrite H. reflexivity.
    - destruct (serial_frame e batch st st' r E) as (_ & _ & L & _).
      destruct (nth_error (s_heap st) id) as [i1|] eqn:H1.
      + destruct (serial_iprec e batch st st' r id i1 E H1) as (i' & H' & P'). rewrite H in H'. inversion H'; subst i'.
        rewrite P'. apply IH. exact H1.
      + apply nth_error_None in H1. assert (id < length (s_heap st')) by (apply nth_error_Some; congruence). lia.
    - unfold Job.evaluate_scalar in E.
      set (st1 := add_pop (alloc st (fresh x)) [length (s_heap st)]) in *.
      destruct (job_evaluate e st1 (length (s_heap st))) as [st2 r2] eqn:J.
      assert (st2 = st') by (destruct r2; inversion E; reflexivity). subst st2.
      assert (A1 : forall k ik, nth_error (s_heap st1) k = Some ik ->
                   iprec ik = match nth_error (s_heap st0) k with Some i0 => iprec i0 | None => 7 end).
      { intros k ik Hk. cbn [st1 s_heap add_pop alloc set_heap] in Hk.
        destruct (Nat.lt_ge_cases k (length (s_heap st))) as [Lt|Ge].
        - rewrite nth_error_app1 in Hk by exact Lt. apply IH. exact Hk.
        - rewrite nth_error_app2 in Hk by exact Ge. apply nth_error_In in Hk. destruct Hk as [<-|[]].
          apply reach_R in HR. destruct HR as (_ & Len & _).
          assert (N : nth_error (s_heap st0) k = None) by (apply nth_error_None; lia). rewrite N. reflexivity. }
      destruct (job_frame e st1 _ st' r2 J) as (_ & _ & _ & _ & L & _ & Oth & _).
      destruct (Nat.eq_dec id (length (s_heap st))) as [->|D].
      + assert (F1 : nth_error (s_heap st1) (length (s_heap st)) = Some (fresh x)) by (cbn; apply nth_error_app_new).
        assert (NE : istate (fresh x) <> Evaluated) by (cbn; discriminate).
        destruct (job_iprec e st1 _ (fresh x) st' r2 F1 NE J) as (i2 & H2 & P2). rewrite H in H2. inversion H2; subst i2.
        rewrite P2. apply A1. exact F1.
      + rewrite (Oth id D) in H. apply A1. exact H.
    - unfold Job.sweep in E.
      set (st1 := add_pop (set_heap st (s_heap st ++ map (@fresh T) vs)) (seq (length (s_heap st)) (length vs))) in *.
      assert (A1 : forall k ik, nth_error (s_heap st1) k = Some ik ->
                   iprec ik = match nth_error (s_heap st0) k with Some i0 => iprec i0 | None => 7 end).
      { intros k ik Hk. cbn [st1 s_heap add_pop set_heap] in Hk.
        destruct (Nat.lt_ge_cases k (length (s_heap st))) as [Lt|Ge].
        - rewrite nth_error_app1 in Hk by exact Lt. apply IH. exact Hk.
        - rewrite nth_error_app2 in Hk by exact Ge. apply nth_error_In in Hk. apply in_map_iff in Hk.
          destruct Hk as (v & <- & _).
          apply reach_R in HR. destruct HR as (_ & Len & _).
          assert (N : nth_error (s_heap st0) k = None) by (apply nth_error_None; lia). rewrite N. reflexivity. }
      destruct (serial_frame e _ st1 st' r E) as (_ & _ & L & _).
      destruct (nth_error (s_heap st1) id) as [i1|] eqn:H1.
      + destruct (serial_iprec e _ st1 st' r id i1 E H1) as (i' & H' & P'). rewrite H in H'. inversion H'; subst i'.
        rewrite P'. apply A1. exact H1.
      + apply nth_error_None in H1. assert (id < length (s_heap st')) by (apply nth_error_Some; congruence). lia.
  Qed.
End JobFacts.

Arguments mkcall {T} n id att v.
Arguments ok_b {T} e c.
Arguments tr_b {T} e c.
Arguments calls_of {T} id l.
Arguments okc {T} e id l.
Arguments failed_of {T} e l.
Arguments all_transient {T} e l.
Arguments job_call {T} e id n att v k.
Arguments vec_of {T} st id.


(* ------------------------------------------------------------------ the rational instance of round7 *)
(* "rounded to the stored precision" as a statement about numbers: round half to even of y * 10^7,
   divided by 10^7; it differs from y by at most half a unit of the seventh decimal *)
From Coq Require Import QArith Qround Qabs Lqa.

Definition q_rhe (q : Q) : Z :=
  let f := Qfloor q in
  match Qcompare (q - inject_Z f) (1 # 2) with
  | Lt => f
  | Gt => (f + 1)%Z
  | Eq => if Z.even f then f else (f + 1)%Z
  end.

Definition q_pow10 (p : nat) : Q := inject_Z (10 ^ Z.of_nat p).
Definition qroundp (p : nat) (y : Q) : Q := inject_Z (q_rhe (y * q_pow10 p)) / q_pow10 p.
Definition qround7 (y : Q) : Q := qroundp 7 y.
Definition qsmul (maximise : bool) (x : Q) : Q := if maximise then - x else x.

Lemma q_pow10_pos p : (0 < q_pow10 p)%Q.
Proof.
  unfold q_pow10. change 0%Q with (inject_Z 0). rewrite <- Zlt_Qlt. apply Z.pow_pos_nonneg; lia.
Qed.

Lemma q_rhe_half (q : Q) : (Qabs (inject_Z (q_rhe q) - q) <= 1 # 2)%Q.
Proof.
  unfold q_rhe. pose proof (Qfloor_le q) as Lo. pose proof (Qlt_floor q) as Hi.
  rewrite inject_Z_plus in Hi. change (inject_Z 1) with 1%Q in Hi.
  apply Qabs_Qle_condition.
  destruct (Qcompare (q - inject_Z (Qfloor q)) (1 # 2)) eqn:Cmp.
  - apply Qeq_alt in Cmp. destruct (Z.even (Qfloor q)).
    + split; lra.
    + rewrite inject_Z_plus. change (inject_Z 1) with 1%Q. split; lra.
  - apply Qlt_alt in Cmp. split; lra.
  - apply Qgt_alt in Cmp. rewrite inject_Z_plus. change (inject_Z 1) with 1%Q. split; lra.
Qed.

(* rounding to p decimals moves a value by at most half a unit of the p-th decimal *)
Theorem qroundp_precision (p : nat) (y : Q) : (Qabs (qroundp p y - y) <= (1 # 2) / q_pow10 p)%Q.
Proof.
  unfold qroundp. pose proof (q_pow10_pos p) as Pos. set (d := q_pow10 p) in *.
  pose proof (q_rhe_half (y * d)) as H.
  apply Qabs_Qle_condition in H. apply Qabs_Qle_condition.
  set (k := inject_Z (q_rhe (y * d))) in *.
  assert (Nz : ~ (d == 0)%Q) by lra.
  assert (E : (k / d - y == (k - y * d) / d)%Q) by (field; exact Nz).
  assert (E2 : (- ((1 # 2) / d) == (- (1 # 2)) / d)%Q) by (field; exact Nz).
  assert (X1 : ((- (1 # 2)) / d * d == - (1 # 2))%Q) by (field; exact Nz).
  assert (X2 : ((1 # 2) / d * d == 1 # 2)%Q) by (field; exact Nz).
  rewrite E, E2. destruct H as [H1 H2]. split.
  - apply Qle_shift_div_l; [exact Pos|]. rewrite X1. lra.
  - apply Qle_shift_div_r; [exact Pos|]. rewrite X2. lra.
Qed.

Theorem qround7_precision (y : Q) : (Qabs (qround7 y - y) <= 1 # 20000000)%Q.
Proof.
  pose proof (qroundp_precision 7 y) as H. unfold qround7.
  assert (E : ((1 # 2) / q_pow10 7 == 1 # 20000000)%Q) by reflexivity.
  rewrite E in H. exact H.
Qed.

(* a value that already has at most p decimals is left unchanged *)
Theorem qroundp_fixpoint (p : nat) (k : Z) : (qroundp p (inject_Z k / q_pow10 p) == inject_Z k / q_pow10 p)%Q.
Proof.
  unfold qroundp. pose proof (q_pow10_pos p) as Pos. set (d := q_pow10 p) in *.
  assert (Nz : ~ (d == 0)%Q) by lra.
  assert (E : (inject_Z k / d * d == inject_Z k)%Q) by (field; exact Nz).
  assert (Fl : Qfloor (inject_Z k / d * d) = k) by (rewrite (Qfloor_comp _ _ E); apply Qfloor_Z).
  assert (F : q_rhe (inject_Z k / d * d) = k).
  { unfold q_rhe. rewrite Fl.
    assert (C : Qcompare (inject_Z k / d * d - inject_Z k) (1 # 2) = Lt).
    { apply (proj1 (Qlt_alt _ _)). rewrite E. lra. }
    rewrite C. reflexivity. }
  rewrite F. reflexivity.
Qed.
