(* C15 - Perm and the range of binary64 (open finding F10).  The real value of Perm on its box [-n, n]^n is at most
   0.71 * (largest finite binary64) in every dimension n <= 80, and exceeds the largest finite binary64 at the corner
   (81, .., 81) of the 81-dimensional box: 80 is the exact threshold up to which "one finite float" can hold on the
   whole box.  By hand; the two numeric facts are comparisons of integers (vm_compute on Z). *)
From Coq Require Import Reals List Lia Lra Psatz ZArith.
From Artap Require Import Model.Bench Proofs.BenchLemmas Proofs.BenchProofsA.
Import ListNotations.
Local Open Scope R_scope.

(* largest finite binary64: (2^53 - 1) * 2^971 = 1.7976931348623157e308 *)
Definition max_binary64_Z : Z := ((2 ^ 53 - 1) * 2 ^ 971)%Z.
Definition max_binary64 : R := IZR max_binary64_Z.

(* sum of the weights j + 1 + 10 over the positions of x, starting at index k *)
Definition weights (k : nat) (x : list R) : R := sum_idx (fun j _ => INR (S j) + 10) k x.

Lemma weights_closed : forall x k,
  weights k x = INR (length x) * INR k + INR (length x) * (INR (length x) - 1) / 2 + 11 * INR (length x).
Proof.
  unfold weights. induction x as [|c t IH]; intros k.
  - simpl. field.
  - cbn [sum_idx]. rewrite IH. change (length (c :: t)) with (S (length t)). rewrite !S_INR. field.
Qed.

Lemma weights_le_4040 : forall x, (length x <= 80)%nat -> 0 <= weights 0 x <= 4040.
Proof.
  intros x L. rewrite weights_closed. replace (INR 0) with 0 by reflexivity.
  assert (0 <= INR (length x) <= 80) as [A B].
  { split; [apply pos_INR |]. replace 80 with (INR 80) by (rewrite INR_IZR_INZ; reflexivity). apply le_INR. exact L. }
  set (m := INR (length x)) in *.
  destruct (Nat.eq_dec (length x) 0) as [E | NE].
  - assert (m = 0) as Z by (unfold m; rewrite E; reflexivity). rewrite Z. lra.
  - assert (1 <= m) by (unfold m; change 1 with (INR 1); apply le_INR; lia).
    assert (m * m <= 80 * m) by nra. assert (m <= m * m) by nra. lra.
Qed.

Lemma abs_le_inv : forall a b, Rabs a <= b -> - b <= a <= b.
Proof. intros a b H. pose proof (Rle_abs a). pose proof (Rle_abs (- a)) as Q. rewrite Rabs_Ropp in Q. lra. Qed.

Lemma sq_le_abs : forall a b, Rabs a <= b -> a ^ 2 <= b ^ 2.
Proof.
  intros a b H. rewrite <- (pow2_abs a). pose proof (Rabs_pos a). apply pow_incr. lra.
Qed.

Lemma inv_pow_S_bounds : forall (j i : nat), 0 < 1 / INR (S j) ^ i <= 1.
Proof.
  intros j i. assert (1 <= INR (S j)) as Q by (rewrite S_INR; pose proof (pos_INR j); lra).
  pose proof (pow_R1_Rle _ i Q) as P. split.
  - apply Rdiv_lt_0_compat; lra.
  - apply Rmult_le_reg_r with (INR (S j) ^ i); [lra |]. unfold Rdiv. rewrite Rmult_assoc, Rinv_l by lra. lra.
Qed.

Lemma perm_term_upper : forall (i j : nat) d N, Rabs d <= N ->
  (INR (S j) + 10) * (d ^ i - 1 / INR (S j) ^ i) ^ 2 <= (N ^ i + 1) ^ 2 * (INR (S j) + 10).
Proof.
  intros i j d N H. pose proof (INR_S_pos j) as P. rewrite (Rmult_comm ((N ^ i + 1) ^ 2)).
  apply Rmult_le_compat_l; [lra |]. apply sq_le_abs.
  pose proof (inv_pow_S_bounds j i) as [Q0 Q1].
  assert (Rabs (d ^ i) <= N ^ i) as D.
  { rewrite <- RPow_abs. apply pow_incr. split; [apply Rabs_pos | exact H]. }
  apply Rabs_le. apply abs_le_inv in D. lra.
Qed.

Lemma perm_inner_upper_k : forall i N x, Forall (fun d => Rabs d <= N) x -> forall k,
  sum_idx (fun j d => (INR (S j) + 10) * (d ^ i - 1 / INR (S j) ^ i) ^ 2) k x <= (N ^ i + 1) ^ 2 * weights k x.
Proof.
  intros i N x F. unfold weights.
  induction F as [|d t Hd Ft IH]; intros k; cbn [sum_idx].
  - lra.
  - pose proof (perm_term_upper i k d N Hd). specialize (IH (S k)). lra.
Qed.

Lemma perm_inner_upper : forall i N x, Forall (fun d => Rabs d <= N) x ->
  perm_inner i x <= (N ^ i + 1) ^ 2 * weights 0 x.
Proof. intros i N x F. unfold perm_inner. apply perm_inner_upper_k. exact F. Qed.

(* G N K = sum over i = 1..K of (N^i + 1)^2 *)
Fixpoint G (N : R) (K : nat) : R := match K with O => 0 | S K' => G N K' + (N ^ K + 1) ^ 2 end.

Lemma perm_outer_upper : forall K N x, Forall (fun d => Rabs d <= N) x ->
  perm_outer K x <= G N K * weights 0 x.
Proof.
  induction K as [|K IH]; intros N x F; cbn [perm_outer G].
  - lra.
  - pose proof (IH N x F). pose proof (perm_inner_upper (S K) N x F). lra.
Qed.

Lemma G_nonneg : forall N K, 0 <= G N K.
Proof. intros N K. induction K; cbn [G]; [lra | pose proof (pow2_ge_0 (N ^ S K + 1)); lra]. Qed.

Lemma G_mono_N : forall N M K, 0 <= N <= M -> G N K <= G M K.
Proof.
  intros N M K H. induction K as [|K IH]; cbn [G]; [lra |].
  assert (0 <= N ^ S K) by (apply pow_le; lra).
  assert (N ^ S K <= M ^ S K) by (apply pow_incr; exact H).
  assert ((N ^ S K + 1) ^ 2 <= (M ^ S K + 1) ^ 2) by (apply pow_incr; lra). lra.
Qed.

Lemma G_mono_K : forall N K L, (K <= L)%nat -> G N K <= G N L.
Proof.
  intros N K L H. induction H as [|L H IH]; [lra |].
  cbn [G]. pose proof (pow2_ge_0 (N ^ S L + 1)). lra.
Qed.

(* the same sum over Z, to compare with the largest binary64 by computation *)
Fixpoint GZ (N : Z) (K : nat) : Z := match K with O => 0 | S K' => GZ N K' + (N ^ Z.of_nat K + 1) ^ 2 end%Z.

Lemma G_GZ : forall N K, G (IZR N) K = IZR (GZ N K).
Proof.
  intros N K. induction K as [|K IH]; [reflexivity |].
  cbn [G GZ]. rewrite IH, plus_IZR. f_equal.
  replace ((N ^ Z.of_nat (S K) + 1) ^ 2)%Z with ((N ^ Z.of_nat (S K) + 1) * ((N ^ Z.of_nat (S K) + 1) * 1))%Z by ring.
  rewrite !mult_IZR, plus_IZR, <- pow_IZR. simpl (IZR 1). ring.
Qed.

Lemma bound_80 : G 80 80 * 4040 <= max_binary64.
Proof.
  rewrite (G_GZ 80 80). unfold max_binary64. rewrite <- mult_IZR. apply IZR_le.
  apply Z.leb_le. vm_compute. reflexivity.
Qed.

Lemma abs_box : forall N x, in_box (- N) N x -> Forall (fun d => Rabs d <= N) x.
Proof. intros N x F. unfold in_box in F. eapply Forall_impl; [| exact F]. intros d H. apply Rabs_le. exact H. Qed.

Lemma perm_representable : forall n x, (1 <= n <= 80)%nat -> in_boxes (b_box perm_b n) x ->
  0 <= perm x <= max_binary64.
Proof.
  intros n x [L1 L80] Hx. simpl in Hx. apply in_boxes_cube in Hx. destruct Hx as [Len F].
  split; [unfold perm; apply perm_outer_nonneg |].
  unfold perm. rewrite Len. pose proof (perm_outer_upper n (INR n) x (abs_box _ _ F)) as U.
  assert (0 <= INR n <= 80) as B.
  { split; [apply pos_INR |]. replace 80 with (INR 80) by (rewrite INR_IZR_INZ; reflexivity). apply le_INR. exact L80. }
  pose proof (G_mono_N (INR n) 80 n B) as M1. pose proof (G_mono_K 80 n 80 L80) as M2.
  pose proof (G_nonneg (INR n) n) as G0. pose proof (G_nonneg 80 80) as G80.
  pose proof (weights_le_4040 x ltac:(lia)) as [W0 W1]. pose proof bound_80 as B80.
  assert (G (INR n) n * weights 0 x <= G 80 80 * 4040) by (apply Rmult_le_compat; lra).
  lra.
Qed.

(* at the corner (81,..,81) of the 81-dimensional box the single term i = 81, j = 0 already exceeds binary64 *)
Lemma corner_81 : max_binary64 < 11 * ((81 ^ 81 - 1) * (81 ^ 81 - 1)).
Proof.
  unfold max_binary64.
  replace (11 * ((81 ^ 81 - 1) * (81 ^ 81 - 1))) with (IZR (11 * ((81 ^ Z.of_nat 81 - 1) * (81 ^ Z.of_nat 81 - 1)))).
  - apply IZR_lt. apply Z.ltb_lt. vm_compute. reflexivity.
  - rewrite !mult_IZR, !minus_IZR, <- !pow_IZR. reflexivity.
Qed.

Lemma perm_outer_S : forall K x, perm_outer (S K) x = perm_outer K x + perm_inner (S K) x.
Proof. reflexivity. Qed.

Lemma perm_exceeds_81 : exists x, in_boxes (b_box perm_b 81) x /\ max_binary64 < perm x.
Proof.
  exists (repeat 81 81). split.
  - cbn [b_box perm_b]. apply in_boxes_cube_repeat. rewrite INR_IZR_INZ. simpl. lra.
  - unfold perm. rewrite repeat_length. rewrite (perm_outer_S 80 (repeat 81 81)).
    pose proof (perm_outer_nonneg 80 (repeat 81 81)) as P0.
    unfold perm_inner at 1. change (repeat 81 81) with (81 :: repeat 81 80) at 2. cbn [sum_idx].
    assert (0 <= sum_idx (fun j d => (INR (S j) + 10) * (d ^ 81 - 1 / INR (S j) ^ 81) ^ 2) 1 (repeat 81 80)) as R0.
    { apply sum_idx_nonneg. intros j d. apply Rmult_le_pos; [pose proof (INR_S_pos j); lra | apply pow2_ge_0]. }
    replace (INR 1) with 1 by reflexivity. rewrite pow1. replace (1 / 1) with 1 by field.
    pose proof corner_81 as C. set (q := 81 ^ 81 - 1) in *.
    replace (q ^ 2) with (q * q) by ring. lra.
Qed.
