(* C13, generalized subset designs (build_gsd and helpers of Model/Doe.v), for every reduction r >= 2
   and every list of level counts >= 2, by induction (no size bound):

   * with the cyclic Latin square L[i][j] = (i + j) mod r one pass of the column-augmentation loop is
       A_i  <-  U_j { j :: w | w in A_((i+j) mod r) },
     so after every pass the r arrays are duplicate-free, pairwise disjoint and together contain every
     word of Z_r^m exactly once (oa_inv);
   * _make_partitions puts level l (1-based) of a factor with L >= 2 levels into partition (l-1) mod r
     (in_part: the inner bound range(1, num_levels) loses nothing when L >= 2);
   * _map_partitions_to_design maps the rows of A_i to the Cartesian products of the selected partitions,
     so design i is { row of the full factorial | (row_f mod r)_f in A_i }  (in_design);
   hence the r complementary designs are duplicate-free, pairwise disjoint and cover the full factorial. *)
From Coq Require Import List Arith Bool Lia.
From Artap Require Import Model.Doe Proofs.DoeLists Proofs.DoeFullfact.
Import ListNotations.
Local Open Scope nat_scope.

(* ---------------------------------------------------------------- list helpers ------ *)
Lemma nth_map_seq {B} (F : nat -> B) s n i d : i < n -> nth i (map F (seq s n)) d = F (s + i).
Proof.
  intros Lt. rewrite (nth_indep _ d (F 0)) by (rewrite map_length, seq_length; exact Lt).
  rewrite map_nth, seq_nth by exact Lt. reflexivity.
Qed.

Lemma combine_map_r {A B} (f : A -> B) l : combine l (map f l) = map (fun x => (x, f x)) l.
Proof. induction l as [|a l IH]; simpl; [reflexivity|]. rewrite IH. reflexivity. Qed.

Lemma skipn_seq' i : forall s n, skipn i (seq s n) = seq (s + i) (n - i).
Proof.
  induction i as [|i IH]; intros s n; [rewrite Nat.add_0_r, Nat.sub_0_r; reflexivity|].
  destruct n as [|n]; [reflexivity|]. simpl. rewrite IH. f_equal. lia.
Qed.

Lemma firstn_seq' i : forall s n, i <= n -> firstn i (seq s n) = seq s i.
Proof.
  induction i as [|i IH]; intros s n Le; [reflexivity|].
  destruct n as [|n]; [lia|]. simpl. rewrite IH by lia. reflexivity.
Qed.

Lemma list_as_map_nth {X} (l : list X) d : l = map (fun i => nth i l d) (seq 0 (length l)).
Proof.
  induction l as [|a l IH]; [reflexivity|]. simpl. f_equal.
  rewrite <- seq_shift, map_map. exact IH.
Qed.

Lemma skipn_cons_nth {X} (l : list X) d : forall s, s < length l -> skipn s l = nth s l d :: skipn (S s) l.
Proof.
  induction l as [|a l IH]; intros s Lt; [simpl in Lt; lia|].
  destruct s as [|s]; [reflexivity|]. simpl in Lt. simpl. rewrite (IH s) by lia. reflexivity.
Qed.

Lemma flat_map_nil {X Y} (f : X -> list Y) l : (forall x, In x l -> f x = []) -> flat_map f l = [].
Proof.
  induction l as [|a l IH]; intros H; [reflexivity|]. simpl.
  rewrite (H a (or_introl eq_refl)), IH; [reflexivity|]. intros x I. apply H. right. exact I.
Qed.

Lemma map_S_pred v : Forall (fun x => 1 <= x) v -> map S (map Nat.pred v) = v.
Proof.
  induction 1 as [|x v Hx F IH]; [reflexivity|]. simpl. rewrite IH. f_equal. lia.
Qed.

(* ---------------------------------------------------------------- arithmetic mod r -- *)
Lemma mod_cancel r i i' j : i < r -> i' < r -> (i + j) mod r = (i' + j) mod r -> i = i'.
Proof.
  intros Li Li' E. assert (r <> 0) as Hr by lia.
  pose proof (Nat.div_mod (i + j) r Hr) as D1. pose proof (Nat.div_mod (i' + j) r Hr) as D2.
  rewrite E in D1. set (q1 := (i + j) / r) in *. set (q2 := (i' + j) / r) in *.
  destruct (Nat.lt_trichotomy q1 q2) as [C|[C|C]]; nia.
Qed.

Lemma mod_solve r i' j : i' < r -> j < r -> exists i, i < r /\ (i + j) mod r = i'.
Proof.
  intros Li Lj. assert (r <> 0) as Hr by lia. exists ((i' + (r - j)) mod r). split.
  - apply Nat.mod_upper_bound. exact Hr.
  - rewrite Nat.add_mod_idemp_l by exact Hr. replace (i' + (r - j) + j) with (i' + 1 * r) by lia.
    rewrite Nat.mod_add by exact Hr. apply Nat.mod_small. exact Li.
Qed.

(* ---------------------------------------------------------------- latin square ------ *)
Lemma roll_left_seq r i : i < r -> roll_left i (seq 0 r) = map (fun j => (i + j) mod r) (seq 0 r).
Proof.
  intros Lt. unfold roll_left. rewrite skipn_seq', firstn_seq' by lia. simpl (0 + i).
  apply (nth_ext _ _ 0 0).
  - rewrite app_length, map_length, !seq_length. lia.
  - intros j Hj. rewrite app_length, !seq_length in Hj.
    rewrite (nth_map_seq _ 0 r j 0) by lia. simpl (0 + j).
    destruct (Nat.lt_ge_cases j (r - i)) as [C|C].
    + rewrite app_nth1 by (rewrite seq_length; lia). rewrite seq_nth by lia.
      rewrite Nat.mod_small by lia. reflexivity.
    + rewrite app_nth2 by (rewrite seq_length; lia). rewrite seq_length, seq_nth by lia.
      replace (i + j) with ((j - (r - i)) + 1 * r) by lia.
      rewrite Nat.mod_add by lia. rewrite Nat.mod_small by lia. reflexivity.
Qed.

Lemma latin_first_row r : 0 < r -> hd [] (make_latin_square r) = seq 0 r.
Proof.
  intros Hr. unfold make_latin_square. destruct r as [|r]; [lia|].
  change (seq 0 (S r)) with (0 :: seq 1 r) at 2. simpl map. simpl hd.
  unfold roll_left. simpl skipn. simpl firstn. apply app_nil_r.
Qed.

Lemma latin_row r i : i < r -> nth i (make_latin_square r) [] = map (fun j => (i + j) mod r) (seq 0 r).
Proof.
  intros Lt. unfold make_latin_square. rewrite nth_map_seq by exact Lt. apply roll_left_seq. exact Lt.
Qed.

(* one pass of the augmentation loop, array i *)
Lemma oa_step_nth r A i : length A = r -> i < r ->
  nth i (oa_step (make_latin_square r) A) [] =
  flat_map (fun j => map (cons j) (nth ((i + j) mod r) A [])) (seq 0 r).
Proof.
  intros LA Lt. unfold oa_step. rewrite LA, nth_map_seq by exact Lt. simpl (0 + i).
  rewrite latin_first_row by lia. rewrite latin_row by exact Lt.
  rewrite map_map, combine_map_r, map_map. simpl. rewrite <- flat_map_concat_map. reflexivity.
Qed.

Lemma in_aug (B : nat -> list (list nat)) r w :
  In w (flat_map (fun j => map (cons j) (B j)) (seq 0 r)) <->
  exists j w', j < r /\ w = j :: w' /\ In w' (B j).
Proof.
  rewrite in_flat_map. split.
  - intros (j & Ij & Iw). apply in_seq in Ij. apply in_map_iff in Iw. destruct Iw as (w' & E & Iw').
    exists j, w'. repeat split; [lia|symmetry; exact E|exact Iw'].
  - intros (j & w' & Lj & E & Iw'). exists j. split; [apply in_seq; lia|].
    apply in_map_iff. exists w'. split; [symmetry; exact E|exact Iw'].
Qed.

(* the r arrays of width m partition Z_r^m *)
Definition oa_inv (r m : nat) (A : list (list (list nat))) : Prop :=
  length A = r /\
  (forall i w, i < r -> In w (nth i A []) -> length w = m /\ Forall (fun c => c < r) w) /\
  (forall i, i < r -> NoDup (nth i A [])) /\
  (forall i i' w, i < r -> i' < r -> In w (nth i A []) -> In w (nth i' A []) -> i = i') /\
  (forall w, length w = m -> Forall (fun c => c < r) w -> exists i, i < r /\ In w (nth i A [])).

Lemma oa_inv_base r : 0 < r -> oa_inv r 1 (map (fun v => [[v]]) (hd [] (make_latin_square r))).
Proof.
  intros Hr. rewrite latin_first_row by exact Hr.
  assert (forall i, i < r -> nth i (map (fun v : nat => [[v]]) (seq 0 r)) [] = [[i]]) as N.
  { intros i Lt. rewrite nth_map_seq by exact Lt. reflexivity. }
  split; [rewrite map_length, seq_length; reflexivity|]. split; [|split; [|split]].
  - intros i w Lt I. rewrite N in I by exact Lt. destruct I as [<-|[]].
    split; [reflexivity|]. constructor; [exact Lt|constructor].
  - intros i Lt. rewrite N by exact Lt. apply NoDup_singleton.
  - intros i i' w Li Li' I I'. rewrite N in I, I' by assumption.
    destruct I as [<-|[]]. destruct I' as [E|[]]. inversion E. reflexivity.
  - intros w L F. destruct w as [|c [|c' w]]; try discriminate.
    inversion F as [|? ? Lc _]; subst. exists c. split; [exact Lc|].
    rewrite N by exact Lc. left. reflexivity.
Qed.

Lemma oa_inv_step r m A : 0 < r -> oa_inv r m A -> oa_inv r (S m) (oa_step (make_latin_square r) A).
Proof.
  intros Hr (LA & Rng & ND & Dis & Cov). assert (r <> 0) as Hr' by lia.
  assert (forall i, i < r -> (forall j, (i + j) mod r < r)) as Hm.
  { intros i _ j. apply Nat.mod_upper_bound. exact Hr'. }
  split; [unfold oa_step; rewrite map_length, seq_length; exact LA|]. split; [|split; [|split]].
  - intros i w Lt I. rewrite oa_step_nth in I by assumption. apply in_aug in I.
    destruct I as (j & w' & Lj & -> & Iw'). destruct (Rng _ _ (Hm i Lt j) Iw') as [L F].
    split; [simpl; rewrite L; reflexivity|]. constructor; assumption.
  - intros i Lt. rewrite oa_step_nth by assumption. apply NoDup_flat_map_disj.
    + apply seq_NoDup.
    + intros j _. apply NoDup_map_inj_in; [apply ND; apply Hm; exact Lt|].
      intros x y _ _ E. inversion E. reflexivity.
    + intros j j' w _ _ I I'. apply in_map_iff in I. apply in_map_iff in I'.
      destruct I as (x & <- & _). destruct I' as (y & E & _). inversion E. reflexivity.
  - intros i i' w Li Li' I I'. rewrite oa_step_nth in I, I' by assumption.
    apply in_aug in I. apply in_aug in I'.
    destruct I as (j & w' & Lj & -> & Iw'). destruct I' as (j' & w'' & Lj' & E & Iw''). inversion E; subst j' w''.
    apply (mod_cancel r i i' j Li Li'). exact (Dis _ _ _ (Hm i Li j) (Hm i' Li' j) Iw' Iw'').
  - intros w L F. destruct w as [|j w']; [discriminate|]. inversion F as [|j0 w0 Lj F' [Ej Ew]].
    simpl in L. destruct (Cov w' ltac:(lia) F') as (i' & Li' & Iw').
    destruct (mod_solve r i' j Li' Lj) as (i & Li & E). exists i. split; [exact Li|].
    rewrite oa_step_nth by assumption. apply in_aug. exists j, w'. rewrite E. repeat split; assumption.
Qed.

Lemma oa_inv_arrays r k : 0 < r -> oa_inv r (S k) (make_orthogonal_arrays (make_latin_square r) (S k)).
Proof.
  intros Hr. unfold make_orthogonal_arrays. replace (S k - 1) with k by lia.
  induction k as [|k IH]; [apply oa_inv_base; exact Hr|]. simpl. apply oa_inv_step; assumption.
Qed.

(* ---------------------------------------------------------------- partitions -------- *)
(* the levels (1-based) of a factor with L levels that fall into partition p (0-based) *)
Definition part (r L p : nat) : list nat :=
  filter (fun index => index <=? L) (map (fun level_i => S p + (level_i - 1) * r) (seq 1 (L - 1))).

Lemma nth_partition levels r p : p < r ->
  nth p (make_partitions levels r) [] = map (fun L => part r L p) levels.
Proof. intros Lt. unfold make_partitions. rewrite nth_map_seq by exact Lt. reflexivity. Qed.

Lemma in_part r L p x : 2 <= r -> 2 <= L -> p < r ->
  (In x (part r L p) <-> 1 <= x <= L /\ (x - 1) mod r = p).
Proof.
  intros Hr HL Hp. unfold part. rewrite filter_In, in_map_iff. split.
  - intros ((l & E & Il) & Le). apply in_seq in Il. apply Nat.leb_le in Le.
    set (t := (l - 1) * r) in *. split; [lia|].
    replace (x - 1) with (p + t) by lia. subst t. rewrite Nat.mod_add by lia. apply Nat.mod_small. exact Hp.
  - intros ((L1 & L2) & E). assert (r <> 0) as Hr' by lia.
    pose proof (Nat.div_mod (x - 1) r Hr') as D. rewrite E in D. set (q := (x - 1) / r) in *.
    split; [|apply Nat.leb_le; exact L2]. exists (q + 1). split; [nia|]. apply in_seq. nia.
Qed.

Lemma NoDup_part r L p : 0 < r -> NoDup (part r L p).
Proof.
  intros Hr. unfold part. apply NoDup_filter. apply NoDup_map_inj_in; [apply seq_NoDup|].
  intros x y Ix Iy E. apply in_seq in Ix. apply in_seq in Iy. nia.
Qed.

(* the partition sets selected by a row of an orthogonal array *)
Fixpoint sets_of (r : nat) (row levels : list nat) : list (list nat) :=
  match row, levels with
  | p :: row', L :: levels' => part r L p :: sets_of r row' levels'
  | _, _ => []
  end.

Lemma sets_eq levels r row : forall s, Forall (fun c => c < r) row -> s + length row = length levels ->
  map (fun fp => nth (fst fp) (nth (snd fp) (make_partitions levels r) []) [])
      (combine (seq s (length row)) row) = sets_of r row (skipn s levels).
Proof.
  induction row as [|p row IH]; intros s F L; [reflexivity|].
  inversion F as [|? ? Lp F']; subst. simpl in L.
  rewrite (skipn_cons_nth levels 0 s) by lia. simpl. f_equal.
  - rewrite nth_partition by exact Lp.
    rewrite (nth_indep _ [] (part r 0 p)) by (rewrite map_length; lia).
    rewrite (map_nth (fun L => part r L p)). reflexivity.
  - apply IH; [exact F'|lia].
Qed.

(* ---------------------------------------------------------------- itertools.product - *)
Section Cart.
  Context {X : Type}.

  Lemma in_cart (sets : list (list X)) : forall v, In v (cart sets) <-> Forall2 (@In X) v sets.
  Proof.
    induction sets as [|s sets IH]; intros v; simpl.
    - split; [intros [<-|[]]; constructor|intros F; inversion F; left; reflexivity].
    - rewrite in_flat_map. split.
      + intros (x & Ix & Iv). apply in_map_iff in Iv. destruct Iv as (v' & <- & Iv').
        constructor; [exact Ix|]. apply IH. exact Iv'.
      + intros F. inversion F as [|x s' v' sets' Ix F']; subst. exists x. split; [exact Ix|].
        apply in_map_iff. exists v'. split; [reflexivity|]. apply IH. exact F'.
  Qed.

  Lemma NoDup_cart (sets : list (list X)) : Forall (@NoDup X) sets -> NoDup (cart sets).
  Proof.
    induction 1 as [|s sets Ns F IH]; simpl; [apply NoDup_singleton|].
    apply NoDup_flat_map_disj; [exact Ns| |].
    - intros x _. apply NoDup_map_inj_in; [exact IH|]. intros a b _ _ E. inversion E. reflexivity.
    - intros x x' v _ _ I I'. apply in_map_iff in I. apply in_map_iff in I'.
      destruct I as (a & <- & _). destruct I' as (b & E & _). inversion E. reflexivity.
  Qed.

  Lemma cart_nil (sets : list (list X)) : existsb (@is_nil X) sets = true -> cart sets = [].
  Proof.
    induction sets as [|s sets IH]; simpl; [discriminate|]. rewrite orb_true_iff. intros [E|E].
    - destruct s; [reflexivity|discriminate].
    - rewrite (IH E). apply flat_map_nil. reflexivity.
  Qed.
End Cart.

(* ---------------------------------------------------------------- one design -------- *)
Definition bounded1 (v levels : list nat) : Prop := Forall2 (fun x L => 1 <= x <= L) v levels.
Definition code1 (r : nat) (v : list nat) : list nat := map (fun x => (x - 1) mod r) v.

Lemma in_sets r levels : 2 <= r -> Forall (fun L => 2 <= L) levels ->
  forall row v, length row = length levels -> Forall (fun c => c < r) row ->
  (Forall2 (@In nat) v (sets_of r row levels) <-> bounded1 v levels /\ row = code1 r v).
Proof.
  intros Hr. induction 1 as [|L levels HL FL IH]; intros row v Len F.
  - destruct row; [|discriminate]. simpl. split.
    + intros H. inversion H. split; [constructor|reflexivity].
    + intros [B _]. inversion B. constructor.
  - destruct row as [|p row]; [discriminate|]. inversion F as [|? ? Lp F']; subst. simpl in Len. simpl. split.
    + intros H. inversion H as [|x s v' sets' Ix H']; subst.
      apply (in_part r L p x Hr HL Lp) in Ix. destruct Ix as [Bx Ex].
      apply IH in H'; [|lia|exact F']. destruct H' as [B' E'].
      split; [constructor; assumption|]. simpl. rewrite Ex, <- E'. reflexivity.
    + intros [B E]. inversion B as [|x L' v' levels' Bx B']; subst. simpl in E. inversion E; subst.
      constructor.
      * apply (in_part r L _ x Hr HL Lp). split; [exact Bx|reflexivity].
      * apply IH; [lia|exact F'|]. split; [exact B'|reflexivity].
Qed.

(* the design (1-based levels) that _map_partitions_to_design builds from one orthogonal array *)
Definition design_pre (levels : list nat) (r : nat) (oa : list (list nat)) : list (list nat) :=
  flat_map (fun row => cart (sets_of r row levels)) oa.

Lemma map_partitions_ok levels r oa d :
  (forall row, In row oa -> length row = length levels /\ Forall (fun c => c < r) row) ->
  map_partitions_to_design (make_partitions levels r) oa = Ok d -> d = design_pre levels r oa.
Proof.
  intros Hoa. unfold map_partitions_to_design.
  destruct ((length (make_partitions levels r) =? list_max (concat oa) + 1) && (list_min (concat oa) =? 0));
    [|discriminate].
  set (mp := flat_map _ oa). intros E.
  assert (concat mp = design_pre levels r oa) as C.
  { subst mp. unfold design_pre. clear E. induction oa as [|row oa IH]; [reflexivity|]. simpl.
    destruct (Hoa row (or_introl eq_refl)) as [L F].
    pose proof (sets_eq levels r row 0 F L) as S0. simpl skipn in S0. rewrite S0.
    rewrite <- IH by (intros row' I; apply Hoa; right; exact I).
    destruct (existsb (@is_nil nat) (sets_of r row levels)) eqn:Ex.
    - rewrite (cart_nil _ Ex). reflexivity.
    - simpl. reflexivity. }
  destruct mp; [discriminate|]. inversion E. subst d. exact C.
Qed.

Lemma bounded1_ge1 v lv : bounded1 v lv -> Forall (fun x => 1 <= x) v.
Proof. unfold bounded1. induction 1 as [|x L v ls Hx F IH]; constructor; [lia|exact IH]. Qed.

Lemma bounded1_pred v lv : bounded1 v lv -> Forall2 lt (map Nat.pred v) lv.
Proof. unfold bounded1. induction 1 as [|x L v ls Hx F IH]; simpl; constructor; [lia|exact IH]. Qed.

Lemma bounded1_S row lv : Forall2 lt row lv -> bounded1 (map S row) lv.
Proof. unfold bounded1. induction 1 as [|x L v ls Hx F IH]; simpl; constructor; [lia|exact IH]. Qed.

Section Design.
  Variables (levels : list nat) (r : nat) (A : list (list (list nat))).
  Hypothesis Hr : 2 <= r.
  Hypothesis Hlev : Forall (fun L => 2 <= L) levels.
  Hypothesis Hinv : oa_inv r (length levels) A.

  Let rows_ok i : i < r -> forall row, In row (nth i A []) -> length row = length levels /\ Forall (fun c => c < r) row.
  Proof. intros Lt row I. destruct Hinv as (_ & Rng & _). exact (Rng i row Lt I). Qed.

  Lemma in_design_pre i v : i < r ->
    (In v (design_pre levels r (nth i A [])) <-> bounded1 v levels /\ In (code1 r v) (nth i A [])).
  Proof.
    intros Lt. unfold design_pre. rewrite in_flat_map. split.
    - intros (row & Irow & Iv). destruct (rows_ok i Lt row Irow) as [L F].
      apply in_cart in Iv. apply (in_sets r levels Hr Hlev row v L F) in Iv. destruct Iv as [B E].
      split; [exact B|]. rewrite <- E. exact Irow.
    - intros [B I]. exists (code1 r v). split; [exact I|].
      destruct (rows_ok i Lt _ I) as [L F]. apply in_cart.
      apply (in_sets r levels Hr Hlev _ v L F). split; [exact B|reflexivity].
  Qed.

  Lemma NoDup_design_pre i : i < r -> NoDup (design_pre levels r (nth i A [])).
  Proof.
    intros Lt. unfold design_pre. destruct Hinv as (_ & _ & ND & _). apply NoDup_flat_map_disj.
    - apply ND. exact Lt.
    - intros row _. apply NoDup_cart. generalize levels. clear -Hr. induction row as [|p row IH]; intros lv.
      + constructor.
      + destruct lv as [|L lv]; [constructor|]. simpl. constructor; [|apply IH].
        apply NoDup_part. lia.
    - intros row row' v I I' Iv Iv'.
      destruct (rows_ok i Lt row I) as [L F]. destruct (rows_ok i Lt row' I') as [L' F'].
      apply in_cart in Iv. apply in_cart in Iv'.
      apply (in_sets r levels Hr Hlev row v L F) in Iv. apply (in_sets r levels Hr Hlev row' v L' F') in Iv'.
      destruct Iv as [_ ->]. destruct Iv' as [_ ->]. reflexivity.
  Qed.

  (* the design as returned: 0-based level indices *)
  Definition design_of (i : nat) : list (list nat) := map (map Nat.pred) (design_pre levels r (nth i A [])).

  Lemma code1_S row : code1 r (map S row) = map (fun x => x mod r) row.
  Proof.
    unfold code1. rewrite map_map. apply map_ext. intros x. simpl. rewrite Nat.sub_0_r. reflexivity.
  Qed.

  (* design i = the rows of the full factorial whose residue vector lies in orthogonal array i *)
  Lemma in_design i row : i < r ->
    (In row (design_of i) <-> Forall2 lt row levels /\ In (map (fun x => x mod r) row) (nth i A [])).
  Proof.
    intros Lt. unfold design_of. rewrite in_map_iff. split.
    - intros (v & <- & Iv). apply (in_design_pre i v Lt) in Iv. destruct Iv as [B I].
      split; [apply bounded1_pred; exact B|]. rewrite <- code1_S.
      rewrite (map_S_pred v (bounded1_ge1 v _ B)). exact I.
    - intros [F I]. exists (map S row). split.
      + rewrite map_map. simpl. apply map_id.
      + apply in_design_pre; [exact Lt|]. split; [apply bounded1_S; exact F|].
        rewrite code1_S. exact I.
  Qed.

  Lemma NoDup_design i : i < r -> NoDup (design_of i).
  Proof.
    intros Lt. unfold design_of. apply NoDup_map_inj_in; [apply NoDup_design_pre; exact Lt|].
    intros v v' I I' E. apply (in_design_pre i v Lt) in I. apply (in_design_pre i v' Lt) in I'.
    rewrite <- (map_S_pred v (bounded1_ge1 v _ (proj1 I))), <- (map_S_pred v' (bounded1_ge1 v' _ (proj1 I'))).
    rewrite E. reflexivity.
  Qed.

  Lemma design_disjoint i i' row : i < r -> i' < r -> In row (design_of i) -> In row (design_of i') -> i = i'.
  Proof.
    intros Li Li' I I'. apply (in_design i row Li) in I. apply (in_design i' row Li') in I'.
    destruct Hinv as (_ & _ & _ & Dis & _). exact (Dis i i' _ Li Li' (proj2 I) (proj2 I')).
  Qed.

  Lemma design_cover row : Forall2 lt row levels -> exists i, i < r /\ In row (design_of i).
  Proof.
    intros F. destruct Hinv as (_ & _ & _ & _ & Cov).
    destruct (Cov (map (fun x => x mod r) row)) as (i & Li & I).
    - rewrite map_length. eapply Forall2_len. exact F.
    - apply Forall_forall. intros c Ic. apply in_map_iff in Ic. destruct Ic as (x & <- & _).
      apply Nat.mod_upper_bound. lia.
    - exists i. split; [exact Li|]. apply in_design; [exact Li|]. split; assumption.
  Qed.

  Definition all_designs : list (list (list nat)) := map design_of (seq 0 r).

  Theorem all_designs_partition :
    length all_designs = r /\
    NoDup (concat all_designs) /\
    forall row, In row (concat all_designs) <-> Forall2 lt row levels.
  Proof.
    unfold all_designs. split; [rewrite map_length, seq_length; reflexivity|].
    rewrite <- flat_map_concat_map. split.
    - apply NoDup_flat_map_disj; [apply seq_NoDup| |].
      + intros i Ii. apply in_seq in Ii. apply NoDup_design. lia.
      + intros i i' row Ii Ii'. apply in_seq in Ii. apply in_seq in Ii'. apply design_disjoint; lia.
    - intros row. rewrite in_flat_map. split.
      + intros (i & Ii & I). apply in_seq in Ii. apply in_design in I; [|lia]. exact (proj1 I).
      + intros F. destruct (design_cover row F) as (i & Li & I). exists i. split; [apply in_seq; lia|exact I].
  Qed.
End Design.

(* ---------------------------------------------------------------- build_gsd --------- *)
Lemma res_all_map_ok {X Y} (g : X -> res Y) l : forall ds, res_all (map g l) = Ok ds ->
  Forall2 (fun a d => g a = Ok d) l ds.
Proof.
  induction l as [|a l IH]; intros ds E; simpl in E; [inversion E; constructor|].
  destruct (g a) as [d|e] eqn:Ea; [|discriminate].
  destruct (res_all (map g l)) as [ds'|e] eqn:El; [|discriminate]. inversion E; subst.
  constructor; [exact Ea|]. apply IH. reflexivity.
Qed.

Lemma gsd_no_factors r : 2 <= r -> gsd_designs [] r = Err EAssert.
Proof. intros Hr. destruct r as [|[|r]]; [lia|lia|]. reflexivity. Qed.

(* what gsd_designs returns when it does not raise *)
Lemma gsd_designs_ok levels r ds : 2 <= r -> gsd_designs levels r = Ok ds ->
  levels <> [] /\
  ds = all_designs levels r (make_orthogonal_arrays (make_latin_square r) (length levels)).
Proof.
  intros Hr E. destruct levels as [|L0 levels0] eqn:EL; [rewrite gsd_no_factors in E by exact Hr; discriminate|].
  split; [discriminate|]. rewrite <- EL in *. assert (length levels = S (length levels0)) as Lk by (subst; reflexivity).
  unfold gsd_designs in E. set (A := make_orthogonal_arrays _ _) in *.
  assert (oa_inv r (length levels) A) as Inv by (subst A; rewrite Lk; apply oa_inv_arrays; lia).
  apply res_all_map_ok in E. destruct Inv as (LA & Rng & _).
  unfold all_designs. rewrite (list_as_map_nth A []) in E. rewrite LA in E.
  remember (seq 0 r) as idx eqn:Eidx.
  assert (forall i, In i idx -> i < r) as Hidx by (intros i I; subst idx; apply in_seq in I; lia).
  clear Eidx. revert ds E. induction idx as [|i idx IH]; intros ds E; simpl in E; inversion E as [|a d l' ds' Ea E'].
  - reflexivity.
  - simpl. f_equal.
    + destruct (map_partitions_to_design (make_partitions levels r) (nth i A [])) as [d0|e] eqn:Ed; [|discriminate].
      inversion Ea; subst d. unfold design_of. f_equal.
      apply map_partitions_ok; [|exact Ed]. intros row I. apply (Rng i row); [apply Hidx; left; reflexivity|exact I].
    + apply IH; [intros j I; apply Hidx; right; exact I|exact E'].
Qed.

Lemma build_gsd_ok levels r n ds : build_gsd levels r n = Ok ds ->
  2 <= r /\ 1 <= n /\ exists all, gsd_designs levels r = Ok all /\ ds = firstn n all.
Proof.
  unfold build_gsd. destruct (r <=? 1) eqn:E1; [discriminate|]. destruct (n =? 0) eqn:E2; [discriminate|].
  apply Nat.leb_gt in E1. apply Nat.eqb_neq in E2. simpl.
  destruct (gsd_designs levels r) as [all|e]; [|discriminate]. simpl. intros E. inversion E.
  split; [lia|]. split; [lia|]. exists all. split; reflexivity.
Qed.

(* the property's clause, for every reduction and all level counts >= 2: whenever build_gsd(levels, r, n=r)
   does not raise, the r complementary designs are duplicate-free, pairwise disjoint (NoDup of the
   concatenation) and together are exactly the full factorial *)
Theorem gsd_partition : forall levels r ds,
  Forall (fun L => 2 <= L) levels -> 2 <= r -> build_gsd levels r r = Ok ds ->
  length ds = r /\
  NoDup (concat ds) /\
  (forall row, In row (concat ds) <-> Forall2 lt row levels) /\
  (forall row, In row (concat ds) <-> In row (fullfact_rows levels)).
Proof.
  intros levels r ds Hlev Hr E. apply build_gsd_ok in E. destruct E as (_ & _ & all & Eall & ->).
  destruct (gsd_designs_ok levels r all Hr Eall) as [NE ->].
  set (A := make_orthogonal_arrays _ _).
  assert (oa_inv r (length levels) A) as Inv.
  { subst A. destruct levels as [|L levels]; [contradiction|]. apply oa_inv_arrays. lia. }
  destruct (all_designs_partition levels r A Hr Hlev Inv) as (Len & ND & Mem).
  rewrite firstn_all2 by lia. repeat split; try assumption; try (apply Mem).
  - intros I. apply (proj2 (fullfact_rows_bijective levels)). apply Mem. exact I.
  - intros I. apply Mem. apply (proj2 (fullfact_rows_bijective levels)). exact I.
Qed.

Lemma NoDup_firstn {X} (l : list X) n : NoDup l -> NoDup (firstn n l).
Proof.
  intros N. rewrite <- (firstn_skipn n l) in N. apply NoDup_app_inv in N. exact (proj1 N).
Qed.

Lemma concat_firstn_incl {X} (l : list (list X)) n x : In x (concat (firstn n l)) -> In x (concat l).
Proof.
  intros I. rewrite <- (firstn_skipn n l), concat_app. apply in_or_app. left. exact I.
Qed.

(* any number n of complementary designs: duplicate-free, pairwise disjoint subsets of the full factorial *)
Theorem gsd_complementary : forall levels r n ds,
  Forall (fun L => 2 <= L) levels -> 2 <= r -> build_gsd levels r n = Ok ds ->
  length ds = Nat.min n r /\
  NoDup (concat ds) /\
  (forall row, In row (concat ds) -> Forall2 lt row levels) /\
  (r <= n -> forall row, Forall2 lt row levels -> In row (concat ds)).
Proof.
  intros levels r n ds Hlev Hr E. apply build_gsd_ok in E. destruct E as (_ & _ & all & Eall & ->).
  destruct (gsd_designs_ok levels r all Hr Eall) as [NE ->].
  set (A := make_orthogonal_arrays _ _).
  assert (oa_inv r (length levels) A) as Inv.
  { subst A. destruct levels as [|L levels]; [contradiction|]. apply oa_inv_arrays. lia. }
  destruct (all_designs_partition levels r A Hr Hlev Inv) as (Len & ND & Mem).
  split; [rewrite firstn_length, Len; reflexivity|]. split; [|split].
  - rewrite <- (firstn_skipn n (all_designs levels r A)), concat_app in ND.
    apply NoDup_app_inv in ND. exact (proj1 ND).
  - intros row I. apply Mem. eapply concat_firstn_incl. exact I.
  - intros Le row F. rewrite firstn_all2 by lia. apply Mem. exact F.
Qed.

(* ---------------------------------------------------------------- GSDGenerator ------ *)
Section Generate.
  Context {T : Type}.

  (* GSDGenerator.generate (n = 1): every returned vector takes in factor f one of the supplied values
     of that factor, and no vector is returned twice when the supplied values are distinct *)
  Theorem gsd_generate_subset : forall (values : list (list T)) r rows,
    Forall (fun l => 2 <= length l) values -> gsd_generate values r = Ok rows ->
    (forall v, In v rows -> Forall2 (@In T) v values) /\
    (Forall (@NoDup T) values -> NoDup rows).
  Proof.
    intros values r rows Hlen E. unfold gsd_generate in E.
    destruct (build_gsd (map (@length T) values) r 1) as [ds|e] eqn:Eb; [|discriminate]. simpl in E.
    assert (Forall (fun L => 2 <= L) (map (@length T) values)) as Hlev.
    { apply Forall_forall. intros L I. apply in_map_iff in I. destruct I as (l & <- & Il).
      rewrite Forall_forall in Hlen. apply Hlen. exact Il. }
    pose proof (build_gsd_ok _ _ _ _ Eb) as (Hr & _).
    destruct (gsd_complementary _ _ _ _ Hlev Hr Eb) as (Len & ND & Sub & _).
    destruct ds as [|d ds']; [cbn [length] in Len; lia|]. simpl hd in E.
    assert (NoDup d) as Nd by (simpl in ND; apply NoDup_app_inv in ND; exact (proj1 ND)).
    assert (forall row, In row d -> Forall2 lt row (map (@length T) values)) as Hd.
    { intros row I. apply Sub. simpl. apply in_or_app. left. exact I. }
    assert (forall row, In row d -> length row = length values) as Hl.
    { intros row I. apply Hd in I. apply Forall2_len in I. rewrite map_length in I. exact I. }
    pose proof (construct_df_rel _ _ _ E) as Rel. split.
    - intros v Iv. destruct (Forall2_In_r _ _ _ _ Rel Iv) as (row & Irow & Er).
      eapply select_row_In; [exact Er|]. apply Hl. exact Irow.
    - intros NDv. eapply Forall2_NoDup_r; [exact Rel|exact Nd|].
      intros row1 row2 v I1 I2 E1 E2.
      exact (select_row_inj row1 row2 values v NDv (Hl _ I1) (Hl _ I2) E1 E2).
  Qed.
End Generate.

(* ---------------------------------------------------------------- when it succeeds -- *)
(* The theorems above are conditional on build_gsd not raising.  It does not raise for at least two
   factors whenever the reduction does not exceed any level count (so they are not vacuous); with a
   single factor (or none) the assertion of _map_partitions_to_design always fails, and a reduction
   larger than the level counts can leave a design empty (ValueError), as in the docstring. *)
Lemma res_all_map_succeeds {X Y} (g : X -> res Y) l :
  (forall a, In a l -> exists d, g a = Ok d) -> exists ds, res_all (map g l) = Ok ds.
Proof.
  induction l as [|a l IH]; intros H; [exists []; reflexivity|]. simpl.
  destruct (H a (or_introl eq_refl)) as (d & ->).
  destruct (IH (fun b I => H b (or_intror I))) as (ds & ->). exists (d :: ds). reflexivity.
Qed.

Lemma list_min_zero l : In 0 l -> list_min l = 0.
Proof.
  destruct l as [|a t]; [intros []|]. simpl list_min. intros I.
  assert (a = 0 \/ In 0 t) as H by (destruct I as [E|I]; [left; exact E|right; exact I]).
  clear I. revert a H. induction t as [|b t IH]; intros a H; simpl.
  - destruct H as [E|[]]. exact E.
  - destruct H as [E|[E|I]].
    + rewrite (IH a (or_introl E)). apply Nat.min_0_r.
    + subst b. reflexivity.
    + rewrite (IH a (or_intror I)). apply Nat.min_0_r.
Qed.

Lemma list_max_ge l x : In x l -> x <= list_max l.
Proof.
  intros I. pose proof (proj1 (list_max_le l (list_max l)) (le_n _)) as F.
  rewrite Forall_forall in F. exact (F x I).
Qed.

Lemma oa_arrays_nonempty r k : 0 < r -> forall i, i < r ->
  exists w, In w (nth i (make_orthogonal_arrays (make_latin_square r) (S k)) []).
Proof.
  intros Hr. induction k as [|k IH]; intros i Lt.
  - exists [i]. unfold make_orthogonal_arrays. simpl Nat.iter. rewrite latin_first_row by exact Hr.
    rewrite nth_map_seq by exact Lt. left. reflexivity.
  - destruct (IH i Lt) as (w & Iw). exists (0 :: w).
    pose proof (oa_inv_arrays r k Hr) as (LA & _).
    unfold make_orthogonal_arrays in *. replace (S (S k) - 1) with (S k) by lia.
    replace (S k - 1) with k in * by lia. simpl Nat.iter.
    rewrite oa_step_nth by assumption. apply in_aug. exists 0, w.
    rewrite Nat.add_0_r, Nat.mod_small by exact Lt. repeat split; [exact Hr|exact Iw].
Qed.

Lemma oa_arrays_heads r k : 0 < r -> forall i c, i < r -> c < r ->
  exists w, In (c :: w) (nth i (make_orthogonal_arrays (make_latin_square r) (S (S k))) []).
Proof.
  intros Hr i c Li Lc. assert ((i + c) mod r < r) as Lm by (apply Nat.mod_upper_bound; lia).
  destruct (oa_arrays_nonempty r k Hr _ Lm) as (w & Iw). exists w.
  pose proof (oa_inv_arrays r k Hr) as (LA & _).
  unfold make_orthogonal_arrays in *. replace (S (S k) - 1) with (S k) by lia.
  replace (S k - 1) with k in * by lia. simpl Nat.iter.
  rewrite oa_step_nth by assumption. apply in_aug. exists c, w. repeat split; [exact Lc|exact Iw].
Qed.

Lemma sets_nonempty r : 2 <= r -> forall row levels, Forall (fun L => r <= L) levels ->
  Forall (fun c => c < r) row -> existsb (@is_nil nat) (sets_of r row levels) = false.
Proof.
  intros Hr. induction row as [|p row IH]; intros levels HL F; [reflexivity|].
  destruct levels as [|L levels]; [reflexivity|].
  inversion HL as [|? ? HL1 HL']. inversion F as [|? ? Lp F']. simpl.
  rewrite (IH levels HL' F'), orb_false_r.
  assert (In (S p) (part r L p)) as I.
  { apply in_part; [exact Hr|lia|exact Lp|]. split; [lia|].
    simpl. rewrite Nat.sub_0_r. apply Nat.mod_small. exact Lp. }
  destruct (part r L p); [destruct I|reflexivity].
Qed.

Lemma map_partitions_succeeds levels r oa : 2 <= r -> Forall (fun L => r <= L) levels ->
  (forall row, In row oa -> length row = length levels /\ Forall (fun c => c < r) row) ->
  oa <> [] -> In 0 (concat oa) -> In (r - 1) (concat oa) ->
  exists d, map_partitions_to_design (make_partitions levels r) oa = Ok d.
Proof.
  intros Hr HL Hoa NE I0 Ir. unfold map_partitions_to_design.
  assert (length (make_partitions levels r) = r) as E1
    by (unfold make_partitions; rewrite map_length, seq_length; reflexivity).
  assert (list_max (concat oa) = r - 1) as E2.
  { apply Nat.le_antisymm; [|apply list_max_ge; exact Ir]. apply list_max_le.
    apply Forall_forall. intros c Ic. apply in_concat in Ic. destruct Ic as (row & Irow & Ic).
    destruct (Hoa row Irow) as [_ F]. rewrite Forall_forall in F. specialize (F c Ic). lia. }
  rewrite E1, E2, (list_min_zero _ I0). replace (r - 1 + 1) with r by lia. rewrite Nat.eqb_refl. simpl andb. cbv iota.
  destruct oa as [|row rest]; [contradiction|]. simpl flat_map.
  destruct (Hoa row (or_introl eq_refl)) as [L F].
  pose proof (sets_eq levels r row 0 F L) as S0. simpl skipn in S0. rewrite S0.
  rewrite (sets_nonempty r Hr row levels HL F). simpl. eexists. reflexivity.
Qed.

Theorem gsd_succeeds : forall levels r,
  2 <= length levels -> 2 <= r -> Forall (fun L => r <= L) levels ->
  exists ds, build_gsd levels r r = Ok ds.
Proof.
  intros levels r Hk Hr HL. unfold build_gsd.
  destruct (r <=? 1) eqn:E1; [apply Nat.leb_le in E1; lia|].
  destruct (r =? 0) eqn:E2; [apply Nat.eqb_eq in E2; lia|]. simpl orb. cbv iota.
  unfold gsd_designs.
  destruct (length levels) as [|[|k]] eqn:Ek; [lia|lia|].
  set (A := make_orthogonal_arrays _ _).
  pose proof (oa_inv_arrays r (S k) ltac:(lia)) as (LA & Rng & _). fold A in LA, Rng.
  destruct (res_all_map_succeeds
              (fun oa => match map_partitions_to_design (make_partitions levels r) oa with
                         | Ok d => Ok (map (map Nat.pred) d) | Err e => Err e end) A) as (ds & ->).
  - intros oa Ioa. destruct (In_nth A oa [] Ioa) as (i & Li & <-). rewrite LA in Li.
    destruct (oa_arrays_heads r k ltac:(lia) i 0 Li ltac:(lia)) as (w0 & I0).
    destruct (oa_arrays_heads r k ltac:(lia) i (r - 1) Li ltac:(lia)) as (w1 & I1). fold A in I0, I1.
    destruct (map_partitions_succeeds levels r (nth i A [])) as (d & ->); try assumption.
    + intros row I. rewrite Ek. exact (Rng i row Li I).
    + intros E. rewrite E in I0. destruct I0.
    + apply in_concat. exists (0 :: w0). split; [exact I0|left; reflexivity].
    + apply in_concat. exists (r - 1 :: w1). split; [exact I1|left; reflexivity].
    + eexists. reflexivity.
  - simpl. eexists. reflexivity.
Qed.
