(* Generic list lemmas used by the C13 proofs (not in the 8.16 standard library). *)
From Coq Require Import List Arith Lia.
Import ListNotations.
Local Open Scope nat_scope.

Lemma NoDup_app_intro {A} (l1 l2 : list A) :
  NoDup l1 -> NoDup l2 -> (forall x, In x l1 -> In x l2 -> False) -> NoDup (l1 ++ l2).
Proof.
  induction l1 as [|a l1 IH]; intros N1 N2 D; simpl; [exact N2|].
  inversion N1 as [|? ? Na N1']; subst. constructor.
  - rewrite in_app_iff. intros [I|I]; [exact (Na I)|]. apply (D a); [left; reflexivity|exact I].
  - apply IH; [exact N1'|exact N2|]. intros x I1 I2. apply (D x); [right; exact I1|exact I2].
Qed.

Lemma NoDup_app_inv {A} (l1 l2 : list A) :
  NoDup (l1 ++ l2) -> NoDup l1 /\ NoDup l2 /\ (forall x, In x l1 -> In x l2 -> False).
Proof.
  induction l1 as [|a l1 IH]; simpl; intros N.
  - repeat split; [constructor|exact N|intros x []].
  - inversion N as [|? ? Na N']; subst. destruct (IH N') as (N1 & N2 & D).
    repeat split.
    + constructor; [|exact N1]. intro I. apply Na. apply in_or_app. left; exact I.
    + exact N2.
    + intros x [E|I] I2; [subst; apply Na; apply in_or_app; right; exact I2|exact (D x I I2)].
Qed.

Lemma NoDup_map_inj_in {A B} (f : A -> B) (l : list A) :
  NoDup l -> (forall x y, In x l -> In y l -> f x = f y -> x = y) -> NoDup (map f l).
Proof.
  induction l as [|a l IH]; intros N Inj; simpl; [constructor|].
  inversion N as [|? ? Na N']; subst. constructor.
  - rewrite in_map_iff. intros (y & E & I). apply Na.
    rewrite (Inj a y); [exact I|left; reflexivity|right; exact I|symmetry; exact E].
  - apply IH; [exact N'|]. intros x y Ix Iy. apply Inj; right; assumption.
Qed.

(* the pieces of a flat_map are duplicate-free and an element determines its piece *)
Lemma NoDup_flat_map_disj {A B} (f : A -> list B) (l : list A) :
  NoDup l -> (forall a, In a l -> NoDup (f a)) ->
  (forall a a' x, In a l -> In a' l -> In x (f a) -> In x (f a') -> a = a') ->
  NoDup (flat_map f l).
Proof.
  induction l as [|a l IH]; intros N Nf D; simpl; [constructor|].
  inversion N as [|? ? Na N']; subst. apply NoDup_app_intro.
  - apply Nf. left; reflexivity.
  - apply IH; [exact N'|intros; apply Nf; right; assumption|].
    intros b b' x Ib Ib'. apply D; right; assumption.
  - intros x I1 I2. apply in_flat_map in I2. destruct I2 as (b & Ib & Ix).
    apply Na. rewrite (D a b x); [exact Ib|left; reflexivity|right; exact Ib|exact I1|exact Ix].
Qed.

Lemma Forall2_len {A B} (R : A -> B -> Prop) l l' : Forall2 R l l' -> length l = length l'.
Proof. induction 1; simpl; congruence. Qed.

Lemma flat_map_len {A B} (f : A -> list B) l :
  length (flat_map f l) = list_sum (map (fun a => length (f a)) l).
Proof. induction l; simpl; [reflexivity|]. rewrite app_length, IHl. reflexivity. Qed.

Lemma nth_repeat_lt {A} (a d : A) m n : n < m -> nth n (repeat a m) d = a.
Proof.
  revert n. induction m; intros n L; [lia|]. destruct n; simpl; [reflexivity|]. apply IHm. lia.
Qed.

Lemma Forall2_In_l {A B} (R : A -> B -> Prop) l l' x :
  Forall2 R l l' -> In x l -> exists y, In y l' /\ R x y.
Proof.
  induction 1 as [|a b l l' Rab F IH]; intros I; [destruct I|].
  destruct I as [E|I].
  - subst. exists b. split; [left; reflexivity|exact Rab].
  - destruct (IH I) as (y & Iy & Rxy). exists y. split; [right; exact Iy|exact Rxy].
Qed.

Lemma Forall2_In_r {A B} (R : A -> B -> Prop) l l' y :
  Forall2 R l l' -> In y l' -> exists x, In x l /\ R x y.
Proof.
  induction 1 as [|a b l l' Rab F IH]; intros I; [destruct I|].
  destruct I as [E|I].
  - subst. exists a. split; [left; reflexivity|exact Rab].
  - destruct (IH I) as (x & Ix & Rxy). exists x. split; [right; exact Ix|exact Rxy].
Qed.

(* a relation that is injective (right to left) on the members of a duplicate-free list *)
Lemma Forall2_NoDup_r {A B} (R : A -> B -> Prop) l l' :
  Forall2 R l l' -> NoDup l ->
  (forall x x' y, In x l -> In x' l -> R x y -> R x' y -> x = x') -> NoDup l'.
Proof.
  induction 1 as [|a b l l' Rab F IH]; intros N Inj; [constructor|].
  inversion N as [|? ? Na N']; subst. constructor.
  - intro I. destruct (Forall2_In_r _ _ _ _ F I) as (x & Ix & Rxb).
    apply Na. rewrite (Inj a x b); [exact Ix|left; reflexivity|right; exact Ix|exact Rab|exact Rxb].
  - apply IH; [exact N'|]. intros x x' y Ix Ix'. apply Inj; right; assumption.
Qed.

Lemma NoDup_singleton {A} (a : A) : NoDup [a].
Proof. constructor; [intros []|constructor]. Qed.
