(* C13, full factorial: fullfact_rows enumerates the mixed-radix digits of 0 .. prod-1
   (first factor fastest), hence is duplicate-free and equal to the Cartesian product;
   construct_df lifts this to level values. *)
From Coq Require Import List Arith Lia.
From Artap Require Import Model.Doe Proofs.DoeLists.
Import ListNotations.
Local Open Scope nat_scope.

(* ---------------------------------------------------------------- columns ----------- *)
Lemma nth_concat_repeat (l : list nat) rr t d :
  t < rr * length l -> nth t (concat (repeat l rr)) d = nth (t mod length l) l d.
Proof.
  revert t. induction rr as [|rr IH]; intros t L; [lia|]. simpl.
  assert (length l <> 0) as Hl by (intro E; rewrite E in L; lia).
  destruct (Nat.lt_ge_cases t (length l)) as [Lt|Ge].
  - rewrite app_nth1 by exact Lt. rewrite Nat.mod_small by exact Lt. reflexivity.
  - rewrite app_nth2 by exact Ge. rewrite IH by (simpl in L; lia).
    replace t with ((t - length l) + 1 * length l) at 2 by lia.
    rewrite Nat.mod_add by exact Hl. reflexivity.
Qed.

Lemma ff_lvl_from_nth lr L s t d :
  t < L * lr -> nth t (flat_map (fun j => repeat j lr) (seq s L)) d = s + t / lr.
Proof.
  revert s t. induction L as [|L IH]; intros s t Lt; [lia|]. simpl.
  assert (lr <> 0) as Hlr by (intro E; rewrite E in Lt; lia).
  destruct (Nat.lt_ge_cases t lr) as [Lt'|Ge].
  - rewrite app_nth1 by (rewrite repeat_length; exact Lt').
    rewrite nth_repeat_lt by exact Lt'. rewrite Nat.div_small by exact Lt'. lia.
  - rewrite app_nth2 by (rewrite repeat_length; exact Ge). rewrite repeat_length.
    rewrite IH by (simpl in Lt; lia).
    replace t with (1 * lr + (t - lr)) at 2 by lia.
    rewrite Nat.div_add_l by exact Hlr. lia.
Qed.

Lemma ff_lvl_length L lr : length (ff_lvl L lr) = L * lr.
Proof.
  unfold ff_lvl. generalize 0. induction L as [|L IH]; intros s; simpl; [reflexivity|].
  rewrite app_length, repeat_length, IH. reflexivity.
Qed.

Lemma nth_ff_lvl L lr t d : t < L * lr -> nth t (ff_lvl L lr) d = t / lr.
Proof. intros Lt. unfold ff_lvl. rewrite ff_lvl_from_nth by exact Lt. reflexivity. Qed.

Lemma div_mod_swap t lr L : lr <> 0 -> L <> 0 -> (t mod (L * lr)) / lr = (t / lr) mod L.
Proof.
  intros Hlr HL. rewrite (Nat.mul_comm L lr). rewrite Nat.mod_mul_r by assumption.
  rewrite (Nat.mul_comm lr). rewrite Nat.div_add by exact Hlr.
  rewrite Nat.div_small by (apply Nat.mod_upper_bound; exact Hlr). reflexivity.
Qed.

Lemma nth_column L lr rr t :
  t < rr * (L * lr) -> nth t (concat (repeat (ff_lvl L lr) rr)) 0 = (t / lr) mod L.
Proof.
  intros Lt.
  assert (L <> 0) as HL by (intro E; rewrite E in Lt; lia).
  assert (lr <> 0) as Hlr by (intro E; rewrite E in Lt; lia).
  rewrite nth_concat_repeat by (rewrite ff_lvl_length; exact Lt).
  rewrite ff_lvl_length. rewrite nth_ff_lvl by (apply Nat.mod_upper_bound; lia).
  apply div_mod_swap; assumption.
Qed.

(* every column has exactly nb_lines entries, so the assignment H[:, i] = rng never fails *)
Lemma concat_repeat_length {A} (l : list A) n : length (concat (repeat l n)) = n * length l.
Proof. induction n; simpl; [reflexivity|]. rewrite app_length, IHn. reflexivity. Qed.

Lemma ff_cols_lengths levels : forall lr rr, rr = prod_list levels ->
  Forall (fun c => length c = lr * rr) (ff_cols levels lr rr).
Proof.
  induction levels as [|L rest IH]; intros lr rr E; simpl; [constructor|].
  simpl in E. destruct (Nat.eq_dec L 0) as [Z|NZ].
  - subst L. simpl in E. subst rr. simpl. constructor.
    + simpl. lia.
    + destruct rest as [|L' rest']; [constructor|].
      (* range_repeat is 0 from here on *)
      assert (forall ls a, Forall (fun c => length c = 0) (ff_cols ls a 0)) as Hz.
      { induction ls as [|x ls IHls]; intros a; simpl; [constructor|].
        assert (0 / x = 0) as Ez by (destruct x; reflexivity). rewrite Ez.
        constructor; [reflexivity|apply IHls]. }
      rewrite Nat.mul_0_r. apply Hz.
  - assert (rr / L = prod_list rest) as Hd by (subst rr; rewrite Nat.mul_comm; apply Nat.div_mul; exact NZ).
    rewrite Hd. constructor.
    + rewrite concat_repeat_length, ff_lvl_length. subst rr. lia.
    + specialize (IH (lr * L) (prod_list rest) eq_refl).
      eapply Forall_impl; [|exact IH]. intros c Hc. simpl in Hc. rewrite Hc. subst rr. lia.
Qed.

(* ---------------------------------------------------------------- rows -------------- *)
Lemma rows_of_cols_spec N : forall cols,
  rows_of_cols N cols = map (fun t => map (fun c => nth t c 0) cols) (seq 0 N).
Proof.
  induction N as [|N IH]; intros cols; [reflexivity|].
  simpl rows_of_cols. rewrite IH. simpl seq. simpl map. f_equal.
  - apply map_ext. intros c. destruct c; reflexivity.
  - rewrite <- seq_shift, map_map. apply map_ext. intros t.
    rewrite map_map. apply map_ext. intros c. destruct c; [destruct t; reflexivity|reflexivity].
Qed.

(* mixed-radix digits, least significant (first factor) first *)
Fixpoint digits (levels : list nat) (q : nat) : list nat :=
  match levels with
  | [] => []
  | L :: rest => (q mod L) :: digits rest (q / L)
  end.

Fixpoint undigits (r levels : list nat) : nat :=
  match r, levels with
  | x :: r', L :: rest => x + L * undigits r' rest
  | _, _ => 0
  end.

Lemma ff_cols_nth levels : forall lr rr t, rr = prod_list levels -> t < lr * rr ->
  map (fun c => nth t c 0) (ff_cols levels lr rr) = digits levels (t / lr).
Proof.
  induction levels as [|L rest IH]; intros lr rr t E Lt; [reflexivity|].
  simpl in E. simpl.
  assert (L <> 0) as HL by (intro Z; subst L; simpl in E; subst rr; lia).
  assert (lr <> 0) as Hlr by (intro Z; subst lr; lia).
  assert (rr / L = prod_list rest) as Hd by (subst rr; rewrite Nat.mul_comm; apply Nat.div_mul; exact HL).
  rewrite Hd. f_equal.
  - apply nth_column. subst rr. lia.
  - rewrite IH by (try reflexivity; subst rr; lia).
    rewrite Nat.div_div by assumption. reflexivity.
Qed.

Lemma fullfact_rows_digits levels :
  fullfact_rows levels = map (digits levels) (seq 0 (prod_list levels)).
Proof.
  unfold fullfact_rows. rewrite rows_of_cols_spec. apply map_ext_in. intros t I.
  apply in_seq in I. rewrite ff_cols_nth by (try reflexivity; lia).
  rewrite Nat.div_1_r. reflexivity.
Qed.

Lemma digits_bound levels : forall q, q < prod_list levels -> Forall2 lt (digits levels q) levels.
Proof.
  induction levels as [|L rest IH]; intros q Lt; simpl; [constructor|].
  simpl in Lt. assert (L <> 0) as HL by (intro Z; subst L; simpl in Lt; lia).
  constructor; [apply Nat.mod_upper_bound; exact HL|].
  apply IH. apply Nat.div_lt_upper_bound; assumption.
Qed.

Lemma undigits_digits levels : forall q, q < prod_list levels -> undigits (digits levels q) levels = q.
Proof.
  induction levels as [|L rest IH]; intros q Lt; simpl in *; [lia|].
  assert (L <> 0) as HL by (intro Z; subst L; simpl in Lt; lia).
  rewrite IH by (apply Nat.div_lt_upper_bound; assumption).
  pose proof (Nat.div_mod q L HL). lia.
Qed.

Lemma digits_undigits r levels : Forall2 lt r levels ->
  undigits r levels < prod_list levels /\ digits levels (undigits r levels) = r.
Proof.
  induction 1 as [|x L r rest Lt F [IHb IHd]]; simpl; [split; [lia|reflexivity]|].
  assert (L <> 0) as HL by lia. split; [nia|]. f_equal.
  - rewrite (Nat.mul_comm L). rewrite Nat.mod_add by exact HL. apply Nat.mod_small. exact Lt.
  - rewrite (Nat.mul_comm L). rewrite Nat.div_add by exact HL.
    rewrite Nat.div_small by exact Lt. simpl. exact IHd.
Qed.

(* ---------------------------------------------------------------- index theorem ----- *)
Theorem fullfact_rows_bijective (levels : list nat) :
  NoDup (fullfact_rows levels) /\
  length (fullfact_rows levels) = prod_list levels /\
  forall r, In r (fullfact_rows levels) <-> Forall2 lt r levels.
Proof.
  rewrite fullfact_rows_digits. split; [|split].
  - apply NoDup_map_inj_in; [apply seq_NoDup|]. intros x y Ix Iy E.
    apply in_seq in Ix. apply in_seq in Iy.
    rewrite <- (undigits_digits levels x) by lia. rewrite <- (undigits_digits levels y) by lia.
    rewrite E. reflexivity.
  - rewrite map_length, seq_length. reflexivity.
  - intros r. rewrite in_map_iff. split.
    + intros (q & E & I). subst r. apply in_seq in I. apply digits_bound. lia.
    + intros F. destruct (digits_undigits r levels F) as [B D].
      exists (undigits r levels). split; [exact D|]. apply in_seq. lia.
Qed.

Theorem fullfact_index_bijective (levels : list nat) : levels <> [] ->
  exists x, fullfact levels = Ok x /\ NoDup x /\ length x = prod_list levels /\
            forall r, In r x <-> Forall2 lt r levels.
Proof.
  intros NE. exists (fullfact_rows levels). split.
  - destruct levels; [contradiction|reflexivity].
  - apply fullfact_rows_bijective.
Qed.

(* ---------------------------------------------------------------- construct_df ------ *)
Section Select.
  Context {T : Type}.
  Implicit Types (fl : list (list T)).

  Lemma select_row_ok row : forall fl, Forall2 lt row (map (@length T) fl) ->
    exists r, select_row row fl = Ok r.
  Proof.
    induction row as [|i row IH]; intros fl F; [exists []; reflexivity|].
    destruct fl as [|l fl]; inversion F as [|? ? ? ? Lt F']; subst. simpl.
    destruct (nth_error l i) as [v|] eqn:E; [|apply nth_error_None in E; lia].
    destruct (IH fl F') as (r & Er). rewrite Er. exists (v :: r). reflexivity.
  Qed.

  Lemma select_row_In row : forall fl r, select_row row fl = Ok r -> length row = length fl ->
    Forall2 (@In T) r fl.
  Proof.
    induction row as [|i row IH]; intros fl r E L.
    - destruct fl; [|discriminate]. inversion E. constructor.
    - destruct fl as [|l fl]; [discriminate|]. simpl in E.
      destruct (nth_error l i) as [v|] eqn:Ev; [|discriminate].
      destruct (select_row row fl) as [r'|] eqn:Er; [|discriminate]. inversion E; subst.
      constructor; [eapply nth_error_In; exact Ev|]. apply IH; [exact Er|simpl in L; lia].
  Qed.

  Lemma select_row_length row : forall fl r, select_row row fl = Ok r -> length r = length row.
  Proof.
    induction row as [|i row IH]; intros fl r E; [inversion E; reflexivity|].
    destruct fl as [|l fl]; [discriminate|]. simpl in E.
    destruct (nth_error l i) as [v|]; [|discriminate].
    destruct (select_row row fl) as [r'|] eqn:Er; [|discriminate]. inversion E; subst.
    simpl. f_equal. eapply IH. exact Er.
  Qed.

  Lemma select_row_complete r : forall fl, Forall2 (@In T) r fl ->
    exists row, Forall2 lt row (map (@length T) fl) /\ select_row row fl = Ok r.
  Proof.
    induction 1 as [|v l r fl I F (row & Fr & Er)]; [exists []; split; [constructor|reflexivity]|].
    destruct (In_nth_error _ _ I) as (i & Ei). exists (i :: row). split.
    - constructor; [|exact Fr]. apply nth_error_Some. congruence.
    - simpl. rewrite Ei, Er. reflexivity.
  Qed.

  Lemma select_row_inj row1 : forall row2 fl r, Forall (@NoDup T) fl ->
    length row1 = length fl -> length row2 = length fl ->
    select_row row1 fl = Ok r -> select_row row2 fl = Ok r -> row1 = row2.
  Proof.
    induction row1 as [|i row1 IH]; intros row2 fl r ND L1 L2 E1 E2.
    - destruct fl; [|discriminate]. destruct row2; [reflexivity|discriminate].
    - destruct fl as [|l fl]; [discriminate|]. destruct row2 as [|j row2]; [discriminate|].
      simpl in E1, E2. inversion ND as [|? ? Nl ND']; subst.
      destruct (nth_error l i) as [v|] eqn:Ei; [|discriminate].
      destruct (nth_error l j) as [w|] eqn:Ej; [|discriminate].
      destruct (select_row row1 fl) as [r1|] eqn:Er1; [|discriminate].
      destruct (select_row row2 fl) as [r2|] eqn:Er2; [|discriminate].
      inversion E1; subst. inversion E2; subst. f_equal.
      + apply (proj1 (NoDup_nth_error l) Nl); [apply nth_error_Some; congruence|congruence].
      + eapply IH; eauto.
  Qed.

  Lemma construct_df_ok x : forall fl, (forall row, In row x -> exists r, select_row row fl = Ok r) ->
    exists rows, construct_df x fl = Ok rows.
  Proof.
    induction x as [|row x IH]; intros fl Hx; [exists []; reflexivity|]. simpl.
    destruct (Hx row (or_introl eq_refl)) as (r & Er). rewrite Er.
    destruct (IH fl (fun row' I => Hx row' (or_intror I))) as (rows & Erows). rewrite Erows.
    exists (r :: rows). reflexivity.
  Qed.

  Lemma construct_df_rel x : forall fl rows, construct_df x fl = Ok rows ->
    Forall2 (fun row r => select_row row fl = Ok r) x rows.
  Proof.
    induction x as [|row x IH]; intros fl rows E; simpl in E; [inversion E; constructor|].
    destruct (select_row row fl) as [r|] eqn:Er; [|discriminate].
    destruct (construct_df x fl) as [d|] eqn:Ed; [|discriminate]. inversion E; subst.
    constructor; [exact Er|]. apply IH. exact Ed.
  Qed.

  (* every level combination exactly once *)
  Theorem fullfact_bijective fl : fl <> [] ->
    exists rows, build_full_fact fl = Ok rows /\
      length rows = prod_list (map (@length T) fl) /\
      (forall r, In r rows <-> Forall2 (@In T) r fl) /\
      (Forall (@NoDup T) fl -> NoDup rows).
  Proof.
    intros NE. set (levels := map (@length T) fl).
    assert (levels <> []) as NE' by (subst levels; destruct fl; [contradiction|discriminate]).
    destruct (fullfact_index_bijective levels NE') as (x & Ex & Nx & Lx & Hx).
    assert (forall row, In row x -> length row = length fl) as Hlen.
    { intros row I. apply Hx in I. apply Forall2_len in I. subst levels. rewrite map_length in I. exact I. }
    destruct (construct_df_ok x fl) as (rows & Erows).
    { intros row I. apply select_row_ok. apply Hx. exact I. }
    pose proof (construct_df_rel _ _ _ Erows) as Rel.
    exists rows. unfold build_full_fact. fold levels. rewrite Ex. simpl. split; [exact Erows|].
    split; [rewrite <- (Forall2_len _ _ _ Rel); exact Lx|]. split.
    - intros r. split.
      + intros I. destruct (Forall2_In_r _ _ _ _ Rel I) as (row & Irow & Er).
        eapply select_row_In; [exact Er|]. apply Hlen. exact Irow.
      + intros F. destruct (select_row_complete r fl F) as (row & Fr & Er).
        apply Hx in Fr. destruct (Forall2_In_l _ _ _ _ Rel Fr) as (r' & Ir' & Er').
        rewrite Er in Er'. inversion Er'. subst. exact Ir'.
    - intros ND. eapply Forall2_NoDup_r; [exact Rel|exact Nx|].
      intros row1 row2 r I1 I2 E1 E2.
      exact (select_row_inj row1 row2 fl r ND (Hlen _ I1) (Hlen _ I2) E1 E2).
  Qed.
End Select.
