(* Proofs about Model/Fnds.v: the table-based sorter assigns every position its Pareto rank.
   Structure:  (1) list helpers;  (2) the domination relation on positions and its order laws;
   (3) phase 1 (pair loop): counters = number of dominators, dominated lists, front 1;
   (4) phase 2: one pass as a fold over the flattened list of dominated positions, closed form;
   (5) the peeling invariant, fuel, totality;  (6) the rank equation and its corollaries. *)
From Coq Require Import List ZArith Bool Arith Lia Permutation.
From Artap Require Import Model.Fnds Proofs.DominanceProofs.
Import ListNotations.
Local Open Scope nat_scope.

Ltac splits := repeat match goal with |- _ /\ _ => split end.

(* ------------------------------------------------------------------------------------------ *)
(* (1) list helpers                                                                            *)
(* ------------------------------------------------------------------------------------------ *)
Section ListHelpers.
  Lemma filter_length_or {A} (f g : A -> bool) (l : list A) :
    (forall x, In x l -> f x = true -> g x = false) ->
    length (filter (fun x => f x || g x) l) = length (filter f l) + length (filter g l).
  Proof.
    induction l as [|a l IH]; intros Hd; [reflexivity|]. cbn.
    assert (Ha := Hd a (or_introl eq_refl)).
    assert (IH' := IH (fun x Hx => Hd x (or_intror Hx))).
    destruct (f a) eqn:Ef, (g a) eqn:Eg; cbn; try lia.
  Qed.

  Lemma filter_length_lt {A} (f g : A -> bool) (l : list A) (y : A) :
    (forall x, In x l -> f x = true -> g x = true) -> In y l -> f y = false -> g y = true ->
    length (filter f l) < length (filter g l).
  Proof.
    assert (Hle : forall l', (forall x, In x l' -> f x = true -> g x = true) ->
                             length (filter f l') <= length (filter g l')).
    { induction l' as [|a l' IH]; intros Hs; [cbn; lia|]. cbn.
      assert (IH' := IH (fun x Hx => Hs x (or_intror Hx))).
      destruct (f a) eqn:Ef; [rewrite (Hs a (or_introl eq_refl) Ef); cbn; lia|].
      destruct (g a); cbn; lia. }
    induction l as [|a l IH]; intros Hs Hy Hf Hg; [destruct Hy|]. cbn.
    destruct Hy as [->|Hy].
    - rewrite Hf, Hg. cbn. assert (Hl := Hle l (fun x Hx => Hs x (or_intror Hx))). lia.
    - assert (IH' := IH (fun x Hx => Hs x (or_intror Hx)) Hy Hf Hg).
      destruct (f a) eqn:Ef; [rewrite (Hs a (or_introl eq_refl) Ef); cbn; lia|].
      destruct (g a); cbn; lia.
  Qed.

  Lemma filter_length_0 {A} (f : A -> bool) (l : list A) :
    length (filter f l) = 0 -> forall x, In x l -> f x = false.
  Proof.
    induction l as [|a l IH]; intros Hz x Hx; [destruct Hx|]. cbn in Hz.
    destruct (f a) eqn:Ef; [discriminate|]. destruct Hx as [->|Hx]; auto.
  Qed.

  Lemma filter_length_pos {A} (f : A -> bool) (l : list A) :
    1 <= length (filter f l) -> exists x, In x l /\ f x = true.
  Proof.
    induction l as [|a l IH]; cbn; intros Hp; [lia|].
    destruct (f a) eqn:Ef; [exists a; auto|]. destruct (IH Hp) as [x [Hx Hfx]]. exists x; auto.
  Qed.

  Lemma filter_none {A} (f : A -> bool) (l : list A) :
    (forall x, In x l -> f x = false) -> filter f l = [].
  Proof.
    induction l as [|a l IH]; intros Hn; [reflexivity|]. cbn.
    rewrite (Hn a (or_introl eq_refl)). apply IH. intros; apply Hn; right; assumption.
  Qed.

  Lemma filter_all {A} (f : A -> bool) (l : list A) :
    (forall x, In x l -> f x = true) -> filter f l = l.
  Proof.
    induction l as [|a l IH]; intros Hn; [reflexivity|]. cbn.
    rewrite (Hn a (or_introl eq_refl)). f_equal. apply IH. intros; apply Hn; right; assumption.
  Qed.

  Lemma filter_length_compl {A} (f : A -> bool) (l : list A) :
    length (filter f l) + length (filter (fun x => negb (f x)) l) = length l.
  Proof. induction l as [|a l IH]; [reflexivity|]. cbn. destruct (f a); cbn; lia. Qed.

  Lemma list_max_ge (l : list nat) (x : nat) : In x l -> x <= list_max l.
  Proof.
    induction l as [|a l IH]; intros Hx; [destruct Hx|].
    change (list_max (a :: l)) with (Nat.max a (list_max l)).
    destruct Hx as [->|Hx]; [lia|]. specialize (IH Hx). lia.
  Qed.

  Lemma list_max_eq (l : list nat) (k : nat) :
    (forall x, In x l -> x <= k) -> In k l -> list_max l = k.
  Proof.
    intros Hle Hin. apply Nat.le_antisymm; [|apply list_max_ge; assumption].
    apply list_max_le. apply Forall_forall. assumption.
  Qed.

  Lemma list_max_same_set (l m : list nat) :
    (forall x, In x l -> In x m) -> (forall x, In x m -> In x l) -> list_max l = list_max m.
  Proof.
    intros Hlm Hml. apply Nat.le_antisymm; apply list_max_le, Forall_forall; intros x Hx;
      apply list_max_ge; auto.
  Qed.

  Lemma flat_map_map {A B D} (g : B -> D) (h : A -> list B) (l : list A) :
    flat_map (fun p => map g (h p)) l = map g (flat_map h l).
  Proof. induction l as [|a l IH]; [reflexivity|]. cbn. rewrite map_app, IH. reflexivity. Qed.

  Lemma flat_map_if_map {A B} (f : A -> bool) (g : A -> B) (l : list A) :
    flat_map (fun j => if f j then [g j] else []) l = map g (filter f l).
  Proof. induction l as [|a l IH]; [reflexivity|]. cbn. destruct (f a); cbn; rewrite IH; reflexivity. Qed.

  Lemma flat_map_nil {A B} (h : A -> list B) (l : list A) :
    (forall x, In x l -> h x = []) -> flat_map h l = [].
  Proof.
    induction l as [|a l IH]; intros Hn; [reflexivity|]. cbn.
    rewrite (Hn a (or_introl eq_refl)). apply IH. intros; apply Hn; right; assumption.
  Qed.

  (* the single position q inside a seq *)
  Lemma flat_map_at_seq {B} (f : nat -> bool) (b : B) (q a len : nat) :
    flat_map (fun j => if (j =? q) && f j then [b] else []) (seq a len) =
    if (a <=? q) && (q <? a + len) && f q then [b] else [].
  Proof.
    revert a. induction len as [|len IH]; intros a.
    - cbn [seq flat_map]. destruct (a <=? q) eqn:E1, (q <? a + 0) eqn:E2; cbn [andb]; try reflexivity.
      apply Nat.leb_le in E1. apply Nat.ltb_lt in E2. lia.
    - cbn [seq flat_map]. rewrite IH. destruct (Nat.eqb_spec a q) as [->|Hne].
      + rewrite Nat.leb_refl. replace (q <? q + S len) with true by (symmetry; apply Nat.ltb_lt; lia).
        replace (S q <=? q) with false by (symmetry; apply Nat.leb_gt; lia). cbn.
        destruct (f q); reflexivity.
      + cbn [andb app].
        assert (E1 : (S a <=? q) = (a <=? q)).
        { destruct (Nat.leb_spec (S a) q), (Nat.leb_spec a q); try reflexivity; lia. }
        assert (E2 : (q <? S a + len) = (q <? a + S len)) by (f_equal; lia).
        rewrite E1, E2. reflexivity.
  Qed.

  Lemma filter_at_seq_length (f : nat -> bool) (q a len : nat) :
    length (filter (fun j => (j =? q) && f j) (seq a len)) =
    if (a <=? q) && (q <? a + len) && f q then 1 else 0.
  Proof.
    assert (E := flat_map_at_seq f tt q a len). rewrite flat_map_if_map in E.
    apply (f_equal (@length unit)) in E. rewrite map_length in E. rewrite E.
    destruct ((a <=? q) && (q <? a + len) && f q); reflexivity.
  Qed.

  Lemma count_occ_NoDup (l : list nat) (x : nat) :
    NoDup l -> count_occ Nat.eq_dec l x = if in_dec Nat.eq_dec x l then 1 else 0.
  Proof.
    intros Hnd. destruct (in_dec Nat.eq_dec x l) as [Hin|Hni].
    - apply (count_occ_In Nat.eq_dec) in Hin. apply (proj1 (NoDup_count_occ Nat.eq_dec l)) with (x := x) in Hnd. lia.
    - apply (count_occ_not_In Nat.eq_dec) in Hni. assumption.
  Qed.
End ListHelpers.

(* ------------------------------------------------------------------------------------------ *)
(* (2) domination between positions of a fixed population                                      *)
(* ------------------------------------------------------------------------------------------ *)
Definition trans_on {C : Type} (cmp : C -> C -> nat) (l : list C) : Prop :=
  forall p q r, In p l -> In q l -> In r l -> cmp p q = 1 -> cmp q r = 1 -> cmp p r = 1.

Definition fr_at (fr : nat -> option nat) (j : nat) : nat :=
  match fr j with Some k => k | None => 0 end.

Section Rel.
  Context {C : Type} (cmp : C -> C -> nat).
  Hypothesis cmp_antisym : forall p q, cmp q p = swap (cmp p q).
  Variable pop : list (ind C).
  Hypothesis cmp_trans : trans_on cmp (map cost pop).
  Let n := length pop.

  (* Db p q: the member at position p dominates the member at position q *)
  Definition Db (p q : nat) : bool :=
    match nth_error pop p, nth_error pop q with
    | Some a, Some b => cmp (cost a) (cost b) =? 1
    | _, _ => false
    end.
  Definition idAt (j : nat) : nat := match nth_error pop j with Some x => iid x | None => 0 end.
  Definition dominators (q : nat) : list nat := filter (fun j => Db j q) (seq 0 (length pop)).
  Definition dominated (p : nat) : list nat := filter (fun j => Db p j) (seq 0 (length pop)).

  Lemma Db_lt p q : Db p q = true -> p < n /\ q < n.
  Proof.
    unfold Db, n. destruct (nth_error pop p) eqn:Ep; [|discriminate].
    destruct (nth_error pop q) eqn:Eq; [|discriminate]. intros _. split; apply nth_error_Some; congruence.
  Qed.

  Lemma Db_irrefl p : Db p p = false.
  Proof.
    unfold Db. destruct (nth_error pop p) as [a|]; [|reflexivity].
    assert (E := cmp_antisym (cost a) (cost a)). destruct (cmp (cost a) (cost a)) as [|[|[|v]]]; try reflexivity.
    cbn in E. discriminate.
  Qed.

  Lemma Db_asym p q : Db p q = true -> Db q p = false.
  Proof.
    unfold Db. destruct (nth_error pop p) as [a|]; [|discriminate]. destruct (nth_error pop q) as [b|]; [|discriminate].
    intros E. apply Nat.eqb_eq in E. rewrite (cmp_antisym (cost a) (cost b)), E. reflexivity.
  Qed.

  Lemma Db_trans p q r : Db p q = true -> Db q r = true -> Db p r = true.
  Proof.
    unfold Db. destruct (nth_error pop p) as [a|] eqn:Ea; [|discriminate].
    destruct (nth_error pop q) as [b|] eqn:Eb; [|discriminate].
    destruct (nth_error pop r) as [c|] eqn:Ec; [|discriminate].
    intros E1 E2. apply Nat.eqb_eq in E1, E2. apply Nat.eqb_eq.
    apply (cmp_trans (cost a) (cost b) (cost c)); try assumption;
      apply in_map; eapply nth_error_In; eassumption.
  Qed.

  Lemma in_dominators p q : In p (dominators q) <-> Db p q = true.
  Proof.
    unfold dominators. rewrite filter_In, in_seq. split; [tauto|].
    intros E. destruct (Db_lt _ _ E). fold n. split; [lia|assumption].
  Qed.

  Lemma in_dominated p q : In q (dominated p) <-> Db p q = true.
  Proof.
    unfold dominated. rewrite filter_In, in_seq. split; [tauto|].
    intros E. destruct (Db_lt _ _ E). fold n. split; [lia|assumption].
  Qed.

  Lemma NoDup_dominators q : NoDup (dominators q).
  Proof. apply NoDup_filter, seq_NoDup. Qed.
  Lemma NoDup_dominated p : NoDup (dominated p).
  Proof. apply NoDup_filter, seq_NoDup. Qed.

  Lemma dominators_lt p q : Db p q = true -> length (dominators p) < length (dominators q).
  Proof.
    intros E. unfold dominators. apply filter_length_lt with (y := p).
    - intros x _ Hx. eapply Db_trans; eassumption.
    - apply in_seq. destruct (Db_lt _ _ E). fold n. lia.
    - apply Db_irrefl.
    - assumption.
  Qed.

  (* ---------------------------------------------------------------------------------------- *)
  (* (3) phase 1                                                                               *)
  (* ---------------------------------------------------------------------------------------- *)
  Lemma pair_step_Db i j s :
    pair_step cmp pop i j s =
    if Db i j then {| cnt := upd (cnt s) j (cnt s j + 1)%Z; dom := upd (dom s) i (dom s i ++ [idAt j]); frt := frt s |}
    else if Db j i then {| cnt := upd (cnt s) i (cnt s i + 1)%Z; dom := upd (dom s) j (dom s j ++ [idAt i]); frt := frt s |}
    else s.
  Proof.
    unfold pair_step, Db, idAt. destruct (nth_error pop i) as [a|]; [|destruct (nth_error pop j); reflexivity].
    destruct (nth_error pop j) as [b|]; [|reflexivity].
    rewrite (cmp_antisym (cost a) (cost b)).
    destruct (cmp (cost a) (cost b)) as [|[|[|v]]]; reflexivity.
  Qed.

  Definition inner (i : nat) (js : list nat) (s : st) : st := fold_left (fun s j => pair_step cmp pop i j s) js s.

  Definition cnt_hit (i q j : nat) : bool := ((j =? q) && Db i j) || ((q =? i) && Db j i).
  Definition dom_hit (i q j : nat) : list nat :=
    if (q =? i) && Db i j then [idAt j] else if (j =? q) && Db j i then [idAt i] else [].

  Lemma pair_step_frt i j s : frt (pair_step cmp pop i j s) = frt s.
  Proof. rewrite pair_step_Db. destruct (Db i j), (Db j i); reflexivity. Qed.

  Lemma pair_step_cnt i j s q :
    cnt (pair_step cmp pop i j s) q = (cnt s q + (if cnt_hit i q j then 1 else 0))%Z.
  Proof.
    rewrite pair_step_Db. unfold cnt_hit. destruct (Db i j) eqn:Eij.
    - rewrite (Db_asym _ _ Eij). cbn [cnt]. unfold upd. rewrite (Nat.eqb_sym j q), !andb_true_r, !andb_false_r, orb_false_r.
      destruct (Nat.eqb_spec q j) as [->|]; lia.
    - destruct (Db j i) eqn:Eji; cbn [cnt]; rewrite !andb_false_r, ?andb_true_r, ?orb_false_l; cbn [orb].
      + unfold upd. destruct (Nat.eqb_spec q i) as [->|]; lia.
      + lia.
  Qed.

  Lemma pair_step_dom i j s q :
    dom (pair_step cmp pop i j s) q = dom s q ++ dom_hit i q j.
  Proof.
    rewrite pair_step_Db. unfold dom_hit. destruct (Db i j) eqn:Eij.
    - rewrite (Db_asym _ _ Eij). cbn [dom]. unfold upd. rewrite !andb_true_r, !andb_false_r.
      destruct (Nat.eqb_spec q i) as [->|]; [reflexivity|]. rewrite app_nil_r. reflexivity.
    - destruct (Db j i) eqn:Eji; cbn [dom]; rewrite !andb_false_r, ?andb_true_r.
      + unfold upd. rewrite (Nat.eqb_sym j q). destruct (Nat.eqb_spec q j) as [->|]; [reflexivity|].
        rewrite app_nil_r. reflexivity.
      + rewrite app_nil_r. reflexivity.
  Qed.

  Lemma inner_frt i js : forall s, frt (inner i js s) = frt s.
  Proof. induction js as [|j js IH]; intros s; [reflexivity|]. cbn. unfold inner in IH. rewrite IH. apply pair_step_frt. Qed.

  Lemma inner_cnt i js : forall s q,
    cnt (inner i js s) q = (cnt s q + Z.of_nat (length (filter (cnt_hit i q) js)))%Z.
  Proof.
    induction js as [|j js IH]; intros s q; [cbn; lia|]. cbn [inner fold_left filter].
    unfold inner in IH. rewrite IH, pair_step_cnt. destruct (cnt_hit i q j); cbn [length]; lia.
  Qed.

  Lemma inner_dom i js : forall s q,
    dom (inner i js s) q = dom s q ++ flat_map (dom_hit i q) js.
  Proof.
    induction js as [|j js IH]; intros s q; [cbn; rewrite app_nil_r; reflexivity|]. cbn [inner fold_left flat_map].
    unfold inner in IH. rewrite IH, pair_step_dom, app_assoc. reflexivity.
  Qed.

  (* the row of position i: js = i+1 .. n-1 *)
  Definition rest (i : nat) : list nat := seq (S i) (n - S i).

  Lemma row_cnt i s q : i < n ->
    cnt (inner i (rest i) s) q =
    if q <? i then cnt s q
    else if q =? i then (cnt s i + Z.of_nat (length (filter (fun j => Db j i) (rest i))))%Z
    else (cnt s q + (if Db i q then 1 else 0))%Z.
  Proof.
    intros Hi. rewrite inner_cnt. unfold rest.
    destruct (Nat.ltb_spec q i) as [Hlt|Hge].
    - rewrite filter_none; [cbn; lia|]. intros j Hj. apply in_seq in Hj. unfold cnt_hit.
      replace (j =? q) with false by (symmetry; apply Nat.eqb_neq; lia).
      replace (q =? i) with false by (symmetry; apply Nat.eqb_neq; lia). reflexivity.
    - destruct (Nat.eqb_spec q i) as [->|Hne].
      + f_equal. f_equal. f_equal. apply filter_ext_in. intros j Hj. apply in_seq in Hj. unfold cnt_hit.
        replace (j =? i) with false by (symmetry; apply Nat.eqb_neq; lia). rewrite Nat.eqb_refl. reflexivity.
      + f_equal. rewrite (filter_ext (cnt_hit i q) (fun j => (j =? q) && Db i j)).
        2:{ intros j. unfold cnt_hit. replace (q =? i) with false by (symmetry; apply Nat.eqb_neq; lia).
            cbn. rewrite orb_false_r. reflexivity. }
        rewrite filter_at_seq_length. destruct (Db i q) eqn:E; [|rewrite andb_false_r; reflexivity].
        destruct (Db_lt _ _ E) as [_ Hq].
        replace (S i <=? q) with true by (symmetry; apply Nat.leb_le; lia).
        replace (q <? S i + (n - S i)) with true by (symmetry; apply Nat.ltb_lt; lia). reflexivity.
  Qed.

  Lemma row_dom i s q : i < n ->
    dom (inner i (rest i) s) q =
    if q <? i then dom s q
    else if q =? i then dom s i ++ map idAt (filter (fun j => Db i j) (rest i))
    else dom s q ++ (if Db q i then [idAt i] else []).
  Proof.
    intros Hi. rewrite inner_dom. unfold rest.
    destruct (Nat.ltb_spec q i) as [Hlt|Hge].
    - rewrite flat_map_nil; [apply app_nil_r|]. intros j Hj. apply in_seq in Hj. unfold dom_hit.
      replace (j =? q) with false by (symmetry; apply Nat.eqb_neq; lia).
      replace (q =? i) with false by (symmetry; apply Nat.eqb_neq; lia). reflexivity.
    - destruct (Nat.eqb_spec q i) as [->|Hne].
      + f_equal. rewrite <- flat_map_if_map. apply flat_map_ext. intros j. unfold dom_hit.
        rewrite Nat.eqb_refl. cbn [andb]. destruct (Db i j) eqn:E; [reflexivity|].
        destruct (Nat.eqb_spec j i) as [->|]; [|reflexivity]. rewrite Db_irrefl. reflexivity.
      + f_equal. rewrite (flat_map_ext (dom_hit i q) (fun j => if (j =? q) && Db j i then [idAt i] else [])).
        2:{ intros j. unfold dom_hit. replace (q =? i) with false by (symmetry; apply Nat.eqb_neq; lia). reflexivity. }
        assert (E0 : forall l, flat_map (fun j => if (j =? q) && Db j i then [idAt i] else []) l =
                               flat_map (fun j => if (j =? q) && Db q i then [idAt i] else []) l).
        { intros l. apply flat_map_ext. intros j. destruct (Nat.eqb_spec j q) as [->|]; reflexivity. }
        rewrite E0, (flat_map_at_seq (fun _ => Db q i)).
        destruct (Db q i) eqn:E; [|rewrite andb_false_r; reflexivity].
        destruct (Db_lt _ _ E) as [Hq _].
        replace (S i <=? q) with true by (symmetry; apply Nat.leb_le; lia).
        replace (q <? S i + (n - S i)) with true by (symmetry; apply Nat.ltb_lt; lia). reflexivity.
  Qed.

  Lemma split_seq i : i < n -> seq 0 n = seq 0 i ++ i :: rest i.
  Proof.
    intros Hi. unfold rest. replace n with (i + S (n - S i)) at 1 by lia.
    rewrite seq_app. reflexivity.
  Qed.

  Definition nondom (q : nat) : bool := length (dominators q) =? 0.

  Lemma row_fst i sf :
    let s := inner i (rest i) (fst sf) in
    cnt (fst (row cmp pop n i sf)) = cnt s /\ dom (fst (row cmp pop n i sf)) = dom s /\
    (forall q, frt (fst (row cmp pop n i sf)) q = if (cnt s i =? 0)%Z && (q =? i) then Some 1 else frt (fst sf) q) /\
    snd (row cmp pop n i sf) = snd sf ++ (if (cnt s i =? 0)%Z then [i] else []).
  Proof.
    intros s. unfold row. fold (rest i). fold (inner i (rest i) (fst sf)). fold s.
    destruct (cnt s i =? 0)%Z; cbn [fst snd cnt dom frt andb].
    - repeat split; try reflexivity. intros q. unfold upd. unfold s. rewrite inner_frt. reflexivity.
    - repeat split; try reflexivity; [|symmetry; apply app_nil_r]. intros q. unfold s. rewrite inner_frt. reflexivity.
  Qed.

  Record P1 (i : nat) (sf : st * list nat) : Prop := {
    p1_cnt : forall q, q < n ->
      cnt (fst sf) q = Z.of_nat (length (filter (fun j => Db j q) (seq 0 (if q <? i then n else i))));
    p1_dom : forall q, q < n ->
      dom (fst sf) q = map idAt (filter (fun j => Db q j) (seq 0 (if q <? i then n else i)));
    p1_frt : forall q, frt (fst sf) q = if (q <? i) && nondom q then Some 1 else None;
    p1_f : snd sf = filter nondom (seq 0 i) }.

  Lemma phase1_inv i : i <= n ->
    P1 i (fold_left (fun sf i => row cmp pop n i sf) (seq 0 i) (st0, [])).
  Proof.
    induction i as [|i IH]; intros Hi.
    - split; cbn; intros; reflexivity.
    - rewrite seq_S, fold_left_app. cbn [fold_left Nat.add].
      set (sf := fold_left (fun sf i => row cmp pop n i sf) (seq 0 i) (st0, [])) in *.
      assert (Hin : i < n) by lia. specialize (IH ltac:(lia)). destruct IH as [Ic Id If Il].
      destruct (row_fst i sf) as [Rc [Rd [Rf Rl]]]. cbv zeta in Rc, Rd, Rf, Rl.
      (* counter of i after its own row = number of its dominators *)
      assert (Ci : cnt (inner i (rest i) (fst sf)) i = Z.of_nat (length (dominators i))).
      { rewrite row_cnt by assumption. rewrite Nat.ltb_irrefl, Nat.eqb_refl, (Ic i Hin), Nat.ltb_irrefl.
        unfold dominators. fold n. rewrite (split_seq i Hin), filter_app. cbn [filter]. rewrite Db_irrefl, app_length. lia. }
      assert (Ti : (cnt (inner i (rest i) (fst sf)) i =? 0)%Z = nondom i).
      { rewrite Ci. unfold nondom. destruct (length (dominators i)); reflexivity. }
      split.
      + intros q Hq. rewrite Rc, row_cnt by assumption.
        destruct (Nat.ltb_spec q i) as [Hlt|Hge].
        * replace (q <? S i) with true by (symmetry; apply Nat.ltb_lt; lia).
          rewrite (Ic q Hq). replace (q <? i) with true by (symmetry; apply Nat.ltb_lt; lia). reflexivity.
        * destruct (Nat.eqb_spec q i) as [->|Hne].
          -- replace (i <? S i) with true by (symmetry; apply Nat.ltb_lt; lia).
             rewrite row_cnt, Nat.ltb_irrefl, Nat.eqb_refl in Ci by assumption. rewrite Ci. reflexivity.
          -- replace (q <? S i) with false by (symmetry; apply Nat.ltb_ge; lia).
             rewrite (Ic q Hq). replace (q <? i) with false by (symmetry; apply Nat.ltb_ge; lia).
             rewrite seq_S, filter_app, app_length. cbn [filter Nat.add]. destruct (Db i q); cbn [length]; lia.
      + intros q Hq. rewrite Rd, row_dom by assumption.
        destruct (Nat.ltb_spec q i) as [Hlt|Hge].
        * replace (q <? S i) with true by (symmetry; apply Nat.ltb_lt; lia).
          rewrite (Id q Hq). replace (q <? i) with true by (symmetry; apply Nat.ltb_lt; lia). reflexivity.
        * destruct (Nat.eqb_spec q i) as [->|Hne].
          -- replace (i <? S i) with true by (symmetry; apply Nat.ltb_lt; lia).
             rewrite (Id i Hin), Nat.ltb_irrefl. rewrite (split_seq i Hin), filter_app. cbn [filter].
             rewrite Db_irrefl, map_app. reflexivity.
          -- replace (q <? S i) with false by (symmetry; apply Nat.ltb_ge; lia).
             rewrite (Id q Hq). replace (q <? i) with false by (symmetry; apply Nat.ltb_ge; lia).
             rewrite seq_S, filter_app, map_app. cbn [filter Nat.add]. destruct (Db q i); reflexivity.
      + intros q. rewrite Rf, Ti, (If q).
        destruct (Nat.eqb_spec q i) as [->|Hne].
        * rewrite Nat.ltb_irrefl. replace (i <? S i) with true by (symmetry; apply Nat.ltb_lt; lia).
          cbn [andb]. rewrite andb_true_r. reflexivity.
        * rewrite andb_false_r.
          replace (q <? S i) with (q <? i); [reflexivity|].
          destruct (Nat.ltb_spec q i), (Nat.ltb_spec q (S i)); try reflexivity; lia.
      + rewrite Rl, Ti, Il, seq_S, filter_app. cbn [filter Nat.add]. destruct (nondom i); reflexivity.
  Qed.

  Lemma phase1_spec :
    let sf := phase1 cmp pop in
    (forall q, q < n -> cnt (fst sf) q = Z.of_nat (length (dominators q))) /\
    (forall q, q < n -> dom (fst sf) q = map idAt (dominated q)) /\
    (forall q, q < n -> frt (fst sf) q = if nondom q then Some 1 else None) /\
    snd sf = filter nondom (seq 0 n).
  Proof.
    intros sf. destruct (phase1_inv n (le_n n)) as [Ic Id If Il]. fold n in sf.
    change (fold_left (fun sf i => row cmp pop n i sf) (seq 0 n) (st0, [])) with sf in *.
    repeat split.
    - intros q Hq. rewrite (Ic q Hq). replace (q <? n) with true by (symmetry; apply Nat.ltb_lt; lia). reflexivity.
    - intros q Hq. rewrite (Id q Hq). replace (q <? n) with true by (symmetry; apply Nat.ltb_lt; lia). reflexivity.
    - intros q Hq. rewrite (If q). replace (q <? n) with true by (symmetry; apply Nat.ltb_lt; lia). reflexivity.
    - assumption.
  Qed.

  (* ---------------------------------------------------------------------------------------- *)
  (* (4) phase 2: id lookup, one pass as a flat fold, closed form of the fold                  *)
  (* ---------------------------------------------------------------------------------------- *)
  Hypothesis ids_nodup : NoDup (map iid pop).

  Lemma find_from_spec : forall (l : list (ind C)) k j x,
    NoDup (map iid l) -> nth_error l j = Some x -> find_from l k (iid x) = Some (k + j).
  Proof.
    induction l as [|y l IH]; intros k j x Hnd Hj; [destruct j; discriminate|].
    cbn in Hnd. inversion Hnd as [|? ? Hni Hnd']; subst. destruct j as [|j]; cbn in Hj |- *.
    - inversion Hj; subst. rewrite Nat.eqb_refl. f_equal. lia.
    - destruct (Nat.eqb_spec (iid y) (iid x)) as [E|_].
      + exfalso. apply Hni. rewrite E. apply in_map. eapply nth_error_In; eassumption.
      + rewrite (IH (S k) j x Hnd' Hj). f_equal. lia.
  Qed.

  Lemma find_pos_idAt q : q < n -> find_pos pop (idAt q) = Some q.
  Proof.
    intros Hq. unfold idAt, find_pos. destruct (nth_error pop q) as [x|] eqn:E.
    - apply (find_from_spec pop 0 q x ids_nodup E).
    - apply nth_error_None in E. fold n in E. lia.
  Qed.

  Lemma dec_step_dom fn sf id : dom (fst (dec_step pop fn sf id)) = dom (fst sf).
  Proof.
    unfold dec_step. destruct (find_pos pop id); [|reflexivity].
    destruct ((cnt (fst sf) n0 - 1 =? 0)%Z && is_none (frt (fst sf) n0)); reflexivity.
  Qed.

  Lemma dec_fold_dom fn l : forall sf, dom (fst (fold_left (dec_step pop fn) l sf)) = dom (fst sf).
  Proof. induction l as [|a l IH]; intros sf; [reflexivity|]. cbn. rewrite IH. apply dec_step_dom. Qed.

  Lemma pass_flat fn cur : forall sf,
    fold_left (fun sf p => fold_left (dec_step pop fn) (dom (fst sf) p) sf) cur sf =
    fold_left (dec_step pop fn) (flat_map (dom (fst sf)) cur) sf.
  Proof.
    induction cur as [|p cur IH]; intros sf; [reflexivity|]. cbn [fold_left flat_map].
    rewrite fold_left_app, IH, dec_fold_dom. reflexivity.
  Qed.

  (* the step on a dominated id that belongs to position a *)
  Lemma dec_step_at fn s f a : a < n ->
    dec_step pop fn (s, f) (idAt a) =
    let c := (cnt s a - 1)%Z in
    if (c =? 0)%Z && is_none (frt s a)
    then ({| cnt := upd (cnt s) a c; dom := dom s; frt := upd (frt s) a (Some fn) |}, f ++ [a])
    else ({| cnt := upd (cnt s) a c; dom := dom s; frt := frt s |}, f).
  Proof. intros Ha. unfold dec_step. rewrite (find_pos_idAt a Ha). reflexivity. Qed.

  Definition occ (l : list nat) (q : nat) : Z := Z.of_nat (count_occ Nat.eq_dec l q).

  (* closed form of a fold of decrements over the positions l *)
  Lemma dec_fold_spec fn : forall (l : list nat) (s : st) (f : list nat),
    (forall q, In q l -> q < n) ->
    (forall q, q < n -> frt s q = None -> (1 <= cnt s q)%Z) ->
    exists s' new,
      fold_left (dec_step pop fn) (map idAt l) (s, f) = (s', f ++ new) /\
      dom s' = dom s /\
      (forall q, cnt s' q = (cnt s q - occ l q)%Z) /\
      (forall q r, frt s q = Some r -> frt s' q = Some r) /\
      (forall q, q < n -> frt s q = None ->
                 frt s' q = if (cnt s q <=? occ l q)%Z then Some fn else None) /\
      NoDup new /\
      (forall q, In q new <-> frt s q = None /\ frt s' q <> None) /\
      (forall q, In q new -> In q l).
  Proof.
    induction l as [|a l IH]; intros s f Hl Hpre.
    - exists s, []. cbn [map fold_left]. rewrite app_nil_r. splits; try reflexivity.
      + intros q. unfold occ. cbn. lia.
      + intros q r Hq. assumption.
      + intros q Hq Hn. unfold occ. cbn. destruct (Z.leb_spec (cnt s q) 0); [|assumption].
        specialize (Hpre q Hq Hn). lia.
      + constructor.
      + intros q. split; [intros []|]. intros [Hn Hs]. congruence.
      + intros q [].
    - assert (Ha : a < n) by (apply Hl; left; reflexivity).
      cbn [map fold_left]. rewrite (dec_step_at fn s f a Ha). cbv zeta.
      assert (Hocc : forall q, occ (a :: l) q = ((if Nat.eqb a q then 1 else 0) + occ l q)%Z).
      { intros q. unfold occ. cbn [count_occ]. destruct (Nat.eq_dec a q) as [->|Hne].
        - rewrite Nat.eqb_refl. lia.
        - replace (a =? q) with false by (symmetry; apply Nat.eqb_neq; assumption). lia. }
      destruct ((cnt s a - 1 =? 0)%Z && is_none (frt s a)) eqn:Et.
      + (* a gets its number now *)
        apply andb_true_iff in Et. destruct Et as [Ec En]. apply Z.eqb_eq in Ec.
        assert (Hna : frt s a = None) by (destruct (frt s a); [discriminate|reflexivity]).
        set (s1 := {| cnt := upd (cnt s) a (cnt s a - 1)%Z; dom := dom s; frt := upd (frt s) a (Some fn) |}).
        destruct (IH s1 (f ++ [a])) as [s' [new [Hf [Hd [Hc [Hk [Hr [Hnd [Hin Hsub]]]]]]]]].
        { intros q Hq. apply Hl. right. assumption. }
        { intros q Hq. cbn [s1 frt cnt]. unfold upd. destruct (Nat.eqb_spec q a) as [->|Hne]; [discriminate|]. apply Hpre. assumption. }
        exists s', (a :: new). rewrite Hf, <- app_assoc. cbn [app].
        assert (Hsa : frt s' a = Some fn). { apply Hk. cbn [s1 frt]. unfold upd. rewrite Nat.eqb_refl. reflexivity. }
        splits; [reflexivity|exact Hd|..].
        * intros q. rewrite Hc, Hocc. cbn [s1 cnt]. unfold upd. rewrite (Nat.eqb_sym a q).
          destruct (Nat.eqb_spec q a) as [->|Hne]; lia.
        * intros q r Hq. apply Hk. cbn [s1 frt]. unfold upd. destruct (Nat.eqb_spec q a) as [->|Hne]; [congruence|assumption].
        * intros q Hq Hn. rewrite Hocc. destruct (Nat.eqb_spec a q) as [<-|Hne].
          -- rewrite Hsa. assert (0 <= occ l a)%Z by (unfold occ; lia).
             destruct (Z.leb_spec (cnt s a) (1 + occ l a)); [reflexivity|lia].
          -- rewrite Hr; [|assumption|cbn [s1 frt]; unfold upd; replace (q =? a) with false by (symmetry; apply Nat.eqb_neq; congruence); assumption].
             cbn [s1 cnt]. unfold upd. replace (q =? a) with false by (symmetry; apply Nat.eqb_neq; congruence). reflexivity.
        * constructor; [|assumption]. intros Hx. apply Hin in Hx. destruct Hx as [Hx _].
          cbn [s1 frt] in Hx. unfold upd in Hx. rewrite Nat.eqb_refl in Hx. discriminate.
        * intros q. split.
          -- intros [<-|Hq]; [split; [assumption|congruence]|].
             apply Hin in Hq. destruct Hq as [Hq1 Hq2]. split; [|assumption].
             cbn [s1 frt] in Hq1. unfold upd in Hq1. destruct (Nat.eqb_spec q a); [discriminate|assumption].
          -- intros [Hq1 Hq2]. destruct (Nat.eq_dec a q) as [->|Hne]; [left; reflexivity|right].
             apply Hin. split; [|assumption]. cbn [s1 frt]. unfold upd.
             replace (q =? a) with false by (symmetry; apply Nat.eqb_neq; congruence). assumption.
        * intros q [<-|Hq]; [left; reflexivity|right; apply Hsub; assumption].
      + (* plain decrement *)
        set (s1 := {| cnt := upd (cnt s) a (cnt s a - 1)%Z; dom := dom s; frt := frt s |}).
        destruct (IH s1 f) as [s' [new [Hf [Hd [Hc [Hk [Hr [Hnd [Hin Hsub]]]]]]]]].
        { intros q Hq. apply Hl. right. assumption. }
        { intros q Hq Hn. cbn [s1 frt cnt] in *. unfold upd. destruct (Nat.eqb_spec q a) as [->|Hne]; [|apply Hpre; assumption].
          specialize (Hpre a Ha Hn). rewrite Hn in Et. cbn in Et. rewrite andb_true_r in Et. apply Z.eqb_neq in Et. lia. }
        exists s', new. rewrite Hf. splits; try assumption; [reflexivity|..].
        * intros q. rewrite Hc, Hocc. cbn [s1 cnt]. unfold upd. rewrite (Nat.eqb_sym a q).
          destruct (Nat.eqb_spec q a) as [->|Hne]; lia.
        * intros q Hq Hn. rewrite Hocc, (Hr q Hq Hn). cbn [s1 cnt]. unfold upd. rewrite (Nat.eqb_sym a q).
          destruct (Nat.eqb_spec q a) as [->|Hne]; [|reflexivity].
          destruct (Z.leb_spec (cnt s a - 1) (occ l a)), (Z.leb_spec (cnt s a) (1 + occ l a)); try reflexivity; lia.
        * intros q Hq. right. apply Hsub. assumption.
  Qed.

  (* ---------------------------------------------------------------------------------------- *)
  (* (5) the peeling invariant                                                                 *)
  (* ---------------------------------------------------------------------------------------- *)
  Definition isK (fr : nat -> option nat) (k p : nat) : bool := match fr p with Some r => r =? k | None => false end.
  Definition pendb (fr : nat -> option nat) (k p : nat) : bool := is_none (fr p) || isK fr k p.

  (* state when the fronts 1..k are numbered and front k (= cur) has not been processed yet *)
  Record Inv (k : nat) (cur : list nat) (s : st) : Prop := {
    inv_num : forall q r, q < n -> frt s q = Some r ->
      r <= k /\ (forall p, In p (dominators q) -> frt s p <> None) /\
      r = S (list_max (map (fr_at (frt s)) (dominators q)));
    inv_unn : forall q, q < n -> frt s q = None ->
      cnt s q = Z.of_nat (length (filter (pendb (frt s) k) (dominators q))) /\ (1 <= cnt s q)%Z;
    inv_nd : NoDup cur;
    inv_cur : forall p, In p cur <-> p < n /\ frt s p = Some k;
    inv_dom : forall q, q < n -> dom s q = map idAt (dominated q) }.

  Lemma inv_phase1 : Inv 1 (snd (phase1 cmp pop)) (fst (phase1 cmp pop)).
  Proof.
    destruct phase1_spec as [Hc [Hd [Hf Hl]]]. cbv zeta in *.
    set (sf := phase1 cmp pop) in *. split.
    - intros q r Hq Hr. rewrite (Hf q Hq) in Hr. unfold nondom in Hr.
      destruct (length (dominators q)) eqn:E; cbn in Hr; [|discriminate]. inversion Hr; subst.
      apply length_zero_iff_nil in E. rewrite E. cbn. splits; [lia|intros p []|reflexivity].
    - intros q Hq Hn. rewrite (Hf q Hq) in Hn. unfold nondom in Hn.
      destruct (length (dominators q)) eqn:E; cbn in Hn; [discriminate|].
      rewrite (Hc q Hq), filter_all, E; [split; lia|].
      intros p Hp. apply in_dominators in Hp. destruct (Db_lt _ _ Hp) as [Hpn _].
      unfold pendb, isK. rewrite (Hf p Hpn). destruct (nondom p); reflexivity.
    - rewrite Hl. apply NoDup_filter, seq_NoDup.
    - intros p. rewrite Hl, filter_In, in_seq. fold n. split.
      + intros [Hp Hnp]. split; [lia|]. rewrite (Hf p) by lia. rewrite Hnp. reflexivity.
      + intros [Hp Hfp]. split; [lia|]. rewrite (Hf p Hp) in Hfp. destruct (nondom p); [reflexivity|discriminate].
    - assumption.
  Qed.

  Lemma occ_flat_dominated cur q : NoDup cur ->
    occ (flat_map dominated cur) q = Z.of_nat (length (filter (fun p => Db p q) cur)).
  Proof.
    unfold occ. intros _. f_equal. induction cur as [|p cur IH]; [reflexivity|].
    cbn [flat_map filter]. rewrite count_occ_app, IH, (count_occ_NoDup _ _ (NoDup_dominated p)).
    destruct (in_dec Nat.eq_dec q (dominated p)) as [Hin|Hni].
    - apply in_dominated in Hin. rewrite Hin. reflexivity.
    - destruct (Db p q) eqn:E; [|reflexivity]. exfalso. apply Hni. apply in_dominated. assumption.
  Qed.

  Lemma flat_map_ext_in' {A B} (f g : A -> list B) (l : list A) :
    (forall a, In a l -> f a = g a) -> flat_map f l = flat_map g l.
  Proof.
    induction l as [|a l IH]; intros He; [reflexivity|]. cbn.
    rewrite (He a (or_introl eq_refl)), IH; [reflexivity|]. intros; apply He; right; assumption.
  Qed.

  Lemma pass_step k cur s : Inv k cur s ->
    exists s' nxt, pass pop (S k) cur s = (s', nxt) /\ Inv (S k) nxt s' /\
      (forall q, frt s' q = None -> frt s q = None) /\
      (forall q, In q nxt <-> q < n /\ frt s q = None /\ frt s' q <> None).
  Proof.
    intros [Hnum Hunn Hnd Hcur Hdom].
    unfold pass. rewrite pass_flat. cbn [fst].
    assert (Hflat : flat_map (dom s) cur = map idAt (flat_map dominated cur)).
    { rewrite <- flat_map_map. apply flat_map_ext_in'. intros p Hp. apply Hdom. apply Hcur in Hp. tauto. }
    rewrite Hflat. set (L := flat_map dominated cur).
    assert (HL : forall q, In q L -> q < n).
    { intros q Hq. apply in_flat_map in Hq. destruct Hq as [p [_ Hq]]. apply in_dominated in Hq.
      apply Db_lt in Hq. tauto. }
    destruct (dec_fold_spec (S k) L s [] HL) as [s' [new [Hf [Hd [Hc [Hk [Hr [Hndn [Hin Hsub]]]]]]]]].
    { intros q Hq Hn. apply (Hunn q Hq Hn). }
    cbn [app] in Hf. exists s', new.
    assert (HoccK : forall q, occ L q = Z.of_nat (length (filter (isK (frt s) k) (dominators q)))).
    { intros q. unfold L. rewrite (occ_flat_dominated cur q Hnd). f_equal. apply Permutation_length.
      apply NoDup_Permutation; [apply NoDup_filter, Hnd|apply NoDup_filter, NoDup_dominators|].
      intros p. rewrite !filter_In, Hcur, in_dominators. unfold isK. split.
      - intros [[Hp Hfp] Hdb]. rewrite Hfp, Nat.eqb_refl. tauto.
      - intros [Hdb Hk']. destruct (frt s p) eqn:E; [|discriminate]. apply Nat.eqb_eq in Hk'. subst.
        destruct (Db_lt _ _ Hdb). tauto. }
    assert (HA : forall q, q < n -> frt s q = None ->
                 cnt s' q = Z.of_nat (length (filter (fun p => is_none (frt s p)) (dominators q))) /\
                 frt s' q = (if length (filter (fun p => is_none (frt s p)) (dominators q)) =? 0
                             then Some (S k) else None)).
    { intros q Hq Hn. destruct (Hunn q Hq Hn) as [Hcq _].
      unfold pendb in Hcq. rewrite filter_length_or in Hcq.
      2:{ intros p _ Hp. unfold isK. destruct (frt s p); [discriminate|reflexivity]. }
      rewrite (Hr q Hq Hn), Hc, HoccK, Hcq.
      set (nN := length (filter (fun p => is_none (frt s p)) (dominators q))).
      set (nK := length (filter (isK (frt s) k) (dominators q))). split; [lia|].
      destruct nN; cbn [Nat.eqb].
      - replace (Z.of_nat (0 + nK) <=? Z.of_nat nK)%Z with true by (symmetry; apply Z.leb_le; lia). reflexivity.
      - replace (Z.of_nat (S nN + nK) <=? Z.of_nat nK)%Z with false by (symmetry; apply Z.leb_gt; lia). reflexivity. }
    assert (Hmono : forall q, frt s' q = None -> frt s q = None).
    { intros q Hq. destruct (frt s q) eqn:E; [rewrite (Hk _ _ E) in Hq; discriminate|reflexivity]. }
    splits; [assumption| |assumption|].
    2:{ intros q. rewrite Hin. split; [|tauto]. intros Hq. split; [|assumption]. apply HL, Hsub, Hin, Hq. }
    split.
    - (* numbered positions *)
      intros q r Hq Hr'. destruct (frt s q) as [r0|] eqn:E.
      + rewrite (Hk _ _ E) in Hr'. inversion Hr'; subst r0. destruct (Hnum q r Hq E) as [Hle [Hall Heq]].
        splits; [lia| |].
        * intros p Hp Hc'. apply (Hall p Hp). apply Hmono. assumption.
        * rewrite Heq. f_equal. f_equal. apply map_ext_in. intros p Hp. unfold fr_at.
          destruct (frt s p) eqn:E2; [rewrite (Hk _ _ E2); reflexivity|exfalso; apply (Hall p Hp E2)].
      + destruct (HA q Hq E) as [_ Hfq]. rewrite Hfq in Hr'.
        destruct (length (filter (fun p => is_none (frt s p)) (dominators q)) =? 0) eqn:E0; [|discriminate].
        inversion Hr'; subst r. apply Nat.eqb_eq in E0.
        assert (Hall : forall p, In p (dominators q) -> exists rp, frt s p = Some rp /\ rp <= k /\ frt s' p = Some rp).
        { intros p Hp. pose proof (filter_length_0 _ _ E0 p Hp) as Hnn. cbn beta in Hnn.
          destruct (frt s p) as [rp|] eqn:E2; [|discriminate]. exists rp. splits; [reflexivity| |apply Hk; assumption].
          apply in_dominators in Hp. destruct (Db_lt _ _ Hp) as [Hpn _]. apply (Hnum p rp Hpn E2). }
        splits; [lia| |].
        * intros p Hp. destruct (Hall p Hp) as [rp [_ [_ E3]]]. congruence.
        * f_equal. symmetry. apply list_max_eq.
          -- intros x Hx. apply in_map_iff in Hx. destruct Hx as [p [Hx Hp]].
             destruct (Hall p Hp) as [rp [_ [Hle E3]]]. unfold fr_at in Hx. rewrite E3 in Hx. lia.
          -- destruct (Hunn q Hq E) as [Hcq H1].
             assert (Hpos : 1 <= length (filter (pendb (frt s) k) (dominators q))) by lia.
             destruct (filter_length_pos _ _ Hpos) as [p [Hp Hpend]]. destruct (Hall p Hp) as [rp [E2 [_ E3]]].
             unfold pendb, isK in Hpend. rewrite E2 in Hpend. cbn in Hpend. apply Nat.eqb_eq in Hpend. subst rp.
             apply in_map_iff. exists p. split; [unfold fr_at; rewrite E3; reflexivity|assumption].
    - (* positions still without a number *)
      intros q Hq Hn'. assert (E := Hmono q Hn'). destruct (HA q Hq E) as [Hcq Hfq]. rewrite Hn' in Hfq.
      destruct (length (filter (fun p => is_none (frt s p)) (dominators q)) =? 0) eqn:E0; [discriminate|].
      apply Nat.eqb_neq in E0. split; [|lia]. rewrite Hcq. f_equal. f_equal. apply filter_ext_in.
      intros p Hp. apply in_dominators in Hp. destruct (Db_lt _ _ Hp) as [Hpn _]. unfold pendb, isK.
      destruct (frt s p) as [rp|] eqn:E2.
      + rewrite (Hk _ _ E2). cbn [is_none orb]. destruct (Hnum p rp Hpn E2) as [Hle _].
        symmetry. apply Nat.eqb_neq. lia.
      + destruct (HA p Hpn E2) as [_ Hfp]. rewrite Hfp.
        destruct (_ =? 0); cbn; [rewrite Nat.eqb_refl|]; reflexivity.
    - assumption.
    - intros p. split; intros Hp.
      + assert (Hpn : p < n) by (apply HL, Hsub, Hp). apply Hin in Hp. destruct Hp as [E Hne].
        split; [assumption|]. destruct (HA p Hpn E) as [_ Hfp]. rewrite Hfp in *.
        destruct (_ =? 0); [reflexivity|congruence].
      + destruct Hp as [Hpn Hfp]. apply Hin. destruct (frt s p) as [r0|] eqn:E; [|split; congruence].
        exfalso. rewrite (Hk _ _ E) in Hfp. inversion Hfp; subst. destruct (Hnum p (S k) Hpn E). lia.
    - intros q Hq. rewrite Hd. apply Hdom; assumption.
  Qed.

  (* fuel: every pass with a non-empty front numbers its members for good *)
  Definition unn (s : st) : nat := length (filter (fun q => is_none (frt s q)) (seq 0 n)).

  Lemma unn_step s s' nxt : NoDup nxt ->
    (forall q, frt s' q = None -> frt s q = None) ->
    (forall q, In q nxt <-> q < n /\ frt s q = None /\ frt s' q <> None) ->
    unn s = unn s' + length nxt.
  Proof.
    intros Hnd Hmono Hin. unfold unn.
    rewrite (filter_ext (fun q => is_none (frt s q))
               (fun q => is_none (frt s' q) || (is_none (frt s q) && negb (is_none (frt s' q))))).
    2:{ intros q. destruct (frt s' q) eqn:E1; cbn; [rewrite andb_true_r; reflexivity|].
        rewrite (Hmono q E1). reflexivity. }
    rewrite filter_length_or.
    2:{ intros q _ Hq. rewrite Hq. rewrite andb_false_r. reflexivity. }
    f_equal. apply Permutation_length. apply NoDup_Permutation; [apply NoDup_filter, seq_NoDup|assumption|].
    intros q. rewrite filter_In, in_seq, Hin, andb_true_iff, negb_true_iff. fold n.
    destruct (frt s q), (frt s' q); cbn; split; intros H; splits; try tauto; try lia; try congruence;
      destruct H as [? [? ?]]; try discriminate; congruence.
  Qed.

  Lemma peel_total : forall fuel k cur s acc, Inv k cur s -> length cur + unn s < fuel ->
    exists s' fronts k', peel fuel pop k cur s acc = Some (s', fronts) /\ Inv k' [] s'.
  Proof.
    induction fuel as [|fuel IH]; intros k cur s acc HI Hfuel; [lia|].
    destruct cur as [|c cur].
    - exists s, acc, k. split; [reflexivity|assumption].
    - cbn [peel]. destruct (pass_step k (c :: cur) s HI) as [s' [nxt [Hp [HI' [Hmono Hin]]]]].
      rewrite Hp. cbn [fst snd].
      apply IH; [assumption|].
      rewrite (unn_step s s' nxt (inv_nd _ _ _ HI') Hmono Hin) in Hfuel. cbn [length] in Hfuel. lia.
  Qed.

  Lemma inv_final k s : Inv k [] s -> forall q, q < n -> frt s q <> None.
  Proof.
    intros [Hnum Hunn Hnd Hcur Hdom].
    assert (Hm : forall m q, length (dominators q) < m -> q < n -> frt s q <> None).
    { induction m as [|m IH]; intros q Hm Hq Hn; [lia|].
      destruct (Hunn q Hq Hn) as [Hc H1].
      assert (Hpos : 1 <= length (filter (pendb (frt s) k) (dominators q))) by lia.
      destruct (filter_length_pos _ _ Hpos) as [p [Hp Hpend]].
      apply in_dominators in Hp. destruct (Db_lt _ _ Hp) as [Hpn _].
      unfold pendb, isK in Hpend. destruct (frt s p) as [r|] eqn:E.
      - cbn in Hpend. apply Nat.eqb_eq in Hpend. subst r. apply (proj2 (Hcur p)). split; assumption.
      - apply (IH p); [|assumption|assumption]. pose proof (dominators_lt _ _ Hp). lia. }
    intros q Hq. apply (Hm (S (length (dominators q)))); [lia|assumption].
  Qed.

  Lemma unn_phase1 : length (snd (phase1 cmp pop)) + unn (fst (phase1 cmp pop)) = n.
  Proof.
    destruct phase1_spec as [_ [_ [Hf Hl]]]. cbv zeta in *. rewrite Hl. unfold unn.
    rewrite (filter_ext_in (fun q => is_none (frt (fst (phase1 cmp pop)) q)) (fun q => negb (nondom q))).
    - rewrite filter_length_compl. apply seq_length.
    - intros q Hq. apply in_seq in Hq. rewrite Hf by (fold n in Hq; lia). destruct (nondom q); reflexivity.
  Qed.

  (* the rank equation, positions *)
  Theorem fnds_run_rank :
    exists s fronts, fnds_run cmp pop = Some (s, fronts) /\
      forall q, q < n -> frt s q = Some (S (list_max (map (fr_at (frt s)) (dominators q)))).
  Proof.
    unfold fnds_run. fold n.
    destruct (peel_total (S n) 1 (snd (phase1 cmp pop)) (fst (phase1 cmp pop)) [] inv_phase1) as [s [fronts [k [Hp HI]]]].
    { rewrite unn_phase1. lia. }
    exists s, fronts. split; [assumption|]. intros q Hq.
    destruct (frt s q) as [r|] eqn:E; [|exfalso; apply (inv_final k s HI q Hq E)].
    destruct (inv_num _ _ _ HI q r Hq E) as [_ [_ Heq]]. rewrite Heq. reflexivity.
  Qed.
End Rel.

(* ------------------------------------------------------------------------------------------ *)
(* (6) the property on the observed list of front numbers, and its corollaries                 *)
(* ------------------------------------------------------------------------------------------ *)
Definition rank_at (fr : list (option nat)) (j : nat) : nat :=
  match nth j fr None with Some k => k | None => 0 end.

Lemma nth_map_seq {A} (f : nat -> A) (n i : nat) (d : A) : i < n -> nth i (map f (seq 0 n)) d = f i.
Proof.
  intros Hi. rewrite (nth_indep _ d (f 0)) by (rewrite map_length, seq_length; assumption).
  rewrite map_nth, seq_nth by assumption. reflexivity.
Qed.

Section Main.
  Context {C : Type} (cmp : C -> C -> nat).
  Hypothesis cmp_antisym : forall p q, cmp q p = swap (cmp p q).

  (* fr labels every position with 1 + the largest label among its dominators (1 if there is none) *)
  Definition is_ranking (pop : list (ind C)) (fr : list (option nat)) : Prop :=
    length fr = length pop /\
    forall i, i < length pop ->
      nth i fr None = Some (S (list_max (map (rank_at fr) (dominators cmp pop i)))).

  Theorem fnds_rank pop : trans_on cmp (map cost pop) -> NoDup (map iid pop) ->
    exists fr, fnds cmp pop = Some fr /\ is_ranking pop fr.
  Proof.
    intros Ht Hnd. destruct (fnds_run_rank cmp cmp_antisym pop Ht Hnd) as [s [fronts [Hrun Hq]]].
    exists (map (frt s) (seq 0 (length pop))). unfold fnds. rewrite Hrun. split; [reflexivity|]. split.
    - rewrite map_length, seq_length. reflexivity.
    - intros i Hi. rewrite nth_map_seq by assumption. rewrite (Hq i Hi). f_equal. f_equal. f_equal.
      apply map_ext_in. intros p Hp. apply in_dominators in Hp. destruct (Db_lt _ _ _ _ Hp) as [Hpn _].
      unfold rank_at, fr_at. rewrite nth_map_seq by assumption. reflexivity.
  Qed.

  Lemma ranking_pos pop fr i : is_ranking pop fr -> i < length pop -> 1 <= rank_at fr i.
  Proof. intros [_ Hr] Hi. unfold rank_at. rewrite (Hr i Hi). lia. Qed.

  Lemma ranking_lt pop fr i j : is_ranking pop fr -> Db cmp pop j i = true -> rank_at fr j < rank_at fr i.
  Proof.
    intros [Hl Hr] Hd. destruct (Db_lt _ _ _ _ Hd) as [Hj Hi]. unfold rank_at at 2. rewrite (Hr i Hi).
    apply Nat.lt_succ_r. apply list_max_ge. apply in_map. apply in_dominators. assumption.
  Qed.

  Theorem front1_is_nondominated_set pop fr i : is_ranking pop fr -> i < length pop ->
    (nth i fr None = Some 1 <-> dominators cmp pop i = []).
  Proof.
    intros HR Hi. destruct HR as [Hl Hr]. rewrite (Hr i Hi). split.
    - intros E. inversion E as [E1]. destruct (dominators cmp pop i) as [|j l] eqn:Ed; [reflexivity|exfalso].
      assert (Hj : In j (dominators cmp pop i)) by (rewrite Ed; left; reflexivity).
      apply in_dominators in Hj. destruct (Db_lt _ _ _ _ Hj) as [Hjn _].
      pose proof (ranking_pos pop fr j (conj Hl Hr) Hjn) as Hpos.
      assert (Hge : rank_at fr j <= list_max (map (rank_at fr) (j :: l))) by (apply list_max_ge; left; reflexivity).
      lia.
    - intros ->. reflexivity.
  Qed.

  Theorem same_front_no_domination pop fr i j : is_ranking pop fr ->
    nth i fr None = nth j fr None -> ~ In j (dominators cmp pop i).
  Proof.
    intros HR E Hj. apply in_dominators in Hj. pose proof (ranking_lt pop fr i j HR Hj) as Hlt.
    unfold rank_at in Hlt. rewrite E in Hlt. lia.
  Qed.

  Lemma Db_inv pop j i : Db cmp pop j i = true <->
    exists c a, nth_error pop j = Some c /\ nth_error pop i = Some a /\ cmp (cost c) (cost a) = 1.
  Proof.
    unfold Db. split.
    - destruct (nth_error pop j) as [c|]; [|discriminate]. destruct (nth_error pop i) as [a|]; [|discriminate].
      intros E. apply Nat.eqb_eq in E. exists c, a. auto.
    - intros [c [a [-> [-> E]]]]. apply Nat.eqb_eq. assumption.
  Qed.

  (* the labelling depends only on the cost vector of the member and on the SET of cost vectors present *)
  Theorem ranking_cost_only pop pop' fr fr' :
    trans_on cmp (map cost pop) ->
    (forall c, In c (map cost pop) <-> In c (map cost pop')) ->
    is_ranking pop fr -> is_ranking pop' fr' ->
    forall i i' a b, nth_error pop i = Some a -> nth_error pop' i' = Some b -> cost a = cost b ->
      nth i fr None = nth i' fr' None.
  Proof.
    intros Ht Hset HR HR'.
    assert (Hm : forall m i i' a b, length (dominators cmp pop i) < m ->
              nth_error pop i = Some a -> nth_error pop' i' = Some b -> cost a = cost b ->
              nth i fr None = nth i' fr' None).
    { induction m as [|m IH]; intros i i' a b Hlen Ha Hb Hab; [lia|].
      assert (Hi : i < length pop) by (apply nth_error_Some; congruence).
      assert (Hi' : i' < length pop') by (apply nth_error_Some; congruence).
      rewrite (proj2 HR i Hi), (proj2 HR' i' Hi'). f_equal. f_equal. apply list_max_same_set.
      - intros x Hx. apply in_map_iff in Hx. destruct Hx as [j [<- Hj]]. apply in_dominators in Hj.
        pose proof (dominators_lt cmp cmp_antisym pop Ht _ _ Hj) as Hlt.
        apply Db_inv in Hj. destruct Hj as [c [a0 [Hc [Ha0 Hca]]]]. rewrite Ha in Ha0. inversion Ha0; subst a0.
        assert (Hin : In (cost c) (map cost pop')) by (apply Hset, in_map; eapply nth_error_In; eassumption).
        apply in_map_iff in Hin. destruct Hin as [c' [Hcc Hin]]. apply In_nth_error in Hin. destruct Hin as [j' Hj'].
        apply in_map_iff. exists j'. split.
        + unfold rank_at. rewrite (IH j j' c c'); [reflexivity|lia|assumption|assumption|congruence].
        + apply in_dominators. apply Db_inv. exists c', b. splits; [assumption|assumption|]. rewrite Hcc, <- Hab. assumption.
      - intros x Hx. apply in_map_iff in Hx. destruct Hx as [j' [<- Hj']]. apply in_dominators in Hj'.
        apply Db_inv in Hj'. destruct Hj' as [c' [b0 [Hc' [Hb0 Hcb]]]]. rewrite Hb in Hb0. inversion Hb0; subst b0.
        assert (Hin : In (cost c') (map cost pop)) by (apply Hset, in_map; eapply nth_error_In; eassumption).
        apply in_map_iff in Hin. destruct Hin as [c [Hcc Hin]]. apply In_nth_error in Hin. destruct Hin as [j Hj].
        assert (Hd : Db cmp pop j i = true).
        { apply Db_inv. exists c, a. splits; [assumption|assumption|]. rewrite Hcc, Hab. assumption. }
        pose proof (dominators_lt cmp cmp_antisym pop Ht _ _ Hd) as Hlt.
        apply in_map_iff. exists j. split.
        + unfold rank_at. rewrite (IH j j' c c'); [reflexivity|lia|assumption|assumption|assumption].
        + apply in_dominators. assumption. }
    intros i i' a b. apply (Hm (S (length (dominators cmp pop i)))). lia.
  Qed.

  (* the rank equation has exactly one solution *)
  Theorem rank_unique pop fr fr' : trans_on cmp (map cost pop) ->
    is_ranking pop fr -> is_ranking pop fr' -> fr = fr'.
  Proof.
    intros Ht HR HR'. apply (nth_ext fr fr' None None); [rewrite (proj1 HR), (proj1 HR'); reflexivity|].
    intros i Hi. rewrite (proj1 HR) in Hi. destruct (nth_error pop i) as [a|] eqn:Ea.
    - apply (ranking_cost_only pop pop fr fr' Ht (fun c => iff_refl _) HR HR' i i a a Ea Ea eq_refl).
    - apply nth_error_None in Ea. lia.
  Qed.

  Lemma trans_on_set (l l' : list C) : (forall c, In c l' -> In c l) -> trans_on cmp l -> trans_on cmp l'.
  Proof. intros Hs Ht p q r Hp Hq Hr. apply Ht; apply Hs; assumption. Qed.

  (* every input order: a member gets the same front number wherever it stands *)
  Theorem fnds_order_independent pop pop' fr fr' :
    trans_on cmp (map cost pop) -> NoDup (map iid pop) -> Permutation pop pop' ->
    fnds cmp pop = Some fr -> fnds cmp pop' = Some fr' ->
    forall i i' x, nth_error pop i = Some x -> nth_error pop' i' = Some x -> nth i fr None = nth i' fr' None.
  Proof.
    intros Ht Hnd Hperm Hf Hf' i i' x Hi Hi'.
    assert (Hpc : Permutation (map cost pop) (map cost pop')) by (apply Permutation_map; assumption).
    assert (Ht' : trans_on cmp (map cost pop')).
    { apply (trans_on_set (map cost pop)); [|assumption]. intros c Hc. apply (Permutation_in c (Permutation_sym Hpc) Hc). }
    assert (Hnd' : NoDup (map iid pop')).
    { apply (Permutation_NoDup (l := map iid pop)); [apply Permutation_map|]; assumption. }
    destruct (fnds_rank pop Ht Hnd) as [fr0 [E0 HR]]. destruct (fnds_rank pop' Ht' Hnd') as [fr0' [E0' HR']].
    rewrite Hf in E0. rewrite Hf' in E0'. inversion E0; inversion E0'; subst fr0 fr0'.
    assert (Hset : forall c, In c (map cost pop) <-> In c (map cost pop')).
    { intros c. split; intros Hc; [apply (Permutation_in c Hpc Hc)|apply (Permutation_in c (Permutation_sym Hpc) Hc)]. }
    apply (ranking_cost_only pop pop' fr fr' Ht Hset HR HR' i i' x x Hi Hi' eq_refl).
  Qed.
End Main.

(* ------------------------------------------------------------------------------------------ *)
(* (7) statements in the form used by Props/C02.v: any lawful comparator, then ParetoDominance  *)
(* ------------------------------------------------------------------------------------------ *)
Section Statements.
  Context {C : Type} (cmp : C -> C -> nat).
  Hypothesis cmp_antisym : forall p q, cmp q p = swap (cmp p q).

  Lemma fnds_is_ranking pop fr : trans_on cmp (map cost pop) -> NoDup (map iid pop) ->
    fnds cmp pop = Some fr -> is_ranking cmp pop fr.
  Proof.
    intros Ht Hnd Hf. destruct (fnds_rank cmp cmp_antisym pop Ht Hnd) as [fr0 [E0 HR]].
    rewrite Hf in E0. inversion E0; subst. assumption.
  Qed.

  Lemma fnds_total pop : trans_on cmp (map cost pop) -> NoDup (map iid pop) ->
    exists fr, fnds cmp pop = Some fr /\ length fr = length pop /\
      forall i, i < length pop -> exists k, nth i fr None = Some k /\ 1 <= k.
  Proof.
    intros Ht Hnd. destruct (fnds_rank cmp cmp_antisym pop Ht Hnd) as [fr [E [Hl Hr]]].
    exists fr. splits; [assumption|assumption|]. intros i Hi. rewrite (Hr i Hi). eexists. split; [reflexivity|lia].
  Qed.

  Lemma dominators_spec pop i j : In j (dominators cmp pop i) <->
    exists c a, nth_error pop j = Some c /\ nth_error pop i = Some a /\ cmp (cost c) (cost a) = 1.
  Proof. rewrite in_dominators. apply Db_inv. Qed.
End Statements.

Section ParetoInst.
  Context {T : Type} (ltb : T -> T -> bool) (H : Ord.SWO ltb).

  Definition uniform_len (pop : list (ind (list T * Z))) : Prop :=
    forall x y, In x pop -> In y pop -> length (fst (cost x)) = length (fst (cost y)).

  Lemma pareto_trans_on pop : uniform_len pop -> trans_on (Dominance.pareto_compare ltb) (map cost pop).
  Proof.
    intros Hu p q r Hp Hq Hr. apply in_map_iff in Hp, Hq, Hr.
    destruct Hp as [x [<- Hx]], Hq as [y [<- Hy]], Hr as [z [<- Hz]].
    apply (pareto_trans ltb H); unfold same_len; apply Hu; assumption.
  Qed.
End ParetoInst.
