(* Proofs about Model/Surrogate.v: accounting of the surrogate wrappers, for every request
   sequence, every accept/decline pattern of the hook, every train_step, every train() oracle
   and every starting state. *)
From Coq Require Import List ZArith Bool Lia ZifyBool.
From Artap Require Import Model.Surrogate.
Import ListNotations.
Local Open Scope nat_scope.

Section SurrogateProofs.
  Context {V C : Type}.
  Notation req := (req V C).
  Notation state := (state V C).
  Notation outcome := (outcome C).

  Definition is_eval (k : kind) : bool := match k with KEval => true | KPred => false end.
  Definition vec_of {A B : Type} (e : V * A * B) : V := fst (fst e).
  Definition cnt_of {A B : Type} (e : nat * A * B) : nat := fst (fst e).

  (* the requests of a sequence that were answered by the true objective, in order *)
  Definition evaluated (reqs : list req) (outs : list (kind * outcome)) : list req :=
    map fst (filter (fun p => is_eval (fst (snd p))) (combine reqs outs)).
  Definition predicted (reqs : list req) (outs : list (kind * outcome)) : list req :=
    map fst (filter (fun p => negb (is_eval (fst (snd p)))) (combine reqs outs)).

  (* ---------------------------------------------------------------- generic facts on run *)
  Lemma run_app (step : state -> req -> state * (kind * outcome)) : forall a b s,
    run step s (a ++ b) =
      let '(s1, o1) := run step s a in let '(s2, o2) := run step s1 b in (s2, o1 ++ o2).
  Proof.
    induction a as [|r a IH]; intros b s; cbn.
    - destruct (run step s b); reflexivity.
    - destruct (step s r) as [s1 o]. rewrite IH.
      destruct (run step s1 a) as [s2 o1]. destruct (run step s2 b) as [s3 o2]. reflexivity.
  Qed.

  Lemma run_length (step : state -> req -> state * (kind * outcome)) : forall (reqs : list req) (s : state),
    length (snd (run step s reqs)) = length reqs.
  Proof.
    induction reqs as [|r rs IH]; intros s; cbn; [reflexivity|].
    destruct (step s r) as [s1 o]. specialize (IH s1). destruct (run step s1 rs). cbn in *. lia.
  Qed.

  (* every request of every sequence is answered by `step` in the state its prefix leads to *)
  Lemma run_request (step : state -> req -> state * (kind * outcome)) : forall pre r post s0,
    let s := fst (run step s0 pre) in
    nth_error (snd (run step s0 (pre ++ r :: post))) (length pre) = Some (snd (step s r)) /\
    fst (run step s0 (pre ++ [r])) = fst (step s r).
  Proof.
    intros pre r post s0. cbn zeta. split.
    - rewrite run_app. pose proof (run_length step pre s0) as L.
      destruct (run step s0 pre) as [s1 o1]. cbn in *.
      destruct (step s1 r) as [s2 o]. destruct (run step s2 post) as [s3 o2]. cbn.
      rewrite nth_error_app2 by lia. rewrite <- L, Nat.sub_diag. reflexivity.
    - rewrite run_app. destruct (run step s0 pre) as [s1 o1]. cbn.
      destruct (step s1 r) as [s2 o]. reflexivity.
  Qed.

  (* ---------------------------------------------------------------- pass-through wrapper *)
  Lemma passthrough_step (s : state) (r : req) :
    let s' := fst (passthrough_evaluate s r) in
    snd (passthrough_evaluate s r) = (KEval, Ret (r_true r)) /\
    eval_counter s' = S (eval_counter s) /\ predict_counter s' = predict_counter s /\
    obj_log s' = obj_log s ++ [(r_vec r, length (x_data s), S (eval_counter s))] /\
    x_data s' = x_data s /\ y_data s' = y_data s /\ train_log s' = train_log s /\
    hook_log s' = hook_log s /\ trained s' = trained s.
  Proof. cbn. repeat split. Qed.

  Theorem passthrough_exact : forall (reqs : list req) (s : state),
    let s' := fst (run passthrough_evaluate s reqs) in
    snd (run passthrough_evaluate s reqs) = map (fun r => (KEval, Ret (r_true r))) reqs /\
    eval_counter s' = eval_counter s + length reqs /\
    predict_counter s' = predict_counter s /\
    map vec_of (obj_log s') = map vec_of (obj_log s) ++ map r_vec reqs /\
    x_data s' = x_data s /\ y_data s' = y_data s /\ train_log s' = train_log s /\
    hook_log s' = hook_log s /\ trained s' = trained s.
  Proof.
    induction reqs as [|r rs IH]; intros s; cbn zeta.
    - cbn. rewrite app_nil_r. repeat split; lia.
    - cbn [run]. destruct (passthrough_evaluate s r) as [s1 o] eqn:E.
      pose proof (passthrough_step s r) as P. rewrite E in P. cbn in P.
      destruct P as (Po & Pe & Pp & Pl & Px & Py & Pt & Ph & Ptr).
      specialize (IH s1). destruct (run passthrough_evaluate s1 rs) as [s2 os]. cbn in *.
      destruct IH as (Io & Ie & Ip & Il & Ix & Iy & It & Ih & Itr).
      rewrite Io, Po, Ie, Pe, Ip, Pp, Il, Pl, Ix, Px, Iy, Py, It, Pt, Ih, Ph, Itr, Ptr.
      rewrite map_app, <- app_assoc. cbn. repeat split; lia.
  Qed.

  (* ---------------------------------------------------------------- predicting wrapper *)
  Variable train_step : Z.
  Variable has_hook : bool.
  Variable train_out : nat -> bool.
  Notation step := (predict_evaluate train_step has_hook train_out).

  (* the retraining condition of the code: train_step is not -1 and divides the counter
     (for 0 the modulo raises before anything is trained) *)
  Definition fires (k : nat) : bool :=
    negb (train_step =? -1)%Z && negb (train_step =? 0)%Z && (Z.of_nat k mod train_step =? 0)%Z.

  Lemma evaluate_individual_spec (s : state) (r : req) :
    let s' := fst (evaluate_individual train_step train_out s r) in
    let o := snd (evaluate_individual train_step train_out s r) in
    obj_log s' = obj_log s ++ [(r_vec r, length (x_data s), eval_counter s)] /\
    eval_counter s' = S (eval_counter s) /\ predict_counter s' = predict_counter s /\
    x_data s' = x_data s ++ [r_vec r] /\ y_data s' = y_data s ++ [r_true r] /\
    hook_log s' = hook_log s /\
    (train_step <> 0%Z -> o = Ret (r_true r)) /\ (train_step = 0%Z -> o = Raised) /\
    (if fires (S (eval_counter s))
     then train_log s' = train_log s ++ [(S (eval_counter s), S (length (x_data s)), S (length (y_data s)))] /\
          trained s' = train_out (length (train_log s))
     else train_log s' = train_log s /\ trained s' = trained s).
  Proof.
    unfold evaluate_individual, fires. cbn zeta.
    destruct (train_step =? -1)%Z eqn:E1; cbn.
    - repeat split; try congruence. intros ->. discriminate.
    - destruct (train_step =? 0)%Z eqn:E2; cbn.
      + repeat split; try congruence. intros N. lia.
      + change (Z.pos (Pos.of_succ_nat (eval_counter s))) with (Z.of_nat (S (eval_counter s))).
        destruct (Z.of_nat (S (eval_counter s)) mod train_step =? 0)%Z eqn:E3; cbn;
          rewrite ?app_length; cbn; rewrite ?Nat.add_1_r; repeat split; try congruence; intros N; lia.
  Qed.

  (* one request: either a prediction, possible only in a trained state with a hook that
     answers, or exactly one true evaluation *)
  Theorem step_cases (s : state) (r : req) :
    let s' := fst (step s r) in
    let k := fst (snd (step s r)) in
    let o := snd (snd (step s r)) in
    (* prediction *)
    (k = KPred /\ trained s = true /\ has_hook = true /\
     (exists v, r_hook r = Some v /\ o = Ret v) /\
     predict_counter s' = S (predict_counter s) /\ eval_counter s' = eval_counter s /\
     obj_log s' = obj_log s /\ x_data s' = x_data s /\ y_data s' = y_data s /\
     train_log s' = train_log s /\ trained s' = trained s /\
     hook_log s' = hook_log s ++ [(r_vec r, eval_counter s, predict_counter s)])
    \/
    (* true evaluation *)
    (k = KEval /\ (trained s && has_hook = false \/ r_hook r = None) /\
     obj_log s' = obj_log s ++ [(r_vec r, length (x_data s), eval_counter s)] /\
     (train_step <> 0%Z -> o = Ret (r_true r)) /\ (train_step = 0%Z -> o = Raised) /\
     eval_counter s' = S (eval_counter s) /\ predict_counter s' = predict_counter s /\
     x_data s' = x_data s ++ [r_vec r] /\ y_data s' = y_data s ++ [r_true r] /\
     hook_log s' = (if trained s && has_hook
                    then hook_log s ++ [(r_vec r, eval_counter s, predict_counter s)] else hook_log s) /\
     (if fires (S (eval_counter s))
      then train_log s' = train_log s ++ [(S (eval_counter s), S (length (x_data s)), S (length (y_data s)))] /\
           trained s' = train_out (length (train_log s))
      else train_log s' = train_log s /\ trained s' = trained s)).
  Proof.
    unfold predict_evaluate. cbn zeta.
    destruct (trained s && has_hook) eqn:TH.
    - destruct (r_hook r) as [v|] eqn:HK.
      + left. apply andb_true_iff in TH as [T Hh]. cbn.
        repeat split; try assumption. exists v. split; reflexivity.
      + right.
        pose proof (evaluate_individual_spec (log_hook s (r_vec r)) r) as P. cbn zeta in P.
        destruct (evaluate_individual train_step train_out (log_hook s (r_vec r)) r) as [s2 o].
        cbn in *. destruct P as (A1 & A2 & A3 & A4 & A5 & A6 & A7 & A8 & A9).
        repeat split; try assumption. right; reflexivity.
    - right.
      pose proof (evaluate_individual_spec s r) as P. cbn zeta in P.
      destruct (evaluate_individual train_step train_out s r) as [s2 o].
      cbn in *. destruct P as (A1 & A2 & A3 & A4 & A5 & A6 & A7 & A8 & A9).
      repeat split; try assumption. left; reflexivity.
  Qed.

  Theorem prediction_only_if_trained_and_hook (s : state) (r : req) :
    let s' := fst (step s r) in
    let k := fst (snd (step s r)) in
    let o := snd (snd (step s r)) in
    (* the three ways of seeing that the objective was not used coincide ... *)
    (k = KPred <-> obj_log s' = obj_log s) /\
    (k = KPred <-> predict_counter s' <> predict_counter s) /\
    (k = KPred <-> eval_counter s' = eval_counter s) /\
    (* ... and happen exactly in a trained state whose hook answers; the answer is returned *)
    (k = KPred <-> trained s = true /\ has_hook = true /\ r_hook r <> None) /\
    (k = KPred -> exists v, r_hook r = Some v /\ o = Ret v /\
                  predict_counter s' = S (predict_counter s) /\
                  x_data s' = x_data s /\ y_data s' = y_data s /\ train_log s' = train_log s /\
                  trained s' = trained s) /\
    (* the hook is consulted exactly in trained states *)
    (hook_log s' = if trained s && has_hook
                   then hook_log s ++ [(r_vec r, eval_counter s, predict_counter s)] else hook_log s).
  Proof.
    pose proof (step_cases s r) as P. cbn zeta in *.
    set (st := step s r) in *. clearbody st.
    destruct P as [(K & T & Hh & (v & Hv & Ho) & Pc & Ec & Ol & Xd & Yd & Tl & Tr & Hl)
                  |(K & Why & Ol & _ & _ & Ec & Pc & Xd & Yd & Hl & _)].
    - rewrite K, Pc, Ec, Ol, T, Hh, Hv, Hl. cbn.
      repeat split; try reflexivity; try congruence; try lia.
      exists v. repeat split; first [assumption | reflexivity | congruence].
    - rewrite K, Pc, Ec, Ol, Hl.
      repeat split; try discriminate; try congruence; try lia.
      + intros E. exfalso. apply (f_equal (@length _)) in E. rewrite app_length in E. cbn in E. lia.
      + intros (T & Hh & N). destruct Why as [W|W]; [rewrite T, Hh in W; discriminate|congruence].
  Qed.

  Theorem true_eval_once_unchanged_counted_recorded (s : state) (r : req) :
    let s' := fst (step s r) in
    let k := fst (snd (step s r)) in
    let o := snd (snd (step s r)) in
    k = KEval ->
    (* exactly one objective call, made before counting and recording *)
    obj_log s' = obj_log s ++ [(r_vec r, length (x_data s), eval_counter s)] /\
    (* returned unchanged (train_step = 0 makes the modulo raise instead) *)
    (train_step <> 0%Z -> o = Ret (r_true r)) /\ (train_step = 0%Z -> o = Raised) /\
    (* counted once, not as a prediction *)
    eval_counter s' = S (eval_counter s) /\ predict_counter s' = predict_counter s /\
    (* the pair appended once, at the end *)
    x_data s' = x_data s ++ [r_vec r] /\ y_data s' = y_data s ++ [r_true r].
  Proof.
    pose proof (step_cases s r) as P. cbn zeta in *. intros K.
    destruct P as [(K' & _)|(_ & _ & Ol & O1 & O2 & Ec & Pc & Xd & Yd & _)]; [congruence|].
    repeat split; assumption.
  Qed.

  Theorem retrain_step (s : state) (r : req) :
    let s' := fst (step s r) in
    let k := fst (snd (step s r)) in
    (if is_eval k && fires (eval_counter s')
     then train_log s' = train_log s ++ [(eval_counter s', length (x_data s'), length (y_data s'))] /\
          trained s' = train_out (length (train_log s))
     else train_log s' = train_log s /\ trained s' = trained s).
  Proof.
    pose proof (step_cases s r) as P. cbn zeta in *.
    destruct P as [(K & _ & _ & _ & _ & _ & _ & _ & _ & Tl & Tr & _)
                  |(K & _ & _ & _ & _ & Ec & _ & Xd & Yd & _ & F)].
    - rewrite K. cbn. split; assumption.
    - rewrite K, Ec, Xd, Yd, !app_length. cbn. rewrite !Nat.add_1_r. exact F.
  Qed.

  Lemma fires_never_minus_one k : train_step = (-1)%Z -> fires k = false.
  Proof. unfold fires. intros ->. reflexivity. Qed.
  Lemma fires_never_zero k : train_step = 0%Z -> fires k = false.
  Proof. unfold fires. intros ->. reflexivity. Qed.
  Lemma fires_divides k : train_step <> (-1)%Z -> train_step <> 0%Z ->
    (fires k = true <-> (train_step | Z.of_nat k)%Z).
  Proof.
    intros N1 N0. unfold fires.
    destruct (train_step =? -1)%Z eqn:E1; [lia|]. destruct (train_step =? 0)%Z eqn:E2; [lia|]. cbn.
    rewrite Z.eqb_eq. apply Z.mod_divide. assumption.
  Qed.
  Lemma fires_positive k : (0 < train_step)%Z ->
    (fires k = true <-> k mod Z.to_nat train_step = 0).
  Proof.
    intros P. rewrite fires_divides by lia.
    rewrite <- Z.mod_divide by lia.
    replace train_step with (Z.of_nat (Z.to_nat train_step)) at 1 by lia.
    rewrite <- Nat2Z.inj_mod. lia.
  Qed.

  (* ------------------------------------------------------------ whole sequences *)
  Lemma filter_seq_S (f : nat -> bool) a n :
    filter f (seq a (S n)) = (if f a then [a] else []) ++ filter f (seq (S a) n).
  Proof. cbn. destruct (f a); reflexivity. Qed.

  Theorem run_spec : forall (reqs : list req) (s : state),
    let s' := fst (run step s reqs) in
    let outs := snd (run step s reqs) in
    let ev := evaluated reqs outs in
    length outs = length reqs /\
    eval_counter s' = eval_counter s + length ev /\
    predict_counter s' = predict_counter s + length (predicted reqs outs) /\
    length ev + length (predicted reqs outs) = length reqs /\
    x_data s' = x_data s ++ map r_vec ev /\
    y_data s' = y_data s ++ map r_true ev /\
    map vec_of (obj_log s') = map vec_of (obj_log s) ++ map r_vec ev /\
    map cnt_of (train_log s') =
      map cnt_of (train_log s) ++ filter fires (seq (S (eval_counter s)) (length ev)).
  Proof.
    induction reqs as [|r rs IH]; intros s; cbn zeta.
    - cbn. rewrite !app_nil_r. repeat split; lia.
    - cbn [run].
      pose proof (step_cases s r) as P. pose proof (retrain_step s r) as R. cbn zeta in P, R.
      destruct (step s r) as [s1 [k o]]. cbn [fst snd] in P, R.
      specialize (IH s1). cbn zeta in IH.
      destruct (run step s1 rs) as [s2 os]. cbn [fst snd] in *.
      destruct IH as (I0 & I1 & I2 & I3 & I4 & I5 & I6 & I7).
      unfold evaluated, predicted in *. cbn [combine filter fst snd].
      destruct P as [(K & _ & _ & _ & Pc & Ec & Ol & Xd & Yd & Tl & _)
                    |(K & _ & Ol & _ & _ & Ec & Pc & Xd & Yd & _)].
      + subst k. cbn [is_eval negb map length] in *. destruct R as [R _].
        rewrite I1, I2, I4, I5, I6, I7, Pc, Ec, Ol, Xd, Yd, R.
        repeat split; try reflexivity; cbn; lia.
      + subst k. cbn [is_eval negb map length andb] in *.
        rewrite I1, I2, I4, I5, I6, I7, Pc, Ec, Ol, Xd, Yd.
        rewrite filter_seq_S. rewrite Ec in R.
        rewrite !map_app, <- !app_assoc. cbn [map app].
        repeat split; try reflexivity; try (cbn; lia).
        destruct (fires (S (eval_counter s))).
        * destruct R as [R _]. rewrite R, map_app, <- app_assoc. reflexivity.
        * destruct R as [R _]. rewrite R. reflexivity.
  Qed.

  (* how every request of a sequence was answered *)
  Definition answered_ok (r : req) (ko : kind * outcome) : Prop :=
    match fst ko with
    | KPred => has_hook = true /\ exists v, r_hook r = Some v /\ snd ko = Ret v
    | KEval => (train_step <> 0%Z -> snd ko = Ret (r_true r)) /\ (train_step = 0%Z -> snd ko = Raised)
    end.

  Theorem run_answers : forall (reqs : list req) (s : state),
    Forall (fun p => answered_ok (fst p) (snd p)) (combine reqs (snd (run step s reqs))).
  Proof.
    induction reqs as [|r rs IH]; intros s; cbn [run]; [constructor|].
    pose proof (step_cases s r) as P. cbn zeta in P.
    destruct (step s r) as [s1 [k o]]. cbn [fst snd] in P.
    specialize (IH s1). destruct (run step s1 rs) as [s2 os]. cbn [fst snd combine] in *.
    constructor; [|exact IH]. unfold answered_ok. cbn [fst snd].
    destruct P as [(K & _ & Hh & Ex & _)|(K & _ & _ & O1 & O2 & _)]; subst k.
    - split; assumption.
    - split; assumption.
  Qed.

  Theorem counters_add_up : forall (reqs : list req) (s : state),
    let s' := fst (run step s reqs) in
    eval_counter s' + predict_counter s' = eval_counter s + predict_counter s + length reqs.
  Proof.
    intros reqs s. pose proof (run_spec reqs s) as P. cbn zeta in *.
    destruct P as (_ & I1 & I2 & I3 & _). lia.
  Qed.

  (* the training set stays aligned: same length, and from a fresh wrapper its length is the
     evaluation counter *)
  Theorem data_aligned : forall (reqs : list req) (s : state),
    let s' := fst (run step s reqs) in
    (length (x_data s) = length (y_data s) -> length (x_data s') = length (y_data s')) /\
    (length (x_data s) = eval_counter s -> length (x_data s') = eval_counter s') /\
    (x_data s = [] -> y_data s = [] ->
     combine (x_data s') (y_data s') =
       map (fun r => (r_vec r, r_true r)) (evaluated reqs (snd (run step s reqs)))).
  Proof.
    intros reqs s. pose proof (run_spec reqs s) as P. cbn zeta in *.
    destruct P as (_ & I1 & _ & _ & I4 & I5 & _). rewrite I4, I5, I1, !app_length, !map_length.
    repeat split; try lia.
    intros -> ->. cbn. generalize (evaluated reqs (snd (run step s reqs))).
    induction l as [|a l IHl]; cbn; [reflexivity|]. rewrite IHl. reflexivity.
  Qed.

  Theorem retrain_schedule : forall (reqs : list req) (s : state),
    let s' := fst (run step s reqs) in
    map cnt_of (train_log s') =
      map cnt_of (train_log s) ++
      filter fires (seq (S (eval_counter s)) (eval_counter s' - eval_counter s)).
  Proof.
    intros reqs s. pose proof (run_spec reqs s) as P. cbn zeta in *.
    destruct P as (_ & I1 & _ & _ & _ & _ & _ & I7). rewrite I7, I1.
    replace (eval_counter s + _ - eval_counter s) with
      (length (evaluated reqs (snd (run step s reqs)))) by lia.
    reflexivity.
  Qed.

  Theorem never_retrained_for_minus_one : forall (reqs : list req) (s : state), train_step = (-1)%Z ->
    train_log (fst (run step s reqs)) = train_log s /\ trained (fst (run step s reqs)) = trained s.
  Proof.
    intros reqs s E. revert s. induction reqs as [|r rs IH]; intros s; cbn [run]; [split; reflexivity|].
    pose proof (retrain_step s r) as R. cbn zeta in R.
    destruct (step s r) as [s1 [k o]]. cbn [fst snd] in R.
    rewrite (fires_never_minus_one _ E), andb_false_r in R. destruct R as [R1 R2].
    specialize (IH s1). destruct (run step s1 rs) as [s2 os]. cbn [fst snd] in *.
    destruct IH as [I1 I2]. split; congruence.
  Qed.

  (* ------------------------------------------------------------ seeding the training set *)
  (* read_from_data_store appends (vector, costs) of every individual of the problem, in order,
     and touches neither the counters, nor `trained`, nor any call log *)
  Theorem read_from_data_store_spec : forall (inds : list (V * C)) (s : state),
    let s' := read_from_data_store s inds in
    x_data s' = x_data s ++ map fst inds /\ y_data s' = y_data s ++ map snd inds /\
    eval_counter s' = eval_counter s /\ predict_counter s' = predict_counter s /\
    trained s' = trained s /\ train_log s' = train_log s /\ obj_log s' = obj_log s /\
    hook_log s' = hook_log s.
  Proof.
    unfold read_from_data_store.
    induction inds as [|p inds IH]; intros s; cbn zeta.
    - cbn. rewrite !app_nil_r. repeat split.
    - cbn [fold_left]. specialize (IH (add_data s (fst p) (snd p))). cbn zeta in IH.
      destruct IH as (I1 & I2 & I3 & I4 & I5 & I6 & I7 & I8).
      rewrite I1, I2, I3, I4, I5, I6, I7, I8. cbn. rewrite <- !app_assoc. repeat split.
  Qed.

  (* a user call of train(): only the train log and `trained` change *)
  Theorem user_train_spec (s : state) :
    let s' := do_train train_out s in
    train_log s' = train_log s ++ [(eval_counter s, length (x_data s), length (y_data s))] /\
    trained s' = train_out (length (train_log s)) /\
    eval_counter s' = eval_counter s /\ predict_counter s' = predict_counter s /\
    x_data s' = x_data s /\ y_data s' = y_data s /\ obj_log s' = obj_log s /\ hook_log s' = hook_log s.
  Proof. cbn. repeat split. Qed.

  (* Two states with the same bookkeeping but possibly different training sets (e.g. one of them
     seeded by read_from_data_store, so that |x_data| <> eval_counter): nothing the wrapper
     decides depends on the training set or its size. *)
  Definition same_accounting (a b : state) : Prop :=
    trained a = trained b /\ eval_counter a = eval_counter b /\ predict_counter a = predict_counter b /\
    map cnt_of (train_log a) = map cnt_of (train_log b) /\
    map (fun e => (vec_of e, snd e)) (obj_log a) = map (fun e => (vec_of e, snd e)) (obj_log b) /\
    hook_log a = hook_log b.

  Lemma same_accounting_refl a : same_accounting a a.
  Proof. repeat split. Qed.

  Lemma evaluate_individual_same_accounting (a b : state) (r : req) : same_accounting a b ->
    snd (evaluate_individual train_step train_out a r) = snd (evaluate_individual train_step train_out b r) /\
    same_accounting (fst (evaluate_individual train_step train_out a r))
                    (fst (evaluate_individual train_step train_out b r)).
  Proof.
    intros (T & E & P & L & O & H).
    pose proof (f_equal (@length _) L) as LL. rewrite !map_length in LL.
    unfold evaluate_individual, same_accounting. cbn zeta.
    destruct (train_step =? -1)%Z; [|destruct (train_step =? 0)%Z]; cbn [fst snd];
      try (cbn; rewrite ?map_app, T, E, P, L, O, H; cbn; rewrite ?E; repeat split; fail).
    cbn [eval_counter add_data count_eval log_obj]. rewrite E.
    destruct (Z.of_nat (S (eval_counter b)) mod train_step =? 0)%Z;
      cbn; rewrite ?map_app, ?T, ?E, ?P, ?L, ?O, ?H, ?LL; cbn; rewrite ?E; repeat split.
  Qed.

  Lemma step_same_accounting (a b : state) (r : req) : same_accounting a b ->
    snd (step a r) = snd (step b r) /\ same_accounting (fst (step a r)) (fst (step b r)).
  Proof.
    intros SA. pose proof SA as (T & E & P & L & O & H).
    unfold predict_evaluate. rewrite T.
    destruct (trained b && has_hook).
    - destruct (r_hook r) as [v|].
      + cbn. unfold same_accounting. cbn. rewrite T, E, P, L, O, H. repeat split.
      + assert (SA' : same_accounting (log_hook a (r_vec r)) (log_hook b (r_vec r))).
        { unfold same_accounting. cbn. rewrite T, E, P, L, O, H. repeat split. }
        pose proof (evaluate_individual_same_accounting _ _ r SA') as [Q1 Q2].
        destruct (evaluate_individual train_step train_out (log_hook a (r_vec r)) r) as [sa oa].
        destruct (evaluate_individual train_step train_out (log_hook b (r_vec r)) r) as [sb ob].
        cbn in *. subst. split; [reflexivity|assumption].
    - pose proof (evaluate_individual_same_accounting _ _ r SA) as [Q1 Q2].
      destruct (evaluate_individual train_step train_out a r) as [sa oa].
      destruct (evaluate_individual train_step train_out b r) as [sb ob].
      cbn in *. subst. split; [reflexivity|assumption].
  Qed.

  Theorem run_same_accounting : forall (reqs : list req) (a b : state), same_accounting a b ->
    snd (run step a reqs) = snd (run step b reqs) /\
    same_accounting (fst (run step a reqs)) (fst (run step b reqs)).
  Proof.
    induction reqs as [|r rs IH]; intros a b SA; cbn [run].
    - split; [reflexivity|exact SA].
    - pose proof (step_same_accounting a b r SA) as [Q1 Q2].
      destruct (step a r) as [a1 oa]. destruct (step b r) as [b1 ob]. cbn [fst snd] in *. subst ob.
      specialize (IH a1 b1 Q2). destruct (run step a1 rs) as [a2 osa]. destruct (run step b1 rs) as [b2 osb].
      cbn [fst snd] in *. destruct IH as [I1 I2]. subst. split; [reflexivity|assumption].
  Qed.

  (* seeding changes nothing but the training set: same answers, same counters, same `trained`,
     train() at the same evaluation counters; the seeded pairs stay in front of the new ones *)
  Theorem seeding_changes_only_training_set : forall (inds : list (V * C)) (reqs : list req) (s : state),
    let a := run step (read_from_data_store s inds) reqs in
    let b := run step s reqs in
    snd a = snd b /\
    trained (fst a) = trained (fst b) /\ eval_counter (fst a) = eval_counter (fst b) /\
    predict_counter (fst a) = predict_counter (fst b) /\
    map cnt_of (train_log (fst a)) = map cnt_of (train_log (fst b)) /\
    map cnt_of (train_log (fst a)) =
      map cnt_of (train_log s) ++
      filter fires (seq (S (eval_counter s)) (eval_counter (fst a) - eval_counter s)) /\
    x_data (fst a) = x_data s ++ map fst inds ++ map r_vec (evaluated reqs (snd a)) /\
    y_data (fst a) = y_data s ++ map snd inds ++ map r_true (evaluated reqs (snd a)).
  Proof.
    intros inds reqs s. cbn zeta.
    pose proof (read_from_data_store_spec inds s) as R. cbn zeta in R.
    destruct R as (R1 & R2 & R3 & R4 & R5 & R6 & R7 & R8).
    assert (SA : same_accounting (read_from_data_store s inds) s).
    { unfold same_accounting. rewrite R3, R4, R5, R6, R7, R8. repeat split. }
    pose proof (run_same_accounting reqs _ _ SA) as [Q1 (T & E & P & L & _)].
    pose proof (run_spec reqs (read_from_data_store s inds)) as S1. cbn zeta in S1.
    destruct S1 as (_ & _ & _ & _ & X & Y & _).
    pose proof (retrain_schedule reqs s) as S2. cbn zeta in S2.
    rewrite X, Y, R1, R2, <- !app_assoc, L, E.
    repeat split; assumption.
  Qed.

  (* ------------------------------------------------------------ sessions *)
  Lemma set_nth_length {A : Type} : forall (l : list A) k a, length (set_nth l k a) = length l.
  Proof. induction l as [|h t IH]; intros [|k] a; cbn; try reflexivity. rewrite IH. reflexivity. Qed.

  Lemma nth_error_set_nth_eq {A : Type} : forall (l : list A) k a x,
    nth_error l k = Some x -> nth_error (set_nth l k a) k = Some a.
  Proof. induction l as [|h t IH]; intros [|k] a x E; cbn in *; try discriminate; eauto. Qed.

  Lemma nth_error_set_nth_neq {A : Type} : forall (l : list A) k j a,
    j <> k -> nth_error (set_nth l k a) j = nth_error l j.
  Proof.
    induction l as [|h t IH]; intros [|k] [|j] a N; cbn; try reflexivity; try congruence.
    apply IH. congruence.
  Qed.

  Notation event := (event V C).
  Notation wrapper := (wrapper V C).
  Notation session := (session V C).

  Definition is_use (e : event) : bool := match e with EUse _ => true | _ => false end.

  (* an event other than the assignment of problem.surrogate acts on the wrapper that is
     problem.surrogate, exactly as wrapper_event says, and on nothing else *)
  Theorem session_event_current (ss : session) (e : event) (w : wrapper) :
    is_use e = false -> nth_error (slots ss) (cur ss) = Some w ->
    let ss' := fst (session_event has_hook ss e) in
    cur ss' = cur ss /\ length (slots ss') = length (slots ss) /\
    nth_error (slots ss') (cur ss) = Some (fst (wrapper_event has_hook w e)) /\
    snd (session_event has_hook ss e) = snd (wrapper_event has_hook w e) /\
    (forall j, j <> cur ss -> nth_error (slots ss') j = nth_error (slots ss) j).
  Proof.
    intros U W. unfold session_event. rewrite W.
    destruct e; try discriminate; cbn zeta;
      destruct (wrapper_event has_hook w _) as [w' o] eqn:E; cbn [fst snd cur slots];
      (repeat split; [apply set_nth_length | eapply nth_error_set_nth_eq; eassumption
                     | intros j N; apply nth_error_set_nth_neq; assumption]).
  Qed.

  (* assigning problem.surrogate changes no wrapper *)
  Theorem session_use (ss : session) (k : nat) :
    let ss' := fst (session_event has_hook ss (EUse k)) in
    slots ss' = slots ss /\ snd (session_event has_hook ss (EUse k)) = None /\
    (k < length (slots ss) -> cur ss' = k).
  Proof.
    unfold session_event. cbn [fst snd]. destruct (k <? length (slots ss)) eqn:E; cbn [cur slots]; repeat split; intros; lia.
  Qed.

  (* a request in a session is one step of the wrapper class with the wrapper's current train_step
     and train() oracle from the wrapper's current state: the per-request theorems apply to it *)
  Theorem wrapper_request (w : wrapper) (r : req) :
    let res := wrapper_event has_hook w (EReq r) in
    let st := if w_pass w then passthrough_evaluate (w_st w) r
              else predict_evaluate (w_ts w) has_hook (w_tape w) (w_st w) r in
    w_st (fst res) = fst st /\ snd res = Some (snd st) /\
    w_pass (fst res) = w_pass w /\ w_ts (fst res) = w_ts w /\ w_tape (fst res) = w_tape w.
  Proof.
    intros res st. subst res st. unfold wrapper_event, wrapper_step. destruct (w_pass w) eqn:P.
    - cbn. rewrite ?P. repeat split.
    - destruct (predict_evaluate (w_ts w) has_hook (w_tape w) (w_st w) r) as [s o]. cbn. rewrite ?P. repeat split.
  Qed.

  (* the other events on a wrapper *)
  Theorem wrapper_other_events (w : wrapper) :
    (forall inds, fst (wrapper_event has_hook w (ESeed inds)) = with_st w (read_from_data_store (w_st w) inds)) /\
    (fst (wrapper_event has_hook w ETrain) = if w_pass w then w else with_st w (do_train (w_tape w) (w_st w))) /\
    (forall ts, let w' := fst (wrapper_event has_hook w (ESetStep ts)) in
                w_ts w' = ts /\ w_st w' = w_st w /\ w_pass w' = w_pass w /\ w_tape w' = w_tape w) /\
    (forall b, fst (wrapper_event has_hook w (ESetTrained b)) = with_st w (set_trained (w_st w) b)).
  Proof. cbn. repeat split. Qed.
End SurrogateProofs.
