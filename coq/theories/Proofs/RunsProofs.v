(* Proofs about the run models of Model/Runs.v (property C09). *)
From Coq Require Import List Bool Arith Lia ZifyBool.
From Artap Require Import Model.Runs.
Import ListNotations.
Local Open Scope nat_scope.

(* ------------------------------------------------------------------------------------ *)
(* lists                                                                                  *)
(* ------------------------------------------------------------------------------------ *)
Fixpoint pairwise {A : Type} (R : A -> A -> Prop) (l : list A) : Prop :=
  match l with
  | [] => True
  | x :: l' => Forall (R x) l' /\ pairwise R l'
  end.

Lemma pairwise_app {A} (R : A -> A -> Prop) l1 l2 :
  pairwise R (l1 ++ l2) <->
  pairwise R l1 /\ pairwise R l2 /\ (forall a b, In a l1 -> In b l2 -> R a b).
Proof.
  induction l1 as [|x l1 IH]; cbn.
  - split; [intros P; repeat split; auto; intros a b []|intros (_ & P & _); exact P].
  - rewrite IH, Forall_app, !Forall_forall. split.
    + intros ((F1 & F2) & P1 & P2 & X). repeat split; auto.
      intros a b [<-|Ia] Ib; auto.
    + intros ((F1 & P1) & P2 & X). repeat split; auto.
Qed.

Lemma pairwise_snoc {A} (R : A -> A -> Prop) l x :
  pairwise R (l ++ [x]) <-> pairwise R l /\ Forall (fun a => R a x) l.
Proof.
  rewrite pairwise_app, Forall_forall. cbn. split.
  - intros (P & _ & X). split; auto.
  - intros (P & X). repeat split; auto. intros a b Ia [<-|[]]. auto.
Qed.

Lemma pairwise_impl {A} (R Q : A -> A -> Prop) l :
  (forall a b, In a l -> In b l -> R a b -> Q a b) -> pairwise R l -> pairwise Q l.
Proof.
  induction l as [|x l IH]; cbn; auto. intros X (F & P). split.
  - rewrite Forall_forall in *. intros b Ib. apply X; auto.
  - apply IH; auto.
Qed.

Lemma pairwise_nth {A} (R : A -> A -> Prop) l i j a b :
  pairwise R l -> i < j -> nth_error l i = Some a -> nth_error l j = Some b -> R a b.
Proof.
  revert i j. induction l as [|x l IH]; intros i j P Lt Ha Hb.
  - destruct i; discriminate.
  - destruct P as (F & P). destruct j as [|j]; [lia|]. destruct i as [|i]; cbn in *.
    + inversion Ha; subst. rewrite Forall_forall in F. apply F. eapply nth_error_In; eauto.
    + apply (IH i j); auto. lia.
Qed.

Lemma pairwise_map {A B} (f : A -> B) (R : B -> B -> Prop) l :
  pairwise R (map f l) <-> pairwise (fun a b => R (f a) (f b)) l.
Proof.
  induction l as [|x l IH]; cbn; [tauto|]. rewrite IH, Forall_map. tauto.
Qed.

Lemma in_firstn {A} k (l : list A) x : In x (firstn k l) -> In x l.
Proof.
  revert k. induction l as [|y l IH]; intros [|k]; cbn; auto; try tauto. intros [E|I]; eauto.
Qed.

Lemma pairwise_firstn {A} (R : A -> A -> Prop) k l : pairwise R l -> pairwise R (firstn k l).
Proof.
  revert k. induction l as [|x l IH]; intros [|k]; cbn; auto. intros (F & P). split; auto.
  rewrite Forall_forall in *. intros b Ib. apply F. eapply in_firstn; eauto.
Qed.

Lemma NoDup_pairwise {A} (l : list A) : NoDup l <-> pairwise (fun a b => a <> b) l.
Proof.
  induction l as [|x l IH]; cbn.
  - split; auto using NoDup_nil.
  - rewrite NoDup_cons_iff, IH, Forall_forall. split; intros (X & P); split; auto.
    + intros b Ib E. subst. auto.
    + intros I. exact (X x I eq_refl).
Qed.

Lemma NoDup_app_snoc {A} (l : list A) x : NoDup l -> ~ In x l -> NoDup (l ++ [x]).
Proof.
  induction l as [|y l IH]; cbn; intros ND NI.
  - constructor; auto; constructor.
  - inversion ND; subst. constructor.
    + rewrite in_app_iff. cbn. intros [I|[E|[]]]; [tauto|]. subst. tauto.
    + apply IH; auto.
Qed.

Lemma remove_nth_length {A} n (l : list A) : n < length l -> S (length (remove_nth n l)) = length l.
Proof.
  revert n. induction l as [|x l IH]; cbn; intros n Lt; [lia|]. destruct n; cbn; auto.
  rewrite IH; auto. lia.
Qed.

Lemma remove_first_spec {A} (p : A -> bool) l r :
  remove_first p l = Some r ->
  exists j y, nth_error l j = Some y /\ p y = true /\ r = remove_nth j l /\
              (forall i z, i < j -> nth_error l i = Some z -> p z = false).
Proof.
  revert r. induction l as [|x l IH]; cbn; intros r E; [discriminate|].
  destruct (p x) eqn:Px.
  - inversion E; subst. exists 0, x. repeat split; auto. intros i z Lt; lia.
  - destruct (remove_first p l) as [r'|] eqn:E'; [|discriminate]. inversion E; subst.
    destruct (IH r' eq_refl) as (j & y & N & Py & -> & X).
    exists (S j), y. repeat split; auto. intros [|i] z Lt; cbn; intros Hz.
    + inversion Hz; subst; auto.
    + eapply X; eauto. lia.
Qed.

(* set(list): representatives *)
Section DedupeFacts.
  Context {A : Type} (same : A -> A -> bool).

  Lemma set_add_by_incl acc x : incl acc (set_add_by same acc x).
  Proof. unfold set_add_by. destruct (existsb _ acc); intros a I; auto. apply in_or_app; auto. Qed.

  Lemma fold_set_add_length l acc : length acc <= length (fold_left (set_add_by same) l acc).
  Proof.
    revert acc. induction l as [|x l IH]; cbn; intros acc; auto.
    etransitivity; [|apply IH]. unfold set_add_by. destruct (existsb _ acc); auto.
    rewrite app_length. lia.
  Qed.

  Lemma fold_set_add_incl_acc l acc : incl acc (fold_left (set_add_by same) l acc).
  Proof.
    revert acc. induction l as [|x l IH]; cbn; intros acc; [apply incl_refl|].
    eapply incl_tran; [apply set_add_by_incl|apply IH].
  Qed.

  Lemma fold_set_add_incl l acc : incl (fold_left (set_add_by same) l acc) (acc ++ l).
  Proof.
    revert acc. induction l as [|x l IH]; cbn; intros acc.
    - rewrite app_nil_r. apply incl_refl.
    - eapply incl_tran; [apply IH|]. unfold set_add_by. destruct (existsb _ acc).
      + intros a I. apply in_app_or in I. apply in_or_app. cbn. tauto.
      + rewrite <- app_assoc. cbn. apply incl_refl.
  Qed.

  Lemma dedupe_by_incl l : incl (dedupe_by same l) l.
  Proof. exact (fold_set_add_incl l []). Qed.

  (* every element is represented: by itself or by an earlier entry with the same key *)
  Lemma fold_set_add_covered l acc x :
    In x (acc ++ l) ->
    exists r, In r (fold_left (set_add_by same) l acc) /\ (r = x \/ same r x = true).
  Proof.
    revert acc. induction l as [|y l IH]; cbn; intros acc I.
    - rewrite app_nil_r in I. exists x; auto.
    - destruct (in_app_or _ _ _ I) as [Ia|[->|Il]].
      + exists x. split; auto. apply fold_set_add_incl_acc. apply set_add_by_incl; auto.
      + unfold set_add_by. destruct (existsb (fun e => same e x) acc) eqn:E.
        * apply existsb_exists in E. destruct E as (r & Ir & S).
          exists r. split; auto. apply fold_set_add_incl_acc; auto.
        * exists x. split; auto. apply fold_set_add_incl_acc. apply in_or_app; cbn; auto.
      + apply IH. apply in_or_app. auto.
  Qed.

  Lemma dedupe_by_covered l x :
    In x l -> exists r, In r (dedupe_by same l) /\ (r = x \/ same r x = true).
  Proof. intros I. apply (fold_set_add_covered l [] x). exact I. Qed.

  (* a prefix of pairwise different elements is kept entirely *)
  Lemma fold_set_add_distinct l acc :
    pairwise (fun e x => same e x = false) (acc ++ l) -> fold_left (set_add_by same) l acc = acc ++ l.
  Proof.
    revert acc. induction l as [|x l IH]; cbn; intros acc P; [now rewrite app_nil_r|].
    assert (E : existsb (fun e => same e x) acc = false).
    { apply pairwise_app in P. destruct P as (_ & _ & X).
      destruct (existsb (fun e => same e x) acc) eqn:E; auto.
      apply existsb_exists in E. destruct E as (r & Ir & S). rewrite X in S; cbn; auto. }
    unfold set_add_by. rewrite E. rewrite IH; rewrite <- app_assoc; cbn; auto.
  Qed.

  (* no representative repeats an earlier one *)
  Lemma fold_set_add_norepeat l acc :
    pairwise (fun e x => same e x = false) acc ->
    pairwise (fun e x => same e x = false) (fold_left (set_add_by same) l acc).
  Proof.
    revert acc. induction l as [|x l IH]; cbn; intros acc P; auto. apply IH.
    unfold set_add_by. destruct (existsb (fun e => same e x) acc) eqn:E; auto.
    apply pairwise_snoc. split; auto. apply Forall_forall. intros e Ie.
    destruct (same e x) eqn:S1; auto.
    assert (X : existsb (fun e => same e x) acc = true) by (apply existsb_exists; eauto). congruence.
  Qed.

  Lemma dedupe_by_norepeat l : pairwise (fun e x => same e x = false) (dedupe_by same l).
  Proof. apply fold_set_add_norepeat. exact I. Qed.

  Lemma dedupe_by_prefix l1 l2 :
    pairwise (fun e x => same e x = false) l1 -> length l1 <= length (dedupe_by same (l1 ++ l2)).
  Proof.
    intros P. unfold dedupe_by. rewrite fold_left_app.
    rewrite (fold_set_add_distinct l1 []); auto. cbn. apply fold_set_add_length.
  Qed.
End DedupeFacts.

(* Problem.populations() of a record list built generation by generation *)
Section PopulationsFacts.
  Context {A : Type}.

  Fixpoint tagged (first : nat) (gens : list (list A)) : list (nat * A) :=
    match gens with
    | [] => []
    | g :: gs => map (pair first) g ++ tagged (S first) gs
    end.

  Lemma tagged_snoc first gens g :
    tagged first (gens ++ [g]) = tagged first gens ++ map (pair (first + length gens)) g.
  Proof.
    revert first. induction gens as [|h gens IH]; cbn; intros first.
    - rewrite app_nil_r, Nat.add_0_r. reflexivity.
    - rewrite IH, <- app_assoc. replace (S first + length gens) with (first + S (length gens)) by lia. reflexivity.
  Qed.

  Lemma pop_insert_last t (x : A) d l :
    ~ In t (map fst d) -> pop_insert t x (d ++ [(t, l)]) = d ++ [(t, l ++ [x])].
  Proof.
    induction d as [|[t' l'] d IH]; cbn; intros N.
    - rewrite Nat.eqb_refl. reflexivity.
    - destruct (Nat.eqb t' t) eqn:E; [apply Nat.eqb_eq in E; tauto|]. rewrite IH; auto.
  Qed.

  Lemma pop_insert_new t (x : A) d : ~ In t (map fst d) -> pop_insert t x d = d ++ [(t, [x])].
  Proof.
    induction d as [|[t' l'] d IH]; cbn; intros N; auto.
    destruct (Nat.eqb t' t) eqn:E; [apply Nat.eqb_eq in E; tauto|]. rewrite IH; auto.
  Qed.

  Lemma fold_insert_same t (g : list A) (d : list (nat * list A)) l :
    ~ In t (map fst d) ->
    fold_left (fun d r => pop_insert (fst r) (snd r) d) (map (pair t) g) (d ++ [(t, l)]) = d ++ [(t, l ++ g)].
  Proof.
    revert l. induction g as [|x g IH]; cbn; intros l N; [now rewrite app_nil_r|].
    rewrite pop_insert_last; auto. rewrite IH; auto. rewrite <- app_assoc. reflexivity.
  Qed.

  Lemma fold_insert_gen t (g : list A) (d : list (nat * list A)) :
    ~ In t (map fst d) -> g <> [] ->
    fold_left (fun d r => pop_insert (fst r) (snd r) d) (map (pair t) g) d = d ++ [(t, g)].
  Proof.
    destruct g as [|x g]; [congruence|]. intros N _. cbn.
    rewrite pop_insert_new; auto. apply (fold_insert_same t g d [x]); auto.
  Qed.

  Lemma populations_tagged_from first (gens : list (list A)) (d : list (nat * list A)) :
    Forall (fun g => g <> []) gens -> (forall t, In t (map fst d) -> t < first) ->
    fold_left (fun d r => pop_insert (fst r) (snd r) d) (tagged first gens) d
    = d ++ combine (seq first (length gens)) gens.
  Proof.
    revert first d. induction gens as [|g gens IH]; cbn; intros first d F B.
    - now rewrite app_nil_r.
    - inversion F; subst. rewrite fold_left_app, fold_insert_gen; auto.
      + rewrite IH; auto.
        * rewrite <- app_assoc. reflexivity.
        * intros t. rewrite map_app, in_app_iff. cbn. intros [I|[<-|[]]]; [apply B in I|]; lia.
      + intros I. apply B in I. lia.
  Qed.

  Lemma populations_tagged first (gens : list (list A)) :
    Forall (fun g => g <> []) gens -> populations (tagged first gens) = combine (seq first (length gens)) gens.
  Proof. intros F. unfold populations. rewrite populations_tagged_from; auto. intros t []. Qed.

  Lemma population_app (r1 r2 : list (nat * A)) t : population (r1 ++ r2) t = population r1 t ++ population r2 t.
  Proof. unfold population. rewrite filter_app, map_app. reflexivity. Qed.

  Lemma population_map_pair t' (g : list A) t :
    population (map (pair t') g) t = if Nat.eqb t' t then g else [].
  Proof.
    unfold population. induction g as [|x g IH]; cbn; [destruct (Nat.eqb t' t); auto|].
    destruct (Nat.eqb t' t) eqn:E; cbn; rewrite IH; auto.
  Qed.

  Lemma population_tagged first (gens : list (list A)) t :
    population (tagged first gens) t = if (first <=? t) then nth (t - first) gens [] else [].
  Proof.
    revert first. induction gens as [|g gens IH]; intros first.
    - cbn. destruct (first <=? t); destruct (t - first); auto.
    - cbn [tagged]. rewrite population_app, population_map_pair, IH.
      destruct (Nat.eqb first t) eqn:E.
      + apply Nat.eqb_eq in E. subst. replace (S t <=? t) with false by lia.
        replace (t <=? t) with true by lia. rewrite Nat.sub_diag, app_nil_r. reflexivity.
      + apply Nat.eqb_neq in E. cbn [app]. destruct (first <=? t) eqn:L.
        * replace (S first <=? t) with true by lia. destruct (t - first) eqn:D; [lia|].
          replace (t - S first) with n by lia. reflexivity.
        * replace (S first <=? t) with false by lia. reflexivity.
  Qed.
End PopulationsFacts.

Ltac norm := unfold Runs.cand, Runs.ind in *.
Ltac nlia := norm; lia.

(* ------------------------------------------------------------------------------------ *)
(* generate, evaluation                                                                   *)
(* ------------------------------------------------------------------------------------ *)
Section GenEval.
  Context {V C : Type}.
  Variable veq : V -> V -> bool.
  Variable vexact : V -> V -> bool.

  Local Notation cand := (cand (V := V)).
  Local Notation ind := (ind (V := V) (C := C)).

  (* a later candidate is not == to an earlier one (the direction generate tests) *)
  Definition later_differs (a b : cand) : Prop := veq (snd b) (snd a) = false.

  Lemma repeated_false c offs :
    repeated veq c offs = false <-> Forall (fun o => later_differs o c) offs.
  Proof.
    unfold repeated, later_differs. induction offs as [|o offs IH]; cbn.
    - split; auto.
    - rewrite orb_false_iff, IH. split; [intros (X & F); constructor; auto|].
      intros F. inversion F; subst. auto.
  Qed.

  Definition ids_below (ctr : nat) (offs : list cand) : Prop := Forall (fun o => fst o < ctr) offs.
  Definition ids_from (lo : nat) (offs : list cand) : Prop := Forall (fun o => lo <= fst o) offs.

  Lemma gen_first_inv N offs c1 :
    2 <= N -> length offs < N -> pairwise later_differs offs ->
    length (gen_first offs c1) < N /\ pairwise later_differs (gen_first offs c1).
  Proof. intros HN L P. destruct offs; cbn in *; [split; [lia|auto]|split; [exact L|exact P]]. Qed.

  Lemma gen_add1_inv N c1 o1 :
    length o1 < N -> pairwise later_differs o1 ->
    length (gen_add1 veq N c1 o1) <= N /\ pairwise later_differs (gen_add1 veq N c1 o1).
  Proof.
    intros L P. unfold gen_add1. destruct (repeated veq c1 o1) eqn:R1; cbn [andb].
    - destruct (length o1 <? N) eqn:E; [split; [nlia|auto]|nlia].
    - rewrite app_length. cbn [length]. split; [nlia|]. apply pairwise_snoc. split; auto.
      apply repeated_false; auto.
  Qed.

  Lemma gen_add2_inv N c2 o2 :
    length o2 <= N -> pairwise later_differs o2 ->
    length (gen_add2 veq N c2 o2) <= N /\ pairwise later_differs (gen_add2 veq N c2 o2).
  Proof.
    intros L P. unfold gen_add2. destruct (repeated veq c2 o2) eqn:R2; cbn [andb].
    - destruct (length o2 <? N) eqn:E; auto.
    - destruct (length o2 <? N) eqn:E; auto.
      rewrite app_length. cbn [length]. split; [nlia|]. apply pairwise_snoc. split; auto.
      apply repeated_false; auto.
  Qed.

  Lemma gen_step_inv N offs ctr vv :
    2 <= N -> length offs < N -> pairwise later_differs offs ->
    length (gen_step veq N offs ctr vv) <= N /\ pairwise later_differs (gen_step veq N offs ctr vv).
  Proof.
    intros HN L P. unfold gen_step.
    destruct (gen_first_inv N offs (ctr, fst vv) HN L P) as (L1 & P1).
    destruct (gen_add1_inv N (ctr, fst vv) _ L1 P1) as (L2 & P2).
    apply gen_add2_inv; auto.
  Qed.

  Lemma generate_inv N stream : forall offs ctr r c',
    2 <= N -> length offs <= N -> pairwise later_differs offs ->
    generate veq N stream offs ctr = Some (r, c') -> length r = N /\ pairwise later_differs r.
  Proof.
    induction stream as [|vv s IH]; cbn; intros offs ctr r c' HN L P E.
    - destruct (N <=? length offs) eqn:D; [|discriminate]. inversion E; subst. split; [nlia|auto].
    - destruct (N <=? length offs) eqn:D; [discriminate|].
      destruct (gen_step_inv N offs ctr vv) as (L' & P'); auto; [nlia|].
      eapply IH; eauto.
  Qed.

  (* generate_exact: exactly N offspring, none == to an earlier one *)
  Theorem generate_exact N stream ctr r c' :
    2 <= N -> generate veq N stream [] ctr = Some (r, c') ->
    length r = N /\ pairwise later_differs r.
  Proof. intros HN E. eapply generate_inv; eauto; cbn; auto; nlia. Qed.

  (* object identities: fresh, provided v == v (no NaN coordinate) *)
  Hypothesis H_veq_refl : forall v, veq v v = true.

  Definition ids_ok (lo hi : nat) (offs : list cand) : Prop :=
    NoDup (map fst offs) /\ Forall (fun o => lo <= fst o < hi) offs.

  Lemma ids_ok_weaken lo hi hi' offs : hi <= hi' -> ids_ok lo hi offs -> ids_ok lo hi' offs.
  Proof.
    intros Le (ND & F). split; auto. rewrite Forall_forall in *. intros x Ix. specialize (F x Ix). lia.
  Qed.

  Lemma ids_ok_snoc lo hi offs c :
    ids_ok lo hi offs -> lo <= hi -> fst c = hi -> ids_ok lo (S hi) (offs ++ [c]).
  Proof.
    intros (ND & F) Lo E. split.
    - rewrite map_app. cbn [map]. apply NoDup_app_snoc; auto. intros I. apply in_map_iff in I.
      destruct I as (x & Ex & Ix). rewrite Forall_forall in F. specialize (F x Ix). lia.
    - apply Forall_app. split.
      + rewrite Forall_forall in *. intros x Ix. specialize (F x Ix). lia.
      + constructor; [lia|constructor].
  Qed.

  Lemma gen_step_ids N offs ctr lo vv :
    2 <= N -> length offs < N -> lo <= ctr -> ids_ok lo ctr offs ->
    ids_ok lo (S (S ctr)) (gen_step veq N offs ctr vv).
  Proof.
    intros HN L Lo I. unfold gen_step.
    assert (I2 : ids_ok lo (S ctr) (gen_add1 veq N (ctr, fst vv) (gen_first offs (ctr, fst vv)))).
    { destruct offs as [|o offs].
      - unfold gen_first, gen_add1, repeated. cbn [existsb snd]. rewrite H_veq_refl. cbn [orb andb length].
        replace (1 <? N) with true by lia. split; [repeat constructor; auto|repeat constructor; cbn; lia].
      - cbn [gen_first]. unfold gen_add1.
        destruct (repeated veq (ctr, fst vv) (o :: offs) && (length (o :: offs) <? N)).
        + eapply ids_ok_weaken; [|exact I]. lia.
        + apply ids_ok_snoc; auto. }
    unfold gen_add2.
    destruct (repeated veq (S ctr, snd vv) _ && _); [eapply ids_ok_weaken; [|exact I2]; lia|].
    destruct (_ <? N); [|eapply ids_ok_weaken; [|exact I2]; lia].
    apply ids_ok_snoc; auto.
  Qed.

  Lemma generate_ids N stream : forall offs ctr lo r c',
    2 <= N -> length offs <= N -> pairwise later_differs offs -> lo <= ctr -> ids_ok lo ctr offs ->
    generate veq N stream offs ctr = Some (r, c') -> ctr <= c' /\ ids_ok lo c' r.
  Proof.
    induction stream as [|vv s IH]; cbn [generate]; intros offs ctr lo r c' HN L P Lo I E.
    - destruct (N <=? length offs); [|discriminate]. inversion E; subst. auto.
    - destruct (N <=? length offs) eqn:D; [discriminate|]. apply Nat.leb_gt in D.
      destruct (gen_step_inv N offs ctr vv HN D P) as (L' & P').
      pose proof (gen_step_ids N offs ctr lo vv HN D Lo I) as I'.
      destruct (IH _ _ lo _ _ HN L' P' (Nat.le_trans _ _ _ Lo (Nat.le_trans _ _ _ (Nat.le_succ_diag_r _) (Nat.le_succ_diag_r _))) I' E) as (Le & Ir).
      split; [lia|auto].
  Qed.
End GenEval.

(* ------------------------------------------------------------------------------------ *)
(* evaluation step                                                                        *)
(* ------------------------------------------------------------------------------------ *)
Section EvalFacts.
  Context {V C : Type}.
  Variable vexact : V -> V -> bool.
  Local Notation ind := (ind (V := V) (C := C)).

  Lemma successes_app (a b : list (V * bool)) : successes (a ++ b) = successes a + successes b.
  Proof. unfold successes. rewrite filter_app, app_length. reflexivity. Qed.
  Lemma failures_app (a b : list (V * bool)) : failures (a ++ b) = failures a + failures b.
  Proof. unfold failures. rewrite filter_app, app_length. reflexivity. Qed.

  Lemma successes_failed_calls (vs : list V) : successes (map (fun v => (v, false)) vs) = 0.
  Proof. unfold successes. induction vs; cbn; auto. Qed.
  Lemma failures_failed_calls (vs : list V) : failures (map (fun v => (v, false)) vs) = length vs.
  Proof. unfold failures. induction vs; cbn; auto. Qed.

  Lemma removelast_cons_length {A} (a : A) l : length (removelast (a :: l)) = length l.
  Proof.
    revert a. induction l as [|b l IH]; intros a; [reflexivity|].
    change (removelast (a :: b :: l)) with (a :: removelast (b :: l)). cbn [length]. rewrite IH. reflexivity.
  Qed.

  (* Job.evaluate: exactly one successful objective call per design, one failed call per
     replacement, fewer than 5 failures, identity kept, costs from the successful call *)
  Lemma job_spec (c : nat * V) (e : ev_entry V C) x lg :
    job vexact c e = Some (x, lg) ->
    rid x = fst c /\ rcost x = e_cost e /\ successes lg = 1 /\ failures lg = length (e_repl e) /\
    length (e_repl e) < 5 /\ (e_repl e = [] -> rvec x = snd c).
  Proof.
    unfold job. destruct (vexact (snd c) (e_vec e) && (length (e_repl e) <? 5)) eqn:G; [|discriminate].
    intros E. inversion E; subst. cbn [rid rcost rvec].
    rewrite successes_app, failures_app, successes_failed_calls, failures_failed_calls.
    apply andb_true_iff in G. destruct G as (_ & G). apply Nat.ltb_lt in G.
    change (match e_repl e with [] => [] | _ :: _ => snd c :: removelast (e_repl e) end) with (removelast (snd c :: e_repl e)).
    rewrite removelast_cons_length. unfold successes, failures. cbn [filter snd negb length].
    repeat split; auto. intros ->. reflexivity.
  Qed.

  Lemma eval_batch_spec : forall (cs : list (nat * V)) (es : list (ev_entry V C)) xs lg,
    eval_batch vexact cs es = Some (xs, lg) ->
    length xs = length cs /\ map rid xs = map fst cs /\ map rcost xs = map e_cost es /\
    successes lg = length cs /\ failures lg = list_sum (map (fun e => length (e_repl e)) es) /\
    (Forall (fun e => e_repl e = []) es -> map rvec xs = map snd cs).
  Proof.
    induction cs as [|c cs IH]; intros es xs lg E; destruct es as [|e es]; cbn in E; try discriminate.
    - inversion E; subst. cbn. repeat split; auto.
    - destruct (job vexact c e) as [[x l1]|] eqn:J; [|discriminate].
      destruct (eval_batch vexact cs es) as [[xs' l2]|] eqn:B; [|discriminate].
      inversion E; subst. destruct (IH _ _ _ B) as (L & I & Cs & Sc & F & Vs).
      destruct (job_spec _ _ _ _ J) as (Ji & Jc & Js & Jf & _ & Jv).
      cbn [length map list_sum]. rewrite successes_app, failures_app, L, I, Cs, Sc, F, Ji, Jc, Js, Jf.
      repeat split; auto. intros Fa. inversion Fa; subst. rewrite Jv, Vs; auto.
  Qed.
End EvalFacts.

(* ------------------------------------------------------------------------------------ *)
(* more list facts                                                                        *)
(* ------------------------------------------------------------------------------------ *)
Lemma map_fst_combine {A B} (l1 : list A) (l2 : list B) :
  length l1 = length l2 -> map fst (combine l1 l2) = l1.
Proof.
  revert l2. induction l1 as [|a l1 IH]; intros [|b l2] E; cbn in *; try discriminate; auto.
  rewrite IH; auto.
Qed.
Lemma map_snd_combine {A B} (l1 : list A) (l2 : list B) :
  length l1 = length l2 -> map snd (combine l1 l2) = l2.
Proof.
  revert l2. induction l1 as [|a l1 IH]; intros [|b l2] E; cbn in *; try discriminate; auto.
  rewrite IH; auto.
Qed.

Lemma NoDup_app_disjoint {A} (a b : list A) :
  NoDup a -> NoDup b -> (forall x, In x a -> ~ In x b) -> NoDup (a ++ b).
Proof.
  induction a as [|x a IH]; cbn; intros Na Nb D; auto.
  inversion Na; subst. constructor.
  - rewrite in_app_iff. intros [I|I]; [tauto|]. exact (D x (or_introl eq_refl) I).
  - apply IH; auto.
Qed.

Lemma in_le_list_max a l : In a l -> a <= list_max l.
Proof.
  intros I. pose proof (proj1 (list_max_le l (list_max l)) (le_n _)) as F.
  rewrite Forall_forall in F. auto.
Qed.

Lemma last_nonempty_default {A} (b : A) l d d' : last (b :: l) d = last (b :: l) d'.
Proof. revert b. induction l as [|c l IH]; intros b; [reflexivity|]. exact (IH c). Qed.
Lemma last_cons {A} (a : A) l d : last (a :: l) d = last l a.
Proof. destruct l as [|b l]; [reflexivity|]. change (last (a :: b :: l) d) with (last (b :: l) d). apply last_nonempty_default. Qed.

Lemma last_snoc {A} (l : list A) x d : last (l ++ [x]) d = x.
Proof.
  induction l as [|y l IH]; cbn; auto. destruct (l ++ [x]) eqn:E; [destruct l; discriminate|]. exact IH.
Qed.

(* ------------------------------------------------------------------------------------ *)
(* NSGA-II                                                                                *)
(* ------------------------------------------------------------------------------------ *)
Section Nsga2.
  Context {V C : Type}.
  Variable veq : V -> V -> bool.
  Variable vexact : V -> V -> bool.
  Variable cmp : C -> C -> nat.
  Local Notation ind := (ind (V := V) (C := C)).
  Variable select : list ind -> nat -> list ind.
  Variable same : ind -> ind -> bool.             (* set(): equal hash and == *)
  Variable front : list ind -> ind -> nat.        (* front number the sorter gives x inside pool *)
  Variable okc : C -> Prop.                       (* well-formed signed cost vector *)

  Definition wf_pool (pool : list ind) : Prop :=
    NoDup (map rid pool) /\ Forall (fun x => okc (rcost x)) pool.
  Definition nosame (e x : ind) : Prop := same e x = false.

  (* the specification of sort + truncate, in the form of the C02 / C03 theorems *)
  Hypothesis H_select_len : forall pool k, wf_pool pool ->
    length (select pool k) = Nat.min k (length (dedupe_by same pool)).
  Hypothesis H_select_nodup : forall pool k, wf_pool pool -> pairwise nosame (select pool k).
  Hypothesis H_select_incl : forall pool k, wf_pool pool -> incl (select pool k) (dedupe_by same pool).
  Hypothesis H_select_elitist : forall pool k s d, wf_pool pool ->
    In s (select pool k) -> In d (dedupe_by same pool) -> ~ In d (select pool k) ->
    front pool s <= front pool d.
  Hypothesis H_front_rank : forall pool x, wf_pool pool -> In x pool ->
    front pool x = S (list_max (map (front pool)
                                    (filter (fun y => Nat.eqb (cmp (rcost y) (rcost x)) 1) pool))).
  (* C20: what set() merges is == *)
  Hypothesis H_same_veq : forall e x : ind, same e x = true -> rid e = rid x \/ veq (rvec x) (rvec e) = true.
  Hypothesis H_veq_refl : forall v, veq v v = true.

  Local Notation state := (state (V := V) (C := C)).
  Local Notation transition := (transition (V := V) (C := C)).
  Local Notation gen_in := (gen_in (V := V) (C := C)).

  Definition fresh_tr (tr : transition) : Prop :=
    pairwise (fun a b : ind => veq (rvec b) (rvec a) = false) (t_offs tr).
  Definition okc_entries (es : list (ev_entry V C)) : Prop := Forall (fun e => okc (e_cost e)) es.
  Definition okc_gen (g : gen_in) : Prop := okc_entries (g_eval g).
  Definition no_failures (g : gen_in) : Prop := Forall (fun e => e_repl e = []) (g_eval g).

  Definition tr_good (N : nat) (tr : transition) : Prop :=
    length (t_next tr) = N /\ length (t_offs tr) = N /\ pairwise nosame (t_next tr) /\
    map rvec (t_copies tr) = map rvec (t_parents tr) /\ map rcost (t_copies tr) = map rcost (t_parents tr) /\
    wf_pool (t_offs tr ++ t_copies tr) /\ t_next tr = select (t_offs tr ++ t_copies tr) N.

  Fixpoint chain (prev : list ind) (trace : list transition) : Prop :=
    match trace with
    | [] => True
    | tr :: rest => t_parents tr = prev /\ chain (t_next tr) rest
    end.

  Lemma chain_snoc prev trace tr :
    chain prev (trace ++ [tr]) <-> chain prev trace /\ t_parents tr = last (map t_next trace) prev.
  Proof.
    revert prev. induction trace as [|t trace IH]; intros prev; cbn [chain app map].
    - cbn. tauto.
    - rewrite IH, last_cons. tauto.
  Qed.

  Lemma chain_nth prev trace i tr :
    chain prev trace -> nth_error trace i = Some tr ->
    t_parents tr = nth i (prev :: map t_next trace) [] /\ t_next tr = nth (S i) (prev :: map t_next trace) [].
  Proof.
    revert prev i. induction trace as [|t trace IH]; intros prev i Ch E; [destruct i; discriminate|].
    destruct Ch as (P & Ch). destruct i as [|i]; cbn in E.
    - inversion E; subst. cbn. auto.
    - destruct (IH _ _ Ch E) as (A & B). cbn [map]. split; [exact A|exact B].
  Qed.

  Lemma copy_all_spec (ps : list ind) ctr :
    length (copy_all ps ctr) = length ps /\ map rid (copy_all ps ctr) = seq ctr (length ps) /\
    map rvec (copy_all ps ctr) = map rvec ps /\ map rcost (copy_all ps ctr) = map rcost ps.
  Proof.
    unfold copy_all.
    assert (L : length (seq ctr (length ps)) = length ps) by apply seq_length.
    repeat split.
    - rewrite map_length, combine_length, L. apply Nat.min_id.
    - rewrite map_map. cbn [rid]. apply map_fst_combine; auto.
    - rewrite map_map. cbn [rvec]. rewrite <- (map_map snd rvec). rewrite map_snd_combine; auto.
    - rewrite map_map. cbn [rcost]. rewrite <- (map_map snd rcost). rewrite map_snd_combine; auto.
  Qed.

  Record inv (N : nat) (gen1 : list ind) (k : nat) (st : state) : Prop := {
    inv_len : length (s_par st) = N;
    inv_ok : Forall (fun x => okc (rcost x)) (s_par st);
    inv_trace_len : length (s_trace st) = k;
    inv_rec : s_rec st = tagged 1 (gen1 :: map t_next (s_trace st));
    inv_par : s_par st = last (map t_next (s_trace st)) gen1;
    inv_succ : successes (s_log st) = N * S k;
    inv_tr : Forall (tr_good N) (s_trace st);
    inv_chain : chain gen1 (s_trace st);
    inv_gen1 : length gen1 = N }.

  Lemma mk_cands_spec (vs : list V) ctr :
    length (mk_cands vs ctr) = length vs /\ map fst (mk_cands vs ctr) = seq ctr (length vs) /\
    map snd (mk_cands vs ctr) = vs.
  Proof.
    unfold mk_cands. norm.
    assert (L : length (seq ctr (length vs)) = length vs) by apply seq_length.
    repeat split; [rewrite combine_length, L; apply Nat.min_id|apply map_fst_combine; auto|apply map_snd_combine; auto].
  Qed.

  Lemma okc_of_costs (xs : list ind) (es : list (ev_entry V C)) :
    map rcost xs = map e_cost es -> okc_entries es -> Forall (fun x => okc (rcost x)) xs.
  Proof.
    intros E Ok. apply Forall_forall. intros x Ix.
    assert (I : In (rcost x) (map e_cost es)) by (rewrite <- E; apply in_map; auto).
    apply in_map_iff in I. destruct I as (e & Ee & Ie). rewrite <- Ee.
    unfold okc_entries in Ok. rewrite Forall_forall in Ok. auto.
  Qed.

  Lemma nsga2_init_inv N init e0 st :
    length init = N -> okc_entries e0 -> nsga2_init vexact init e0 = Some st -> inv N (s_par st) 0 st.
  Proof.
    unfold nsga2_init. intros L Ok E.
    destruct (eval_batch vexact (mk_cands init 0) e0) as [[inds lg]|] eqn:B; [|discriminate].
    inversion E; subst. cbn [s_par s_rec s_log s_trace s_ctr].
    destruct (eval_batch_spec _ _ _ _ _ B) as (Li & _ & Cs & Sc & _ & _).
    destruct (mk_cands_spec init 0) as (Lc & _ & _).
    assert (Ll : length inds = length init) by exact (eq_trans Li Lc).
    constructor; cbn [s_par s_rec s_log s_trace s_ctr map tagged last length]; auto.
    - eapply okc_of_costs; eauto.
    - rewrite app_nil_r. reflexivity.
    - rewrite (eq_trans Sc Lc). lia.
    - exact I.
  Qed.

  Lemma same_false_of_fresh (a b : ind) :
    rid a <> rid b -> veq (rvec b) (rvec a) = false -> same a b = false.
  Proof.
    intros Ni Nv. destruct (same a b) eqn:E; auto.
    destruct (H_same_veq _ _ E) as [X|X]; [tauto|congruence].
  Qed.

  (* one generation step keeps the invariant *)
  Lemma nsga2_step_inv N gen1 k st g st' :
    2 <= N -> inv N gen1 k st -> okc_gen g -> nsga2_step veq vexact select N k st g = Some st' ->
    Forall fresh_tr (s_trace st') -> inv N gen1 (S k) st'.
  Proof.
    intros HN I Ok E Fr. unfold nsga2_step in E.
    destruct (generate veq N (g_stream g) [] (s_ctr st)) as [[cands c1]|] eqn:G; [|discriminate].
    destruct (eval_batch vexact cands (g_eval g)) as [[offs lg]|] eqn:B; [|discriminate].
    inversion E; subst st'; clear E. cbn [s_trace] in Fr.
    destruct (generate_exact veq N _ _ _ _ HN G) as (Lc & Pc).
    destruct (generate_ids veq H_veq_refl N (g_stream g) [] (s_ctr st) (s_ctr st) cands c1) as (Le & NDc & Rc);
      auto; [cbn; lia|cbn; auto|split; [constructor|constructor]|].
    destruct (eval_batch_spec _ _ _ _ _ B) as (Lo & Io & Co & So & _ & _).
    destruct (copy_all_spec (s_par st) c1) as (Lp & Ip & Vp & Cp).
    destruct I as [IL IOk ITl IRec IPar ISucc ITr ICh IG1].
    set (copies := copy_all (s_par st) c1) in *.
    set (pool := offs ++ copies). norm.
    assert (Wf : wf_pool pool).
    { split.
      - unfold pool. rewrite map_app, Io, Ip. apply NoDup_app_disjoint; auto.
        + apply seq_NoDup.
        + intros x Ix Is. apply in_seq in Is. apply in_map_iff in Ix. destruct Ix as (c & Ec & Ic).
          rewrite Forall_forall in Rc. specialize (Rc c Ic). lia.
      - unfold pool. apply Forall_app. split; [eapply okc_of_costs; eauto|].
        apply Forall_forall. intros x Ix.
        assert (I : In (rcost x) (map rcost (s_par st))) by (rewrite <- Cp; apply in_map; auto).
        apply in_map_iff in I. destruct I as (p & Ep & Ipp). rewrite <- Ep.
        rewrite Forall_forall in IOk. auto. }
    apply Forall_app in Fr. destruct Fr as (_ & Fr). pose proof (Forall_inv Fr) as Fr1. unfold fresh_tr in Fr1.
    cbn [t_offs] in Fr1.
    assert (Pn : pairwise nosame offs).
    { assert (NDo : NoDup (map rid offs)) by (rewrite Io; auto).
      apply NoDup_pairwise in NDo. apply pairwise_map in NDo.
      clear - Fr1 NDo H_same_veq. induction offs as [|a offs IH]; cbn in *; auto.
      destruct Fr1 as (F1 & P1). destruct NDo as (F2 & P2). split; auto.
      rewrite Forall_forall in *. intros b Ib. apply same_false_of_fresh; auto. }
    assert (Ln : length (select pool N) = N).
    { rewrite H_select_len; auto. pose proof (dedupe_by_prefix same offs copies Pn) as D.
      fold pool in D. lia. }
    assert (Inc : incl (select pool N) pool).
    { eapply incl_tran; [apply H_select_incl; auto|apply dedupe_by_incl]. }
    constructor; cbn [s_par s_rec s_log s_trace s_ctr]; auto.
    - apply Forall_forall. intros x Ix. destruct Wf as (_ & W). rewrite Forall_forall in W. auto.
    - rewrite app_length. cbn. lia.
    - rewrite map_app. cbn [map t_next]. rewrite IRec.
      change (gen1 :: map t_next (s_trace st) ++ [select pool N]) with ((gen1 :: map t_next (s_trace st)) ++ [select pool N]).
      rewrite tagged_snoc. cbn [length]. rewrite map_length, ITl.
      replace (1 + S k) with (k + 2) by lia. reflexivity.
    - rewrite map_app. cbn [map t_next]. rewrite last_snoc. reflexivity.
    - rewrite successes_app, ISucc, So, Lc. lia.
    - apply Forall_app. split; auto. constructor; [|constructor].
      unfold tr_good. cbn [t_next t_offs t_copies t_parents].
      split; [exact Ln|]. split; [exact (eq_trans Lo Lc)|]. split; [apply H_select_nodup; exact Wf|]. repeat split; auto; apply Wf.
    - apply chain_snoc. split; auto.
  Qed.

  Lemma nsga2_step_trace N k st g st' :
    nsga2_step veq vexact select N k st g = Some st' -> exists tr, s_trace st' = s_trace st ++ [tr].
  Proof.
    unfold nsga2_step. intros E.
    destruct (generate veq N (g_stream g) [] (s_ctr st)) as [[cands c1]|]; [|discriminate].
    destruct (eval_batch vexact cands (g_eval g)) as [[offs lg]|]; [|discriminate].
    inversion E; subst. cbn. eauto.
  Qed.

  Lemma nsga2_loop_trace N : forall k it st gens st',
    nsga2_loop veq vexact select N it k st gens = Some st' -> exists rest, s_trace st' = s_trace st ++ rest.
  Proof.
    induction k as [|k IH]; intros it st gens st' E; cbn in E.
    - destruct gens; [|discriminate]. inversion E; subst. exists []. now rewrite app_nil_r.
    - destruct gens as [|g gens]; [discriminate|].
      destruct (nsga2_step veq vexact select N it st g) as [st1|] eqn:S1; [|discriminate].
      destruct (nsga2_step_trace _ _ _ _ _ S1) as (tr & T1). destruct (IH _ _ _ _ E) as (rest & T).
      exists (tr :: rest). rewrite T, T1, <- app_assoc. reflexivity.
  Qed.

  Lemma nsga2_loop_inv N gen1 : forall k it st gens st',
    2 <= N -> inv N gen1 it st -> Forall okc_gen gens ->
    nsga2_loop veq vexact select N it k st gens = Some st' -> Forall fresh_tr (s_trace st') ->
    inv N gen1 (it + k) st'.
  Proof.
    induction k as [|k IH]; intros it st gens st' HN I Ok E Fr; cbn in E.
    - destruct gens; [|discriminate]. inversion E; subst. rewrite Nat.add_0_r. auto.
    - destruct gens as [|g gens]; [discriminate|]. inversion Ok; subst.
      destruct (nsga2_step veq vexact select N it st g) as [st1|] eqn:S1; [|discriminate].
      destruct (nsga2_loop_trace _ _ _ _ _ _ E) as (rest & T).
      assert (Fr1 : Forall fresh_tr (s_trace st1)) by (rewrite T in Fr; apply Forall_app in Fr; tauto).
      pose proof (nsga2_step_inv N gen1 it st g st1 HN I H1 S1 Fr1) as I1.
      replace (it + S k) with (S it + k) by lia. eapply IH; eauto.
  Qed.

  (* the whole run *)
  Theorem nsga2_run_inv N G init e0 gens st :
    2 <= N -> 1 <= G -> length init = N -> okc_entries e0 -> Forall okc_gen gens ->
    nsga2_run veq vexact select N G init e0 gens = Some st -> Forall fresh_tr (s_trace st) ->
    exists gen1, inv N gen1 (G - 1) st.
  Proof.
    intros HN HG L Ok0 Ok E Fr. unfold nsga2_run in E.
    destruct (nsga2_init vexact init e0) as [st0|] eqn:E0; [|discriminate].
    exists (s_par st0). pose proof (nsga2_init_inv N init e0 st0 L Ok0 E0) as I0.
    exact (nsga2_loop_inv N (s_par st0) (G - 1) 0 st0 gens st HN I0 Ok E Fr).
  Qed.

  (* ---- what the invariant says about Problem.populations() and the call log ---- *)
  Definition gens_of (gen1 : list ind) (st : state) : list (list ind) := gen1 :: map t_next (s_trace st).

  Lemma inv_gens N gen1 k st : inv N gen1 k st ->
    length (gens_of gen1 st) = S k /\ Forall (fun g => length g = N) (gens_of gen1 st) /\
    s_rec st = tagged 1 (gens_of gen1 st).
  Proof.
    intros [IL IOk ITl IRec IPar ISucc ITr ICh IG1]. unfold gens_of. repeat split; auto.
    - cbn. rewrite map_length. lia.
    - constructor; auto. apply Forall_forall. intros g Ig. apply in_map_iff in Ig.
      destruct Ig as (tr & <- & It). rewrite Forall_forall in ITr. apply (ITr tr It).
  Qed.

  (* nsga2_bookkeeping *)
  Theorem nsga2_bookkeeping N G init e0 gens st :
    2 <= N -> 1 <= G -> length init = N -> okc_entries e0 -> Forall okc_gen gens ->
    nsga2_run veq vexact select N G init e0 gens = Some st -> Forall fresh_tr (s_trace st) ->
    (* Problem.populations(): tags exactly 1..G, in this order, N designs each *)
    map (fun tl => (fst tl, length (snd tl))) (populations (s_rec st)) = map (fun t => (t, N)) (seq 1 G) /\
    (forall t, length (population (s_rec st) t) = if (1 <=? t) && (t <=? G) then N else 0) /\
    (* no design repeated inside a generation after the first *)
    (forall t, 2 <= t -> pairwise nosame (population (s_rec st) t)) /\
    (* budget *)
    successes (s_log st) = N * G.
  Proof.
    intros HN HG L Ok0 Ok E Fr.
    destruct (nsga2_run_inv N G init e0 gens st HN HG L Ok0 Ok E Fr) as (gen1 & I).
    destruct (inv_gens _ _ _ _ I) as (Lg & Fg & Rec).
    assert (Ne : Forall (fun g : list ind => g <> []) (gens_of gen1 st)).
    { eapply Forall_impl; [|exact Fg]. cbn. intros g Hg ->. cbn in Hg. lia. }
    repeat split.
    - rewrite Rec, populations_tagged; auto.
      assert (X : forall (gs : list (list ind)) f, Forall (fun g => length g = N) gs ->
                  map (fun tl : nat * list ind => (fst tl, length (snd tl))) (combine (seq f (length gs)) gs)
                  = map (fun t => (t, N)) (seq f (length gs))).
      { induction gs as [|g gs IH]; intros f F; cbn; auto.
        rewrite (Forall_inv F), (IH _ (Forall_inv_tail F)). reflexivity. }
      rewrite X; auto. rewrite Lg. replace (S (G - 1)) with G by lia. reflexivity.
    - intros t. rewrite Rec, population_tagged.
      destruct (1 <=? t) eqn:T1; cbn [andb]; auto.
      destruct (t <=? G) eqn:T2.
      + rewrite Forall_forall in Fg. apply Fg. apply nth_In. lia.
      + rewrite nth_overflow; auto. lia.
    - intros t Ht. rewrite Rec, population_tagged. replace (1 <=? t) with true by lia.
      unfold gens_of. destruct (t - 1) as [|i] eqn:D; [lia|]. cbn [nth].
      destruct (nth_in_or_default i (map t_next (s_trace st)) []) as [Ii|Ed]; [|rewrite Ed; exact Logic.I].
      apply in_map_iff in Ii. destruct Ii as (tr & Etr & It). rewrite <- Etr.
      destruct I as [_ _ _ _ _ _ ITr _ _]. rewrite Forall_forall in ITr. apply (ITr tr It).
    - destruct I as [_ _ _ _ _ ISucc _ _ _]. rewrite ISucc. replace (S (G - 1)) with G by lia. reflexivity.
  Qed.

  (* without failures the offspring stay pairwise different: H_fresh is automatic *)
  Lemma no_failures_fresh N k st g st' :
    2 <= N -> no_failures g -> nsga2_step veq vexact select N k st g = Some st' ->
    exists tr, s_trace st' = s_trace st ++ [tr] /\ fresh_tr tr.
  Proof.
    intros HN NF E. unfold nsga2_step in E.
    destruct (generate veq N (g_stream g) [] (s_ctr st)) as [[cands c1]|] eqn:G; [|discriminate].
    destruct (eval_batch vexact cands (g_eval g)) as [[offs lg]|] eqn:B; [|discriminate].
    inversion E; subst st'; clear E. cbn [s_trace]. eexists. split; [reflexivity|].
    unfold fresh_tr. cbn [t_offs].
    destruct (generate_exact veq N _ _ _ _ HN G) as (_ & Pc).
    destruct (eval_batch_spec _ _ _ _ _ B) as (_ & _ & _ & _ & _ & Vs). specialize (Vs NF).
    apply (pairwise_map rvec (fun a b => veq b a = false)). norm. rewrite Vs.
    apply (pairwise_map snd (fun a b => veq b a = false)). exact Pc.
  Qed.

  (* ---- elitism ---- *)
  Definition kept (next : list ind) (d : ind) : bool :=
    existsb (fun s => Nat.eqb (rid s) (rid d) || same s d) next.
  (* designs merged by set() carry equal signed costs (deterministic objective) *)
  Definition det_pool (pool : list ind) : Prop :=
    forall e x, In e pool -> In x pool -> same e x = true -> rcost e = rcost x.

  Lemma front_dominated pool y x : wf_pool pool -> In y pool -> In x pool ->
    cmp (rcost y) (rcost x) = 1 -> front pool y < front pool x.
  Proof.
    intros Wf Iy Ix D. rewrite (H_front_rank pool x Wf Ix).
    apply Nat.lt_succ_r. apply in_le_list_max. apply in_map. apply filter_In. split; auto.
    rewrite D. reflexivity.
  Qed.

  Lemma front_same_cost pool r d : wf_pool pool -> In r pool -> In d pool ->
    rcost r = rcost d -> front pool r = front pool d.
  Proof.
    intros Wf Ir Id E. rewrite (H_front_rank pool r Wf Ir), (H_front_rank pool d Wf Id), E. reflexivity.
  Qed.

  Lemma pool_ids_inj pool (a b : ind) : wf_pool pool -> In a pool -> In b pool -> rid a = rid b -> a = b.
  Proof.
    intros (ND & _) Ia Ib E. clear - ND Ia Ib E. induction pool as [|x pool IH]; [destruct Ia|].
    cbn in ND. inversion ND as [|? ? Nx ND']; subst.
    destruct Ia as [<-|Ia], Ib as [<-|Ib]; auto.
    - exfalso. apply Nx. rewrite E. apply in_map; auto.
    - exfalso. apply Nx. rewrite <- E. apply in_map; auto.
  Qed.

  Lemma elitism_pool pool N d :
    wf_pool pool -> det_pool pool -> In d pool -> kept (select pool N) d = false ->
    forall s, In s (select pool N) -> cmp (rcost d) (rcost s) <> 1.
  Proof.
    intros Wf Det Id K s Is Dom.
    assert (Inc : incl (select pool N) pool).
    { eapply incl_tran; [apply H_select_incl; auto|apply dedupe_by_incl]. }
    destruct (dedupe_by_covered same pool d Id) as (r & Ir & Rd).
    assert (Irp : In r pool) by (apply (dedupe_by_incl same); auto).
    assert (Nr : ~ In r (select pool N)).
    { intros Irs. assert (X : kept (select pool N) d = true); [|congruence].
      unfold kept. apply existsb_exists. exists r. split; auto.
      destruct Rd as [->|Sd]; [rewrite Nat.eqb_refl; reflexivity|rewrite Sd; apply orb_true_r]. }
    pose proof (H_select_elitist pool N s r Wf Is Ir Nr) as Le.
    pose proof (front_dominated pool d s Wf Id (Inc s Is) Dom) as Lt.
    assert (Eq : front pool r = front pool d).
    { apply front_same_cost; auto. destruct Rd as [->|Sd]; auto. }
    lia.
  Qed.

  (* nsga2_elitism: between generation t and t+1 (the members of generation t stand in the pool
     as copies with the same vector and costs) no survivor is dominated by a dropped member *)
  Theorem nsga2_elitism N G init e0 gens st :
    2 <= N -> 1 <= G -> length init = N -> okc_entries e0 -> Forall okc_gen gens ->
    nsga2_run veq vexact select N G init e0 gens = Some st -> Forall fresh_tr (s_trace st) ->
    forall t, 1 <= t -> t < G ->
    exists tr, nth_error (s_trace st) (t - 1) = Some tr /\
      t_parents tr = population (s_rec st) t /\ t_next tr = population (s_rec st) (S t) /\
      map rvec (t_copies tr) = map rvec (t_parents tr) /\ map rcost (t_copies tr) = map rcost (t_parents tr) /\
      (det_pool (t_offs tr ++ t_copies tr) ->
       forall d, In d (t_copies tr) -> kept (t_next tr) d = false ->
       forall s, In s (t_next tr) -> cmp (rcost d) (rcost s) <> 1).
  Proof.
    intros HN HG L Ok0 Ok E Fr t T1 T2.
    destruct (nsga2_run_inv N G init e0 gens st HN HG L Ok0 Ok E Fr) as (gen1 & I).
    destruct (inv_gens _ _ _ _ I) as (Lg & Fg & Rec).
    destruct I as [_ _ ITl _ _ _ ITr ICh _].
    destruct (nth_error (s_trace st) (t - 1)) as [tr|] eqn:Et.
    2:{ apply nth_error_None in Et. lia. }
    exists tr. split; auto.
    destruct (chain_nth _ _ _ _ ICh Et) as (Pa & Ne).
    rewrite Forall_forall in ITr. destruct (ITr tr (nth_error_In _ _ Et)) as (_ & _ & _ & Vc & Cc & Wf & Sel).
    rewrite Rec, !population_tagged. replace (1 <=? t) with true by lia. replace (1 <=? S t) with true by lia.
    replace (S t - 1) with (S (t - 1)) by lia. fold (gens_of gen1 st) in Pa, Ne.
    repeat split; auto.
    intros Det d Id K s Is. rewrite Sel in K, Is.
    eapply elitism_pool; eauto. apply in_or_app; auto.
  Qed.

  (* single objective: the cost type carries a strict order and the comparator is that order *)
  Section SingleObjective.
    Variable ltc : C -> C -> bool.
    Hypothesis H_lt_irrefl : forall c, ltc c c = false.
    Hypothesis H_single : forall a b, cmp a b = 1 <-> ltc a b = true.

    Theorem single_objective_best_monotone N G init e0 gens st :
      2 <= N -> 1 <= G -> length init = N -> okc_entries e0 -> Forall okc_gen gens ->
      nsga2_run veq vexact select N G init e0 gens = Some st -> Forall fresh_tr (s_trace st) ->
      Forall (fun tr => det_pool (t_offs tr ++ t_copies tr)) (s_trace st) ->
      forall t, 1 <= t -> t < G ->
      forall p, In p (population (s_rec st) t) ->
      exists s, In s (population (s_rec st) (S t)) /\ ltc (rcost p) (rcost s) = false.
    Proof.
      intros HN HG L Ok0 Ok E Fr Det t T1 T2 p Ip.
      destruct (nsga2_elitism N G init e0 gens st HN HG L Ok0 Ok E Fr t T1 T2)
        as (tr & Et & Pa & Ne & Vc & Cc & El).
      rewrite Forall_forall in Det. specialize (El (Det tr (nth_error_In _ _ Et))).
      destruct (nsga2_run_inv N G init e0 gens st HN HG L Ok0 Ok E Fr) as (gen1 & I).
      destruct I as [_ _ _ _ _ _ ITr _ _]. rewrite Forall_forall in ITr.
      destruct (ITr tr (nth_error_In _ _ Et)) as (Ln & _ & _ & _ & _ & Wf & Sel).
      rewrite <- Pa in Ip. rewrite <- Ne.
      assert (Ic : In (rcost p) (map rcost (t_copies tr))) by (rewrite Cc; apply in_map; auto).
      apply in_map_iff in Ic. destruct Ic as (c & Ec & Ic). rewrite <- Ec.
      assert (Inc : incl (t_next tr) (t_offs tr ++ t_copies tr)).
      { rewrite Sel. eapply incl_tran; [apply H_select_incl; auto|apply dedupe_by_incl]. }
      destruct (kept (t_next tr) c) eqn:K.
      - unfold kept in K. apply existsb_exists in K. destruct K as (s & Is & Ks).
        exists s. split; auto.
        assert (Es : rcost s = rcost c).
        { apply orb_true_iff in Ks. destruct Ks as [Ki|Ksame].
          - apply Nat.eqb_eq in Ki. f_equal. eapply pool_ids_inj; eauto. apply in_or_app; auto.
          - apply (Det tr (nth_error_In _ _ Et)); auto. apply in_or_app; auto. }
        rewrite Es. apply H_lt_irrefl.
      - destruct (t_next tr) as [|s rest] eqn:En; [cbn in Ln; lia|].
        exists s. split; [left; reflexivity|].
        destruct (ltc (rcost c) (rcost s)) eqn:Lt; auto.
        exfalso. apply (El c Ic K s); [left; reflexivity|]. apply H_single. exact Lt.
    Qed.

    (* in terms of best costs: a lower bound of generation t+1 that is attained ... *)
    Corollary best_cost_never_worse N G init e0 gens st :
      (forall x y z, ltc x y = false -> ltc y z = false -> ltc x z = false) ->
      2 <= N -> 1 <= G -> length init = N -> okc_entries e0 -> Forall okc_gen gens ->
      nsga2_run veq vexact select N G init e0 gens = Some st -> Forall fresh_tr (s_trace st) ->
      Forall (fun tr => det_pool (t_offs tr ++ t_copies tr)) (s_trace st) ->
      forall t, 1 <= t -> t < G ->
      forall best best' : C,
        (exists p, In p (population (s_rec st) t) /\ rcost p = best) ->                 (* best cost of generation t *)
        (forall s, In s (population (s_rec st) (S t)) -> ltc (rcost s) best' = false) ->  (* best' <= all of t+1 *)
        ltc best best' = false.                                                         (* best' <= best *)
    Proof.
      intros NT HN HG L Ok0 Ok E Fr Det t T1 T2 best best' (p & Ip & <-) Lb.
      destruct (single_objective_best_monotone N G init e0 gens st HN HG L Ok0 Ok E Fr Det t T1 T2 p Ip)
        as (s & Is & Ls).
      eapply NT; eauto.
    Qed.
  End SingleObjective.
End Nsga2.

(* ------------------------------------------------------------------------------------ *)
(* pop_acceptance, eps-MOEA, OMOPSO / SMPSO                                               *)
(* ------------------------------------------------------------------------------------ *)
Section Acceptance.
  Context {V C : Type}.
  Variable veq : V -> V -> bool.
  Variable vexact : V -> V -> bool.
  Variable cmp : C -> C -> nat.
  Local Notation ind := (ind (V := V) (C := C)).

  Definition dominates_some (pop : list ind) (x : ind) : Prop :=
    exists p, In p pop /\ cmp (rcost x) (rcost p) = 1.
  Definition dominated_by_some (pop : list ind) (x : ind) : Prop :=
    exists p, In p pop /\ cmp (rcost x) (rcost p) = 2.

  Lemma dominated_positions_spec (pop : list ind) x i :
    In i (dominated_positions cmp pop x) <-> exists p, nth_error pop i = Some p /\ cmp (rcost x) (rcost p) = 1.
  Proof.
    unfold dominated_positions. rewrite filter_In, in_seq. split.
    - intros (_ & F). destruct (nth_error pop i) as [p|]; [|discriminate]. exists p. split; auto.
      apply Nat.eqb_eq; auto.
    - intros (p & E & D). split.
      + split; [lia|]. cbn. apply nth_error_Some. congruence.
      + rewrite E, D. reflexivity.
  Qed.

  Lemma dominated_positions_nil (pop : list ind) x :
    dominated_positions cmp pop x = [] <-> ~ dominates_some pop x.
  Proof.
    split.
    - intros E (p & Ip & D). apply In_nth_error in Ip. destruct Ip as (i & Ei).
      assert (X : In i (dominated_positions cmp pop x)) by (apply dominated_positions_spec; eauto).
      rewrite E in X. destruct X.
    - intros N. destruct (dominated_positions cmp pop x) as [|i l] eqn:E; auto.
      exfalso. apply N. assert (X : In i (dominated_positions cmp pop x)) by (rewrite E; left; auto).
      apply dominated_positions_spec in X. destruct X as (p & Ep & D). exists p. split; auto.
      eapply nth_error_In; eauto.
  Qed.

  Lemma is_dominated_spec (pop : list ind) x : is_dominated cmp pop x = true <-> dominated_by_some pop x.
  Proof.
    unfold is_dominated, dominated_by_some. rewrite existsb_exists.
    split; intros (p & Ip & D); exists p; split; auto; apply Nat.eqb_eq; auto.
  Qed.

  (* pop_acceptance_size: the list length never changes *)
  Theorem pop_acceptance_size (pop : list ind) x ch r :
    pop_acceptance veq cmp pop x ch = Some r -> length r = length pop.
  Proof.
    unfold pop_acceptance. destruct (dominated_positions cmp pop x) as [|d doms] eqn:Ed.
    - destruct (is_dominated cmp pop x).
      + destruct ch; [discriminate|]. intros E; inversion E; auto.
      + destruct ch as [c|]; [|discriminate]. destruct (nth_error pop c) as [y|] eqn:Ey; [|discriminate].
        destruct (remove_first (item_equal veq y) pop) as [r'|] eqn:Er; [|discriminate].
        intros E; inversion E; subst. destruct (remove_first_spec _ _ _ Er) as (j & z & Ej & _ & -> & _).
        rewrite app_length. cbn. rewrite Nat.add_1_r. apply remove_nth_length.
        apply nth_error_Some. congruence.
    - destruct ch as [c|]; [|discriminate].
      destruct (existsb (Nat.eqb c) (d :: doms)) eqn:Ex; [|discriminate].
      intros E; inversion E; subst. apply existsb_exists in Ex. destruct Ex as (c' & Ic & Ec).
      apply Nat.eqb_eq in Ec. subst c'. rewrite <- Ed in Ic. apply dominated_positions_spec in Ic.
      destruct Ic as (p & Ep & _). rewrite app_length. cbn. rewrite Nat.add_1_r. apply remove_nth_length.
      apply nth_error_Some. congruence.
  Qed.

  (* the three-way case statement *)
  Theorem pop_acceptance_cases (pop : list ind) x ch r :
    pop_acceptance veq cmp pop x ch = Some r ->
    (dominates_some pop x ->
       exists c p, nth_error pop c = Some p /\ cmp (rcost x) (rcost p) = 1 /\ r = remove_nth c pop ++ [x]) /\
    (~ dominates_some pop x -> dominated_by_some pop x -> r = pop) /\
    (~ dominates_some pop x -> ~ dominated_by_some pop x ->
       exists j, j < length pop /\ r = remove_nth j pop ++ [x]).
  Proof.
    unfold pop_acceptance. destruct (dominated_positions cmp pop x) as [|d doms] eqn:Ed.
    - pose proof (proj1 (dominated_positions_nil pop x) Ed) as ND.
      destruct (is_dominated cmp pop x) eqn:Dm.
      + destruct ch; [discriminate|]. intros E; inversion E; subst. repeat split; auto; try tauto.
        intros _ NB. exfalso. apply NB. apply is_dominated_spec; auto.
      + destruct ch as [c|]; [|discriminate]. destruct (nth_error pop c) as [y|] eqn:Ey; [|discriminate].
        destruct (remove_first (item_equal veq y) pop) as [r'|] eqn:Er; [|discriminate].
        intros E; inversion E; subst. destruct (remove_first_spec _ _ _ Er) as (j & z & Ej & _ & -> & _).
        repeat split; try tauto.
        * intros _ B. apply is_dominated_spec in B. congruence.
        * intros _ _. exists j. split; auto. apply nth_error_Some. congruence.
    - assert (DS : dominates_some pop x).
      { destruct (dominated_positions_nil pop x) as (_ & X).
        destruct (dominated_positions cmp pop x) eqn:E'; [discriminate|].
        clear X. assert (X : In d (dominated_positions cmp pop x)) by (rewrite E', Ed; left; auto).
        apply dominated_positions_spec in X. destruct X as (p & Ep & D). exists p. split; auto.
        eapply nth_error_In; eauto. }
      destruct ch as [c|]; [|discriminate].
      destruct (existsb (Nat.eqb c) (d :: doms)) eqn:Ex; [|discriminate].
      intros E; inversion E; subst. apply existsb_exists in Ex. destruct Ex as (c' & Ic & Ec).
      apply Nat.eqb_eq in Ec. subst c'. rewrite <- Ed in Ic. apply dominated_positions_spec in Ic.
      destruct Ic as (p & Ep & D). repeat split; try tauto. intros _. exists c, p. auto.
  Qed.

  (* the step is defined for a suitable answer of random.choice whenever the population is not empty *)
  Theorem pop_acceptance_total (pop : list ind) x :
    pop <> [] -> (forall y : ind, item_equal veq y y = true) ->
    exists ch r, pop_acceptance veq cmp pop x ch = Some r.
  Proof.
    intros NE Refl. unfold pop_acceptance. destruct (dominated_positions cmp pop x) as [|d doms] eqn:Ed.
    - destruct (is_dominated cmp pop x); [exists None; eauto|].
      destruct pop as [|y pop]; [congruence|]. exists (Some 0). cbn [nth_error remove_first].
      rewrite Refl. eauto.
    - exists (Some d). cbn [existsb]. rewrite Nat.eqb_refl. cbn. eauto.
  Qed.
End Acceptance.

Section EpsPso.
  Context {V C : Type}.
  Variable veq : V -> V -> bool.
  Variable vexact : V -> V -> bool.
  Variable cmp : C -> C -> nat.
  Local Notation ind := (ind (V := V) (C := C)).
  Local Notation estate := (estate (V := V) (C := C)).
  Local Notation pstate := (pstate (V := V) (C := C)).

  Lemma tag_size_seq (N : nat) : forall (gs : list (list ind)) f, Forall (fun g => length g = N) gs ->
    map (fun tl : nat * list ind => (fst tl, length (snd tl))) (combine (seq f (length gs)) gs)
    = map (fun t => (t, N)) (seq f (length gs)).
  Proof.
    induction gs as [|g gs IH]; intros f F; cbn; auto.
    rewrite (Forall_inv F), (IH _ (Forall_inv_tail F)). reflexivity.
  Qed.

  (* ---------------- eps-MOEA ---------------- *)
  Lemma accept_all_spec : forall (offs : list ind) chs tag pop recs sizes pop' recs' sizes',
    accept_all veq cmp tag pop recs sizes offs chs = Some (pop', recs', sizes') ->
    length pop' = length pop /\ recs' = recs ++ map (pair tag) offs /\
    exists new, sizes' = sizes ++ new /\ length new = length offs /\ Forall (fun n => n = length pop) new.
  Proof.
    induction offs as [|x offs IH]; intros chs tag pop recs sizes pop' recs' sizes' E;
      destruct chs as [|ch chs]; cbn in E; try discriminate.
    - inversion E; subst. repeat split; auto; [now rewrite app_nil_r|]. exists []. rewrite app_nil_r. auto.
    - destruct (pop_acceptance veq cmp pop x ch) as [pop1|] eqn:A; [|discriminate].
      pose proof (pop_acceptance_size _ _ _ _ _ _ A) as L1.
      destruct (IH _ _ _ _ _ _ _ _ E) as (L & R & new & Sz & Ln & F).
      repeat split; [congruence|rewrite R, <- app_assoc; reflexivity|].
      exists (length pop1 :: new). repeat split.
      + rewrite Sz, <- app_assoc. reflexivity.
      + cbn. lia.
      + constructor; auto. rewrite L1 in F. exact F.
  Qed.

  Record einv (N k : nat) (st : estate) : Prop := {
    einv_pop : length (es_pop st) = N;
    einv_rec : exists gs, es_rec st = tagged 0 gs /\ length gs = S k /\ Forall (fun g => length g = N) gs;
    einv_succ : successes (es_log st) = N * S k;
    einv_sizes : Forall (fun n => n = N) (es_sizes st) /\ length (es_sizes st) = N * k }.

  Lemma mk_cands_length (vs : list V) ctr : length (mk_cands vs ctr) = length vs.
  Proof. unfold mk_cands. norm. rewrite combine_length, seq_length. apply Nat.min_id. Qed.

  Lemma eps_init_inv N init e0 st : length init = N -> eps_init vexact init e0 = Some st -> einv N 0 st.
  Proof.
    unfold eps_init. intros L E.
    destruct (eval_batch vexact (mk_cands init 0) e0) as [[inds lg]|] eqn:B; [|discriminate].
    inversion E; subst. destruct (eval_batch_spec _ _ _ _ _ B) as (Li & _ & _ & Sc & _ & _).
    pose proof (mk_cands_length init 0) as Lc.
    assert (Ll : length inds = length init) by exact (eq_trans Li Lc).
    constructor; cbn [es_pop es_rec es_log es_sizes]; auto.
    - exists [inds]. cbn. rewrite app_nil_r. repeat split; auto.
    - rewrite (eq_trans Sc Lc). lia.
  Qed.

  Lemma eps_step_inv N k st g st' :
    2 <= N -> einv N k st -> eps_step veq vexact cmp N k st g = Some st' -> einv N (S k) st'.
  Proof.
    intros HN [IP (gs & IR & ILg & IF) IS (ISz & ISl)] E. unfold eps_step in E.
    destruct (generate veq N (eg_stream g) [] (es_ctr st)) as [[cands c1]|] eqn:G; [|discriminate].
    destruct (eval_batch vexact cands (eg_eval g)) as [[offs lg]|] eqn:B; [|discriminate].
    destruct (accept_all veq cmp (k + 1) (es_pop st) (es_rec st) (es_sizes st) offs (eg_choice g))
      as [[[pop' recs'] sizes']|] eqn:A; [|discriminate].
    inversion E; subst st'; clear E.
    destruct (generate_exact veq N _ _ _ _ HN G) as (Lc & _).
    destruct (eval_batch_spec _ _ _ _ _ B) as (Lo & _ & _ & So & _ & _).
    destruct (accept_all_spec _ _ _ _ _ _ _ _ _ A) as (Lp & R & new & Sz & Ln & Fn).
    assert (Loff : length offs = N) by exact (eq_trans Lo Lc).
    constructor; cbn [es_pop es_rec es_log es_sizes].
    - congruence.
    - exists (gs ++ [offs]). rewrite tagged_snoc, R, IR, ILg. replace (0 + S k) with (k + 1) by lia.
      repeat split; auto.
      + rewrite app_length. cbn. lia.
      + apply Forall_app. split; auto.
    - rewrite successes_app, IS, (eq_trans So Lc). lia.
    - rewrite Sz. split.
      + apply Forall_app. split; auto. eapply Forall_impl; [|exact Fn]. cbn. intros n ->. exact IP.
      + rewrite app_length, ISl, Ln, Loff. lia.
  Qed.

  Lemma eps_loop_inv N : forall k it st gens st',
    2 <= N -> einv N it st -> eps_loop veq vexact cmp N it k st gens = Some st' -> einv N (it + k) st'.
  Proof.
    induction k as [|k IH]; intros it st gens st' HN I E; cbn in E.
    - destruct gens; [|discriminate]. inversion E; subst. rewrite Nat.add_0_r. auto.
    - destruct gens as [|g gens]; [discriminate|].
      destruct (eps_step veq vexact cmp N it st g) as [st1|] eqn:S1; [|discriminate].
      pose proof (eps_step_inv N it st g st1 HN I S1) as I1.
      replace (it + S k) with (S it + k) by lia. eapply IH; eauto.
  Qed.

  Theorem epsmoea_bookkeeping N G init e0 gens st :
    2 <= N -> length init = N -> eps_run veq vexact cmp N G init e0 gens = Some st ->
    map (fun tl => (fst tl, length (snd tl))) (populations (es_rec st)) = map (fun t => (t, N)) (seq 0 (S G)) /\
    (forall t, length (population (es_rec st) t) = if t <=? G then N else 0) /\
    successes (es_log st) = N * (G + 1) /\
    (* the working population keeps its size at every acceptance step *)
    length (es_pop st) = N /\ Forall (fun n => n = N) (es_sizes st) /\ length (es_sizes st) = N * G.
  Proof.
    intros HN L E. unfold eps_run in E.
    destruct (eps_init vexact init e0) as [st0|] eqn:E0; [|discriminate].
    pose proof (eps_loop_inv N G 0 st0 gens st HN (eps_init_inv N init e0 st0 L E0) E) as I.
    cbn [Nat.add] in I. destruct I as [IP (gs & IR & ILg & IF) IS (ISz & ISl)].
    assert (Ne : Forall (fun g : list ind => g <> []) gs).
    { eapply Forall_impl; [|exact IF]. cbn. intros g Hg ->. cbn in Hg. lia. }
    repeat split; auto.
    - rewrite IR, populations_tagged; auto. rewrite tag_size_seq with (N := N); auto. rewrite ILg. reflexivity.
    - intros t. rewrite IR, population_tagged. cbn [Nat.leb]. rewrite Nat.sub_0_r.
      destruct (t <=? G) eqn:T.
      + rewrite Forall_forall in IF. apply IF. apply nth_In. lia.
      + rewrite nth_overflow; auto. lia.
    - rewrite IS. lia.
  Qed.

  (* ---------------- OMOPSO / SMPSO ---------------- *)
  Lemma permute_length {A} (perm : list nat) (l : list A) :
    is_perm_of_positions perm (length l) = true -> length (permute perm l) = length l.
  Proof.
    unfold is_perm_of_positions. rewrite !andb_true_iff. intros ((Ln & Bd) & _).
    apply Nat.eqb_eq in Ln. rewrite <- Ln. clear Ln. unfold permute.
    induction perm as [|i perm IH]; cbn [forallb flat_map length] in *; auto.
    apply andb_true_iff in Bd. destruct Bd as (Bi & Bd). rewrite app_length, IH; auto.
    destruct (nth_error l i) eqn:E; [reflexivity|]. apply nth_error_None in E. lia.
  Qed.

  Record pinv (N k : nat) (st : pstate) : Prop := {
    pinv_pop : length (ps_pop st) = N;
    pinv_rec : exists gs, ps_rec st = tagged 0 gs /\ length gs = S k /\ Forall (fun g => length g = N) gs;
    pinv_succ : successes (ps_log st) = N * S k }.

  Lemma pso_init_inv N init e0 st : length init = N -> pso_init vexact init e0 = Some st -> pinv N 0 st.
  Proof.
    unfold pso_init. intros L E.
    destruct (eval_batch vexact (mk_cands init 0) e0) as [[inds lg]|] eqn:B; [|discriminate].
    inversion E; subst. destruct (eval_batch_spec _ _ _ _ _ B) as (Li & _ & _ & Sc & _ & _).
    pose proof (mk_cands_length init 0) as Lc.
    assert (Ll : length inds = length init) by exact (eq_trans Li Lc).
    constructor; cbn [ps_pop ps_rec ps_log]; auto.
    - exists [inds]. cbn. rewrite app_nil_r. repeat split; auto.
    - rewrite (eq_trans Sc Lc). lia.
  Qed.

  Lemma pso_step_inv N k st g st' :
    pinv N k st -> pso_step vexact k st g = Some st' -> pinv N (S k) st'.
  Proof.
    intros [IP (gs & IR & ILg & IF) IS] E. unfold pso_step in E.
    destruct (Nat.eqb (length (pg_vecs g)) (length (ps_pop st))) eqn:Lv; [|discriminate].
    apply Nat.eqb_eq in Lv.
    destruct (eval_batch vexact (mk_cands (pg_vecs g) (ps_ctr st)) (pg_eval g)) as [[offs0 lg]|] eqn:B; [|discriminate].
    destruct (is_perm_of_positions (pg_perm g) (length offs0)) eqn:Pm; [|discriminate].
    inversion E; subst st'; clear E.
    destruct (eval_batch_spec _ _ _ _ _ B) as (Lo & _ & _ & So & _ & _).
    pose proof (mk_cands_length (pg_vecs g) (ps_ctr st)) as Lc.
    assert (L0 : length offs0 = N) by (rewrite (eq_trans Lo Lc); congruence).
    pose proof (permute_length _ _ Pm) as Lp.
    constructor; cbn [ps_pop ps_rec ps_log].
    - congruence.
    - exists (gs ++ [permute (pg_perm g) offs0]). rewrite tagged_snoc, IR, ILg. replace (0 + S k) with (k + 1) by lia.
      repeat split; auto.
      + rewrite app_length. cbn. lia.
      + apply Forall_app. split; auto. constructor; [congruence|constructor].
    - rewrite successes_app, IS, (eq_trans So Lc), Lv, IP. lia.
  Qed.

  Lemma pso_loop_inv N : forall k it st gens st',
    pinv N it st -> pso_loop vexact it k st gens = Some st' -> pinv N (it + k) st'.
  Proof.
    induction k as [|k IH]; intros it st gens st' I E; cbn in E.
    - destruct gens; [|discriminate]. inversion E; subst. rewrite Nat.add_0_r. auto.
    - destruct gens as [|g gens]; [discriminate|].
      destruct (pso_step vexact it st g) as [st1|] eqn:S1; [|discriminate].
      pose proof (pso_step_inv N it st g st1 I S1) as I1.
      replace (it + S k) with (S it + k) by lia. eapply IH; eauto.
  Qed.

  Theorem pso_bookkeeping N G init (e0 : list (ev_entry V C)) gens st :
    1 <= N -> length init = N -> pso_run vexact G init e0 gens = Some st ->
    map (fun tl => (fst tl, length (snd tl))) (populations (ps_rec st)) = map (fun t => (t, N)) (seq 0 (S G)) /\
    (forall t, length (population (ps_rec st) t) = if t <=? G then N else 0) /\
    successes (ps_log st) = N * (G + 1).
  Proof.
    intros HN L E. unfold pso_run in E.
    destruct (pso_init vexact init e0) as [st0|] eqn:E0; [|discriminate].
    pose proof (pso_loop_inv N G 0 st0 gens st (pso_init_inv N init e0 st0 L E0) E) as I.
    cbn [Nat.add] in I. destruct I as [IP (gs & IR & ILg & IF) IS].
    assert (Ne : Forall (fun g : list ind => g <> []) gs).
    { eapply Forall_impl; [|exact IF]. cbn. intros g Hg ->. cbn in Hg. lia. }
    repeat split; auto.
    - rewrite IR, populations_tagged; auto. rewrite tag_size_seq with (N := N); auto. rewrite ILg. reflexivity.
    - intros t. rewrite IR, population_tagged. cbn [Nat.leb]. rewrite Nat.sub_0_r.
      destruct (t <=? G) eqn:T.
      + rewrite Forall_forall in IF. apply IF. apply nth_In. lia.
      + rewrite nth_overflow; auto. lia.
    - rewrite IS. lia.
  Qed.
End EpsPso.
