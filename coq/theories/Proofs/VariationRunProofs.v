(* Proofs for Model/VariationRun.v (property C08, run level): every vector a generation step of NSGA-II,
   eps-MOEA, OMOPSO, SMPSO, PSOGA submits to the objective lies in the (outer) box, and so does the next
   population; by induction over the generations, every vector a whole run submits.  `outer` is the declared
   box widened by the rounding slack of the generators; the initial and the re-rolled designs (outputs of
   gen_vector) are assumed to lie in it, everything else - selections, tapes, velocities - is arbitrary. *)
From Coq Require Import List Bool Arith Lia.
From Artap Require Import Base.Ord Model.Variation Model.VariationRun Proofs.VariationProofs.
Import ListNotations.

Section RunP.
  Context {T : Type} (ltb : T -> T -> bool) (HO : SWO ltb).
  Variable far : T -> T -> bool.
  Variable half : T.
  Variable add : T -> T -> T.
  Variable flip : T -> T.
  Variable damp : T -> T.
  Variable close : T -> T -> bool.
  Variables params outer : list (T * T).
  Hypothesis HB : boxes ltb params outer.

  Definition okv (v : list T) : Prop := in_box ltb outer v.
  Definition okl (l : list (list T)) : Prop := Forall okv l.
  (* the only requirement on a script: re-rolled designs are in the outer box *)
  Definition script_ok (s : script (T:=T)) : Prop :=
    Forall okl (s_rerolls s) /\ Forall okl (s_rerolls2 s).

  Lemma boxes_split_gen ps ws : boxes ltb ps ws -> Forall (wf ltb) ps /\ Forall2 (within ltb) ps ws.
  Proof. induction 1 as [|p w ps ws [A B] _ [IH1 IH2]]; split; constructor; assumption. Qed.

  Lemma boxes_split : Forall (wf ltb) params /\ Forall2 (within ltb) params outer.
  Proof. exact (boxes_split_gen _ _ HB). Qed.

  Lemma in_box_widen_gen ps ws : Forall2 (within ltb) ps ws -> forall v, in_box ltb ps v -> in_box ltb ws v.
  Proof.
    induction 1 as [|p w ps ws Hw _ IH]; intros v B; inversion B; subst; constructor.
    - eapply inside_widen; eassumption.
    - apply IH; assumption.
  Qed.

  Lemma in_box_widen v : in_box ltb params v -> okv v.
  Proof. apply in_box_widen_gen. exact (proj2 boxes_split). Qed.

  Lemma okv_length v : okv v -> length v = length params.
  Proof.
    intros B. unfold okv in B. rewrite (in_box_length _ _ _ B). symmetry. eapply F2_length; exact HB.
  Qed.

  Lemma last_ok r v : okl r -> okv v -> okv (last r v).
  Proof.
    intros R. revert v. induction R as [|x r Hx _ IH]; intros v Hv; [exact Hv|].
    destruct r as [|y r']; [exact Hx|]. change (okv (last (y :: r') v)). apply IH. exact Hv.
  Qed.

  Lemma evaluate_all_ok : forall vs rr sub fin,
    okl vs -> Forall okl rr -> evaluate_all vs rr = Some (sub, fin) ->
    okl sub /\ okl fin /\ length fin = length vs.
  Proof.
    induction vs as [|v vs IH]; intros rr sub fin HV HR HE; destruct rr as [|r rr]; cbn -[Nat.ltb] in HE; try discriminate.
    - inversion HE; subst. repeat split; constructor.
    - destruct (4 <? length r); [discriminate|].
      destruct (evaluate_all vs rr) as [[s f]|] eqn:E; [|discriminate]. inversion HE; subst.
      inversion HV as [|? ? Hv HV']; subst. inversion HR as [|? ? Hr HR']; subst.
      destruct (IH _ _ _ HV' HR' E) as (A & B & C).
      split; [|split].
      + constructor; [exact Hv|]. apply Forall_app; split; assumption.
      + constructor; [apply last_ok; assumption | exact B].
      + cbn. congruence.
  Qed.

  Lemma select_all_ok {A : Type} (P : A -> Prop) : forall l idx r,
    Forall P l -> select_all l idx = Some r -> Forall P r.
  Proof.
    intros l idx. induction idx as [|i is IH]; intros r HL HS; cbn in HS.
    - inversion HS; subst. constructor.
    - destruct (nth_error l i) as [a|] eqn:E; [|discriminate].
      destruct (select_all l is) as [r'|]; [|discriminate]. inversion HS; subst.
      constructor; [|apply IH; [exact HL|reflexivity]].
      rewrite Forall_forall in HL. apply HL. eapply nth_error_In; exact E.
  Qed.

  Lemma nth_error_ok pool i p : okl pool -> nth_error pool i = Some p -> okv p.
  Proof. intros HL E. unfold okl in HL. rewrite Forall_forall in HL. apply HL. eapply nth_error_In; exact E. Qed.

  Lemma breed_pair_ok pc pm pool b c1 c2 :
    okl pool -> breed_pair ltb far half params pc pm pool b = Some (c1, c2) -> okv c1 /\ okv c2.
  Proof.
    intros HP HE. unfold breed_pair in HE.
    destruct (nth_error pool (b_i1 b)) as [p1|] eqn:E1; [|discriminate].
    destruct (nth_error pool (b_i2 b)) as [p2|] eqn:E2; [|discriminate].
    destruct (sbx_cross ltb far half pc params p1 p2 (b_sbx b)) as [[x1 x2]|] eqn:ES; [|discriminate].
    destruct (pm_mutate ltb pm params x1 (b_m1 b)) as [d1|] eqn:M1; [|discriminate].
    destruct (pm_mutate ltb pm params x2 (b_m2 b)) as [d2|] eqn:M2; [|discriminate].
    inversion HE; subst.
    destruct (sbx_in_box_outer ltb HO far half pc params outer p1 p2 _ _ _ HB
                (nth_error_ok _ _ _ HP E1) (nth_error_ok _ _ _ HP E2) ES) as (_ & _ & B1 & B2).
    split.
    - exact (proj2 (pm_in_box_outer ltb HO pm params outer x1 _ _ HB B1 M1)).
    - exact (proj2 (pm_in_box_outer ltb HO pm params outer x2 _ _ HB B2 M2)).
  Qed.

  Lemma add_children_ok N offs c1 c2 : okl offs -> okv c1 -> okv c2 -> okl (add_children close N offs c1 c2).
  Proof.
    intros HOf H1 H2. unfold add_children.
    set (o1 := match offs with [] => [c1] | _ :: _ => offs end).
    assert (K1 : okl o1). { subst o1. destruct offs; [repeat constructor; exact H1 | exact HOf]. }
    set (o2 := if existsb (vclose close c1) o1 && (length o1 <? N) then o1 else o1 ++ [c1]).
    assert (K2 : okl o2).
    { subst o2. destruct (existsb (vclose close c1) o1 && (length o1 <? N)); [exact K1|].
      apply Forall_app; split; [exact K1 | repeat constructor; exact H1]. }
    destruct (existsb (vclose close c2) o2 && (length o2 <? N)); [exact K2|].
    destruct (length o2 <? N); [|exact K2].
    apply Forall_app; split; [exact K2 | repeat constructor; exact H2].
  Qed.

  Lemma generate_ok N pc pm pool : okl pool -> forall events offs r,
    okl offs -> generate ltb far half close params N pc pm pool events offs = Some r -> okl r.
  Proof.
    intros HP. induction events as [|b bs IH]; intros offs r HOf HG; cbn in HG.
    - destruct (N <=? length offs); [|discriminate]. inversion HG; subst. exact HOf.
    - destruct (N <=? length offs); [discriminate|].
      destruct (breed_pair ltb far half params pc pm pool b) as [[c1 c2]|] eqn:E; [|discriminate].
      destruct (breed_pair_ok _ _ _ _ _ _ HP E) as [H1 H2].
      eapply IH; [|exact HG]. apply add_children_ok; assumption.
  Qed.

  (* --- the five generation steps --------------------------------------------------------------------- *)
  Theorem step_in_box_nsga2 N pc pm pop s sub pop' :
    okl pop -> script_ok s ->
    nsga2_step ltb far half close params N pc pm pop s = Some (sub, pop') -> okl sub /\ okl pop'.
  Proof.
    intros HP [HR _] HS. unfold nsga2_step in HS.
    destruct (s_keep_arch s); [|discriminate]. destruct (s_vel s); [|discriminate].
    destruct (s_tapes s); [|discriminate]. destruct (s_rerolls2 s); [|discriminate].
    destruct (generate ltb far half close params N pc pm pop (s_events s) []) as [offs|] eqn:G; [|discriminate].
    destruct (evaluate_all offs (s_rerolls s)) as [[sb offs']|] eqn:E; [|discriminate].
    destruct (select_all (offs' ++ pop) (s_keep s)) as [p'|] eqn:K; [|discriminate].
    inversion HS; subst.
    assert (GO : okl offs) by (eapply generate_ok; [exact HP| |exact G]; constructor).
    destruct (evaluate_all_ok _ _ _ _ GO HR E) as (A & B & _).
    split; [exact A|]. eapply select_all_ok; [|exact K]. apply Forall_app; split; assumption.
  Qed.

  Definition ok_state2 (st : list (list T) * list (list T)) : Prop := okl (fst st) /\ okl (snd st).

  Theorem step_in_box_epsmoea N pc pm st s sub st' :
    ok_state2 st -> script_ok s ->
    epsmoea_step ltb far half close params N pc pm st s = Some (sub, st') -> okl sub /\ ok_state2 st'.
  Proof.
    destruct st as [pop arch]. intros [HP HA] [HR _] HS. cbn [fst snd] in HP, HA. unfold epsmoea_step in HS.
    destruct (s_vel s); [|discriminate]. destruct (s_tapes s); [|discriminate]. destruct (s_rerolls2 s); [|discriminate].
    destruct (generate ltb far half close params N pc pm (pop ++ arch) (s_events s) []) as [offs|] eqn:G; [|discriminate].
    destruct (evaluate_all offs (s_rerolls s)) as [[sb offs']|] eqn:E; [|discriminate].
    destruct (select_all (pop ++ offs') (s_keep s)) as [p'|] eqn:K1; [|discriminate].
    destruct (select_all (arch ++ offs') (s_keep_arch s)) as [a'|] eqn:K2; [|discriminate].
    inversion HS; subst.
    assert (GO : okl offs).
    { eapply generate_ok; [| |exact G]; [apply Forall_app; split; assumption | constructor]. }
    destruct (evaluate_all_ok _ _ _ _ GO HR E) as (A & B & _).
    split; [exact A|]. split; cbn [fst snd].
    - eapply select_all_ok; [|exact K1]. apply Forall_app; split; assumption.
    - eapply select_all_ok; [|exact K2]. apply Forall_app; split; assumption.
  Qed.

  Lemma swarm_move_ok bounce mut prob : forall pop i vel tapes moved,
    okl pop -> swarm_move ltb add params bounce mut prob i pop vel tapes = Some moved -> okl moved.
  Proof.
    destruct boxes_split as [W _].
    induction pop as [|x pop IH]; intros i vel tapes moved HP HM; destruct vel as [|v vel]; destruct tapes as [|t tapes];
      cbn in HM; try discriminate.
    - inversion HM; subst. constructor.
    - inversion HP as [|? ? Hx HP']; subst.
      destruct (position_update ltb add bounce params x v) as [[x1 v1]|] eqn:EP; [|discriminate].
      destruct (position_in_box ltb HO add bounce params x v x1 v1 W (okv_length _ Hx) EP) as [B1 _].
      pose proof (in_box_widen _ B1) as O1.
      destruct (swarm_move ltb add params bounce mut prob (S i) pop vel tapes) as [r|] eqn:ER.
      2:{ destruct (match mut i with Some k => mutate_with ltb k prob params x1 t
                    | None => match t with [] => Some x1 | _ :: _ => None end end); discriminate. }
      pose proof (IH _ _ _ _ HP' ER) as OR.
      destruct (mut i) as [k|].
      + destruct (mutate_with ltb k prob params x1 t) as [y|] eqn:EM; [|discriminate]. inversion HM; subst.
        constructor; [|exact OR]. exact (proj2 (mutate_with_in_box ltb HO k prob params outer x1 t y HB O1 EM)).
      + destruct t; [|discriminate]. inversion HM; subst. constructor; assumption.
  Qed.

  Lemma swarm_step_ok bounce mut prob pop s sub pop' :
    okl pop -> script_ok s ->
    swarm_step ltb add params bounce mut prob pop s = Some (sub, pop') -> okl sub /\ okl pop'.
  Proof.
    intros HP [HR _] HS. unfold swarm_step in HS.
    destruct (s_events s); [|discriminate].
    destruct (s_keep_arch s); [|discriminate]. destruct (s_rerolls2 s); [|discriminate].
    destruct (select_all pop (s_keep s)) as [pop1|] eqn:K; [|discriminate].
    pose proof (select_all_ok okv _ _ _ HP K) as HP1.
    destruct (swarm_move ltb add params bounce mut prob 0 pop1 (s_vel s) (s_tapes s)) as [moved|] eqn:M; [|discriminate].
    pose proof (swarm_move_ok _ _ _ _ _ _ _ _ HP1 M) as OM.
    destruct (evaluate_all_ok _ _ _ _ OM HR HS) as (A & B & _). split; assumption.
  Qed.

  Theorem step_in_box_omopso prob pop s sub pop' :
    okl pop -> script_ok s ->
    omopso_step ltb add flip params prob pop s = Some (sub, pop') -> okl sub /\ okl pop'.
  Proof. apply swarm_step_ok. Qed.

  Theorem step_in_box_smpso prob pop s sub pop' :
    okl pop -> script_ok s ->
    smpso_step ltb add damp params prob pop s = Some (sub, pop') -> okl sub /\ okl pop'.
  Proof. apply swarm_step_ok. Qed.

  Theorem step_in_box_psoga pc pm pop s sub pop' :
    okl pop -> script_ok s ->
    psoga_step ltb far half add flip params pc pm pop s = Some (sub, pop') -> okl sub /\ okl pop'.
  Proof.
    intros HP [HR HR2] HS. unfold psoga_step in HS.
    destruct (s_events s) as [|b [|? ?]]; try discriminate.
    destruct (s_keep_arch s); [|discriminate].
    destruct (select_all pop (s_keep s)) as [pop1|] eqn:K; [|discriminate].
    pose proof (select_all_ok okv _ _ _ HP K) as HP1.
    destruct (swarm_move ltb add params flip (fun _ => None) pm 0 pop1 (s_vel s) (s_tapes s)) as [moved|] eqn:M; [|discriminate].
    pose proof (swarm_move_ok _ _ _ _ _ _ _ _ HP1 M) as OM.
    destruct (evaluate_all moved (s_rerolls s)) as [[sub1 offs]|] eqn:E1; [|discriminate].
    destruct (evaluate_all_ok _ _ _ _ OM HR E1) as (A1 & B1 & _).
    destruct (breed_pair ltb far half params pc pm offs b) as [[c1 c2]|] eqn:EB; [|discriminate].
    destruct (breed_pair_ok _ _ _ _ _ _ B1 EB) as [C1 C2].
    destruct (evaluate_all [c1; c2] (s_rerolls2 s)) as [[sub2 fin2]|] eqn:E2; [|discriminate].
    assert (OC : okl [c1; c2]) by (repeat constructor; assumption).
    destruct (evaluate_all_ok _ _ _ _ OC HR2 E2) as (A2 & B2 & _).
    inversion HS; subst. split; apply Forall_app; split; assumption.
  Qed.

  (* --- induction over the generations ---------------------------------------------------------------- *)
  Lemma iterate_ok {S : Type} (Inv : S -> Prop) (step : S -> script (T:=T) -> option (list (list T) * S)) :
    (forall st s sub st', Inv st -> script_ok s -> step st s = Some (sub, st') -> okl sub /\ Inv st') ->
    forall ss st sub st', Inv st -> Forall script_ok ss -> iterate step st ss = Some (sub, st') ->
    okl sub /\ Inv st'.
  Proof.
    intros HStep. induction ss as [|s ss IH]; intros st sub st' HI HS HR; cbn in HR.
    - inversion HR; subst. split; [constructor|exact HI].
    - inversion HS as [|? ? Hs HS']; subst.
      destruct (step st s) as [[sb st1]|] eqn:E; [|discriminate].
      destruct (iterate step st1 ss) as [[sb' st2]|] eqn:E'; [|discriminate]. inversion HR; subst.
      destruct (HStep _ _ _ _ HI Hs E) as [A I1]. destruct (IH _ _ _ I1 HS' E') as [A' I2].
      split; [apply Forall_app; split; assumption | exact I2].
  Qed.

  Lemma run_with_ok {S : Type} (Inv : S -> Prop) (init : list (list T) -> S) step :
    (forall p, okl p -> Inv (init p)) ->
    (forall st s sub st', Inv st -> script_ok s -> step st s = Some (sub, st') -> okl sub /\ Inv st') ->
    forall pop0 rr0 ss sub st, okl pop0 -> Forall okl rr0 -> Forall script_ok ss ->
    run_with init step pop0 rr0 ss = Some (sub, st) -> okl sub /\ Inv st.
  Proof.
    intros HInit HStep pop0 rr0 ss sub st H0 HR HS HRun. unfold run_with in HRun.
    destruct (evaluate_all pop0 rr0) as [[sub0 pop]|] eqn:E; [|discriminate].
    destruct (iterate step (init pop) ss) as [[sb st1]|] eqn:EI; [|discriminate]. inversion HRun; subst.
    destruct (evaluate_all_ok _ _ _ _ H0 HR E) as (A & B & _).
    destruct (iterate_ok Inv step HStep _ _ _ _ (HInit _ B) HS EI) as [A' I].
    split; [apply Forall_app; split; assumption | exact I].
  Qed.

  Theorem run_in_box_nsga2 N pc pm pop0 rr0 ss sub pop :
    okl pop0 -> Forall okl rr0 -> Forall script_ok ss ->
    run_nsga2 ltb far half close params N pc pm pop0 rr0 ss = Some (sub, pop) -> okl sub /\ okl pop.
  Proof.
    apply (run_with_ok okl (fun p => p)); [auto|]. intros st s sb st'. apply step_in_box_nsga2.
  Qed.

  Theorem run_in_box_epsmoea N pc pm arch0 pop0 rr0 ss sub st :
    okl pop0 -> Forall okl rr0 -> Forall script_ok ss ->
    run_epsmoea ltb far half close params N pc pm arch0 pop0 rr0 ss = Some (sub, st) -> okl sub /\ ok_state2 st.
  Proof.
    intros H0 HR HS HRun. unfold run_epsmoea in HRun.
    destruct (evaluate_all pop0 rr0) as [[sub0 pop]|] eqn:E; [|discriminate].
    destruct (select_all pop arch0) as [arch|] eqn:EA; [|discriminate].
    destruct (iterate (epsmoea_step ltb far half close params N pc pm) (pop, arch) ss) as [[sb st1]|] eqn:EI; [|discriminate].
    inversion HRun; subst.
    destruct (evaluate_all_ok _ _ _ _ H0 HR E) as (A & B & _).
    assert (I0 : ok_state2 (pop, arch)) by (split; [exact B | eapply select_all_ok; [exact B|exact EA]]).
    destruct (iterate_ok ok_state2 _ (fun st s sb st' => step_in_box_epsmoea N pc pm st s sb st') _ _ _ _ I0 HS EI) as [A' I].
    split; [apply Forall_app; split; assumption | exact I].
  Qed.

  Theorem run_in_box_omopso prob pop0 rr0 ss sub pop :
    okl pop0 -> Forall okl rr0 -> Forall script_ok ss ->
    run_omopso ltb add flip params prob pop0 rr0 ss = Some (sub, pop) -> okl sub /\ okl pop.
  Proof.
    apply (run_with_ok okl (fun p => p)); [auto|]. intros st s sb st'. apply step_in_box_omopso.
  Qed.

  Theorem run_in_box_smpso prob pop0 rr0 ss sub pop :
    okl pop0 -> Forall okl rr0 -> Forall script_ok ss ->
    run_smpso ltb add damp params prob pop0 rr0 ss = Some (sub, pop) -> okl sub /\ okl pop.
  Proof.
    apply (run_with_ok okl (fun p => p)); [auto|]. intros st s sb st'. apply step_in_box_smpso.
  Qed.

  Theorem run_in_box_psoga pc pm pop0 rr0 ss sub pop :
    okl pop0 -> Forall okl rr0 -> Forall script_ok ss ->
    run_psoga ltb far half add flip params pc pm pop0 rr0 ss = Some (sub, pop) -> okl sub /\ okl pop.
  Proof.
    apply (run_with_ok okl (fun p => p)); [auto|]. intros st s sb st'. apply step_in_box_psoga.
  Qed.
End RunP.
