(* Proofs for Model/Swarm.v (property C18). *)
From Coq Require Import List Bool ZArith Arith Lia Permutation.
From Artap Require Import Base.Ord Base.StableSort Model.Dominance Model.Archive Model.Variation Model.Swarm
  Proofs.DominanceProofs Proofs.ArchiveProofs Proofs.ArchiveParetoInst Proofs.VariationProofs.
Import ListNotations.

(* ---------- the comparators of the leaders archive, on individuals (id, costs_signed) ---------- *)
Section LeaderCmp.
  Context {T : Type} (ltb : T -> T -> bool).
  Variable sc : nat -> T -> T.                 (* scaling of coordinate i: x / eps_(i mod k) *)
  Variable dist : @aind T -> T.                (* tie-break sum of an individual (math.pow oracle) *)

  (* Archive() is built with its default comparator EpsilonDominance(epsilons=[0.1, 0.1]) *)
  Definition lecmp (x y : @aind T) : nat :=
    eps_compare ltb sc (dist x) (dist y) (acost x) (acost y).
End LeaderCmp.
