(* Proofs for Model/Swarm.v (property C18). *)
From Coq Require Import List Bool ZArith Arith Lia Permutation.
From Artap Require Import Base.Ord Base.StableSort Model.Dominance Model.Archive Model.Variation Model.Swarm
  Proofs.DominanceProofs Proofs.ArchiveProofs Proofs.ArchiveParetoInst Proofs.VariationProofs.
Import ListNotations.

(* ---------- the comparators of the leaders archive, on individuals (id, costs_signed) ---------- *)
Section LeaderCmp.
  Context {T : Type} (ltb : T -> T -> bool).
  Variable sc : nat -> T -> T.                 (* scaling of coordinate i: x / eps_(i mod k) *)
  Variable dist : @aind T -> T.                (* tie-break sum of an individual (math.pow oracle) *)

  (* Archive() is built with its default comparator EpsilonDominance(epsilons=[0.1, 0.1]) *)
  Definition lecmp (x y : @aind T) : nat :=
    eps_compare ltb sc (dist x) (dist y) (acost x) (acost y).
End LeaderCmp.

(* ---------- update_particle_best ---------- *)
Section PBestP.
  Context {T : Type}.
  Variable cmp : scost (T:=T) -> scost (T:=T) -> nat.

  (* one particle: the record is replaced by the particle's (costs, vector) unless the verdict of
     compare(costs, best_cost) is 2 ("best_cost dominates") *)
  Lemma pbest_step_spec (p : particle (T:=T)) (b : pbest (T:=T)) :
    (cmp (p_cost p) (fst b) = 2 -> pbest_step cmp p b = b) /\
    (cmp (p_cost p) (fst b) <> 2 -> pbest_step cmp p b = (p_cost p, p_vec p)).
  Proof.
    unfold pbest_step. split; intros E.
    - rewrite E. reflexivity.
    - destruct (Nat.eqb (cmp (p_cost p) (fst b)) 2) eqn:F; [apply Nat.eqb_eq in F; contradiction | reflexivity].
  Qed.

  Lemma set_nth_length {A} (x : A) : forall n l, length (set_nth n x l) = length l.
  Proof. induction n as [|n IH]; intros [|h t]; cbn; auto. Qed.

  Lemma nth_error_set_nth_same {A} (x : A) : forall n l, n < length l -> nth_error (set_nth n x l) n = Some x.
  Proof.
    induction n as [|n IH]; intros [|h t] L; cbn in *; try lia; [reflexivity|]. apply IH. lia.
  Qed.

  Lemma nth_error_set_nth_other {A} (x : A) : forall n l k, n <> k -> nth_error (set_nth n x l) k = nth_error l k.
  Proof.
    induction n as [|n IH]; intros [|h t] [|k] N; cbn; try reflexivity; try congruence.
    apply IH. congruence.
  Qed.

  (* the whole sweep, shared feature dicts included: the record of dict k is the fold of the
     one-particle rule over the particles that use dict k, in population order *)
  Definition users (k : nat) (pop : list (particle (T:=T))) : list (particle (T:=T)) :=
    filter (fun p => Nat.eqb (p_feat p) k) pop.

  Theorem pbest_sweep : forall pop store,
    (forall p, In p pop -> p_feat p < length store) ->
    exists store', update_particle_best cmp pop store = Some store' /\ length store' = length store /\
      forall k b, nth_error store k = Some b ->
        nth_error store' k = Some (fold_left (fun b p => pbest_step cmp p b) (users k pop) b).
  Proof.
    induction pop as [|p pop IH]; intros store R.
    - exists store. cbn. repeat split; auto.
    - cbn [update_particle_best].
      assert (Rp : p_feat p < length store) by (apply R; left; reflexivity).
      destruct (nth_error store (p_feat p)) as [b0|] eqn:E0; [|apply nth_error_None in E0; lia].
      destruct (IH (set_nth (p_feat p) (pbest_step cmp p b0) store)) as (s' & E & Ln & Hk).
      { intros q Hq. rewrite set_nth_length. apply R. right. exact Hq. }
      exists s'. split; [exact E|]. split; [rewrite Ln; apply set_nth_length|].
      intros k b Eb. unfold users. cbn [filter].
      destruct (Nat.eqb (p_feat p) k) eqn:Ek.
      + apply Nat.eqb_eq in Ek. subst k. rewrite E0 in Eb. injection Eb as <-. cbn [fold_left].
        apply Hk. apply nth_error_set_nth_same. exact Rp.
      + apply Nat.eqb_neq in Ek. apply Hk. rewrite nth_error_set_nth_other by exact Ek. exact Eb.
  Qed.
End PBestP.

Section PBestPareto.
  Context {T : Type} (ltb : T -> T -> bool) (H : SWO ltb).

  (* with the Pareto comparator: kept exactly when the old best dominates the new position *)
  Theorem pbest_pareto_verdict (p : particle (T:=T)) (b : pbest (T:=T)) :
    (pareto_compare ltb (fst b) (p_cost p) = 1 -> pbest_step (pareto_compare ltb) p b = b) /\
    (pareto_compare ltb (fst b) (p_cost p) <> 1 -> pbest_step (pareto_compare ltb) p b = (p_cost p, p_vec p)).
  Proof.
    pose proof (pareto_antisym ltb H (p_cost p) (fst b)) as A.
    pose proof (pareto_range ltb H (p_cost p) (fst b)) as R.
    destruct (pbest_step_spec (pareto_compare ltb) p b) as [S1 S2].
    split; intros E.
    - apply S1. rewrite A in E. destruct (pareto_compare ltb (p_cost p) (fst b)) as [|[|[|n]]]; cbn in E; try discriminate; try lia.
    - apply S2. intros F. apply E. rewrite A, F. reflexivity.
  Qed.

  (* at equal feasibility marker, in terms of the textbook definition of dominance *)
  Theorem pbest_pareto_dominates (p : particle (T:=T)) pc bc m bv :
    p_cost p = (pc, m) -> length pc = length bc ->
    (dominates ltb bc pc -> pbest_step (pareto_compare ltb) p ((bc, m), bv) = ((bc, m), bv)) /\
    (~ dominates ltb bc pc -> pbest_step (pareto_compare ltb) p ((bc, m), bv) = (p_cost p, p_vec p)).
  Proof.
    intros Ec L. destruct (pbest_pareto_verdict p ((bc, m), bv)) as [S1 S2]. cbn [fst] in S1, S2. rewrite Ec in S1, S2.
    destruct (pareto_spec ltb H bc pc m (eq_sym L)) as (P1 & _ & _).
    split; intros D.
    - apply S1. apply P1. exact D.
    - rewrite Ec. apply S2. intros F. apply D. apply P1. exact F.
  Qed.
End PBestPareto.

(* ---------- speed_constriction / update_velocity ---------- *)
Section VelocityP.
  Context {T : Type} (ltb : T -> T -> bool) (HO : SWO ltb).
  Variables (add sub mul div : T -> T -> T) (neg : T -> T) (two : T).
  Local Notation half_range := (half_range sub div two).
  Local Notation speed_constriction := (speed_constriction ltb sub div neg two).
  Local Notation velocity_coords := (velocity_coords ltb add sub mul div neg two).

  (* -delta <= v <= delta, in the model's order *)
  Definition clamped (p : T * T) (v : T) : Prop :=
    let d := half_range (snd p) (fst p) in ltb v (neg d) = false /\ ltb d v = false.
  (* the computed half range is not below its own negation (true as soon as it is >= 0) *)
  Definition delta_ok (p : T * T) : Prop :=
    let d := half_range (snd p) (fst p) in ltb d (neg d) = false.

  (* complete case analysis, for every input velocity *)
  Theorem speed_constriction_spec v ub lb :
    let d := half_range ub lb in
    let r := speed_constriction v ub lb in
    ltb d (neg d) = false ->
    (ltb r (neg d) = false /\ ltb d r = false) /\
    (ltb d v = true -> r = d) /\
    (ltb v (neg d) = true -> r = neg d) /\
    (ltb d v = false -> ltb v (neg d) = false -> r = v).
  Proof.
    cbn zeta. intros Hd. unfold Swarm.speed_constriction, pmin, pmax.
    destruct (ltb (half_range ub lb) v) eqn:E1.
    - rewrite Hd. repeat split; try reflexivity; try discriminate.
      + exact Hd.
      + apply (lt_irrefl _ HO).
      + intros E2. exfalso.
        (* v < -d and not (d < -d) give v < d, against d < v *)
        assert (ltb v (half_range ub lb) = true) as E3.
        { apply (lt_le_trans ltb HO v (neg (half_range ub lb)) (half_range ub lb) E2).
          unfold leb. rewrite Hd. reflexivity. }
        rewrite (lt_asym ltb HO _ _ E1) in E3. discriminate.
    - destruct (ltb v (neg (half_range ub lb))) eqn:E2.
      + repeat split; try reflexivity; try discriminate.
        * apply (lt_irrefl _ HO).
        * exact Hd.
      + repeat split; try reflexivity; try discriminate; assumption.
  Qed.

  Corollary speed_constriction_clamped v lb ub : delta_ok (lb, ub) -> clamped (lb, ub) (speed_constriction v ub lb).
  Proof. intros Hd. apply (speed_constriction_spec v ub lb Hd). Qed.

  (* every component of the new velocity of a particle, whatever the draws, the position, the
     personal best and the leader are *)
  Theorem velocity_coords_clamped : forall k d xs ws params bs gs vs,
    Forall delta_ok params ->
    velocity_coords k d ws params xs bs gs = Some vs ->
    length vs = length xs /\ Forall2 clamped (firstn (length xs) params) vs.
  Proof.
    induction xs as [|x xs IH]; intros ws params bs gs vs W E.
    - cbn in E. destruct ws; [|discriminate]. injection E as <-. split; [reflexivity | constructor].
    - cbn [Swarm.velocity_coords] in E.
      destruct params as [|[lb ub] ps]; [discriminate|].
      destruct bs as [|b bs]; [discriminate|]. destruct gs as [|g gs]; [discriminate|].
      destruct (next_weight k d ws) as [[w ws']|]; [|discriminate].
      destruct (velocity_coords k d ws' ps xs bs gs) as [vs'|] eqn:E'; [|discriminate].
      cbn in E. injection E as <-. inversion W as [|? ? Wp W']; subst.
      destruct (IH ws' ps bs gs vs' W' E') as [L F].
      split; [cbn; congruence|]. cbn [length firstn]. constructor; [|exact F].
      apply speed_constriction_clamped. exact Wp.
  Qed.

  Lemma all_some_spec {A} : forall (l : list (option A)) r, all_some l = Some r -> l = map Some r.
  Proof.
    induction l as [|[a|] l IH]; intros r E; cbn in E; try discriminate.
    - injection E as <-. reflexivity.
    - destruct (all_some l) as [r'|]; [|discriminate]. injection E as <-. cbn. f_equal. apply IH. reflexivity.
  Qed.

  Theorem update_velocity_clamped k params swarm vss :
    Forall delta_ok params ->
    update_velocity ltb add sub mul div neg two k params swarm = Some vss ->
    Forall2 (fun p vs => length vs = length (v_vec p) /\
                         Forall2 clamped (firstn (length (v_vec p)) params) vs) swarm vss.
  Proof.
    intros W. unfold update_velocity. intros E. apply all_some_spec in E.
    revert vss E. induction swarm as [|p swarm IH]; intros [|vs vss] E; cbn in E; try discriminate; constructor.
    - injection E as E1 _. unfold velocity_particle in E1. eapply velocity_coords_clamped; eauto.
    - apply IH. injection E as _ E2. exact E2.
  Qed.
End VelocityP.

(* ---------- update_position ---------- *)
Section PositionP.
  Context {T : Type} (ltb : T -> T -> bool) (HO : SWO ltb).
  Variable add : T -> T -> T.
  Variable bounce : T -> T.

  (* a coordinate that leaves the box ends on the violated bound with its velocity bounced *)
  Lemma position_bounced lb ub x v : ltb ub lb = false ->
    ltb ub (add x v) = true \/ ltb (add x v) lb = true ->
    snd (position_coord ltb add bounce lb ub x v) = bounce v /\
    (fst (position_coord ltb add bounce lb ub x v) = ub \/ fst (position_coord ltb add bounce lb ub x v) = lb).
  Proof.
    intros Hb Hout. destruct (position_coord_spec ltb HO add bounce lb ub x v Hb) as (_ & Hu & Hl & _).
    destruct Hout as [E|E]; [rewrite (Hu E) | rewrite (Hl E)]; cbn; auto.
  Qed.

  Theorem update_position_in_box params swarm res :
    Forall (wf ltb) params -> Forall (fun p => length (fst p) = length params) swarm ->
    update_position ltb add bounce params swarm = Some res ->
    Forall2 (fun p r => in_box ltb params (fst r) /\ length (snd r) = length (snd p)) swarm res.
  Proof.
    intros W. unfold update_position. intros L E. apply all_some_spec in E.
    revert res E. induction swarm as [|p swarm IH]; intros [|r res] E; cbn in E; try discriminate; constructor.
    - injection E as E1 _. inversion L as [|? ? Lp _]; subst. destruct r as [xs' vs'].
      eapply (position_in_box ltb HO); eauto.
    - inversion L; subst. apply IH; [assumption|]. injection E as _ E2. exact E2.
  Qed.
End PositionP.

(* ---------- leaders archive: any comparator satisfying the archive laws (C04) ---------- *)
Section PairwiseX.
  Context {A : Type} (R : A -> A -> Prop).

  Lemma pairwise_forall l : pairwise R l ->
    forall l1 x l2 y l3, l = l1 ++ x :: l2 ++ y :: l3 -> R x y.
  Proof.
    induction l as [|a l IH]; intros P l1 x l2 y l3 E.
    - destruct l1; discriminate.
    - destruct P as [F P]. destruct l1 as [|b l1]; cbn in E; injection E as -> E.
      + rewrite Forall_forall in F. apply F. rewrite E. apply in_or_app. right. left. reflexivity.
      + eapply IH; eauto.
  Qed.

  Lemma pairwise_in l : pairwise R l -> (forall x y, R x y -> R y x) ->
    forall x y, In x l -> In y l -> x = y \/ R x y.
  Proof.
    induction l as [|a l IH]; intros P Sy x y Hx Hy; [contradiction|].
    destruct P as [F P]. rewrite Forall_forall in F.
    destruct Hx as [<-|Hx], Hy as [<-|Hy]; auto.
  Qed.

  (* a symmetric pairwise relation is invariant under permutation *)
  Lemma pairwise_perm l l' : (forall x y, R x y -> R y x) -> Permutation l l' -> pairwise R l -> pairwise R l'.
  Proof.
    intros Sy Pm. induction Pm as [|a l l' Pm IH|a b l|l l' l'' P1 IH1 P2 IH2]; intros P.
    - exact P.
    - destruct P as [F P]. split; [|auto]. eapply Permutation_Forall; eauto.
    - destruct P as [F1 [F2 P]]. inversion F1 as [|? ? Rab F1']; subst.
      split; [constructor; [apply Sy; exact Rab | exact F2]|]. split; assumption.
    - auto.
  Qed.

  Lemma pairwise_firstn : forall n l, pairwise R l -> pairwise R (firstn n l).
  Proof.
    induction n as [|n IH]; intros [|a l] P; cbn; auto.
    destruct P as [F P]. split; [|auto].
    apply Forall_forall. intros z Hz. rewrite Forall_forall in F. apply F.
    rewrite <- (firstn_skipn n l). apply in_or_app. left. exact Hz.
  Qed.
End PairwiseX.

Section LeadersP.
  Context {C K : Type} (cmp : C -> C -> nat) (ceq : C -> C -> bool) (key_leb : K -> C -> C -> bool).
  Variables (dom : C -> C -> bool) (wf : C -> Prop).
  Hypothesis L : ArchLaws cmp ceq dom wf.
  Local Notation Inv := (Inv ceq dom wf).
  Local Notation generation := (generation cmp ceq key_leb).
  Local Notation generations := (generations cmp ceq key_leb).
  Local Notation leaders_trace := (leaders_trace cmp ceq key_leb).

  Lemma Inv_nil : Inv [].
  Proof. split; [constructor | exact I]. Qed.

  (* non-domination and distinctness are symmetric on well-formed members, so the invariant
     survives sorting, reversing and slicing *)
  Lemma Inv_sub a a' n : Permutation a a' -> Inv a -> Inv (firstn n a').
  Proof.
    intros Pm [W P]. split.
    - apply Forall_forall. intros z Hz. rewrite Forall_forall in W. apply W.
      apply (Permutation_in _ (Permutation_sym Pm)). rewrite <- (firstn_skipn n a'). apply in_or_app. left. exact Hz.
    - (* go through the relation restricted to well-formed elements, which is symmetric *)
      set (R := fun y z => wf y /\ wf z /\ indep ceq dom y z).
      assert (PR : pairwise R a).
      { clear Pm. induction a as [|y a IH]; [exact I|]. destruct P as [F P]. inversion W as [|? ? Wy Wa]; subst.
        split; [|apply IH; assumption].
        rewrite Forall_forall in *. intros z Hz. unfold R. auto. }
      assert (Sy : forall y z, R y z -> R z y).
      { intros y z (Wy & Wz & D1 & D2 & E). unfold R, indep. repeat split; auto.
        rewrite (al_ceq_sym _ _ _ _ L z y Wz Wy). exact E. }
      pose proof (pairwise_firstn R n a' (pairwise_perm R a a' Sy Pm PR)) as PR'.
      revert PR'. generalize (firstn n a'). induction l as [|y l IH]; cbn; [auto|].
      intros [F P']. split; [|auto]. eapply Forall_impl; [|exact F]. intros z (_ & _ & D). exact D.
  Qed.

  Lemma truncate_Inv tbl a size larger : Inv a -> Inv (archive_truncate (key_leb tbl) a size larger).
  Proof.
    intros I. unfold archive_truncate. apply (Inv_sub a); [|exact I].
    destruct larger.
    - rewrite <- Permutation_rev. symmetry. apply ssort_perm.
    - symmetry. apply ssort_perm.
  Qed.

  Lemma adds_Inv xs a : Inv a -> Forall wf xs -> Inv (archive_adds cmp ceq a xs).
  Proof.
    intros I Wxs. pose proof I as [W _].
    apply (adds_inv cmp ceq dom wf L xs a a I Wxs W (incl_refl a)).
    intros w Hw. exists w. split; [exact Hw|]. right.
    apply (al_ceq_refl _ _ _ _ L). rewrite Forall_forall in W. auto.
  Qed.

  Lemma truncate_length tbl (a : list C) size larger : length (archive_truncate (key_leb tbl) a size larger) <= size.
  Proof. unfold archive_truncate. rewrite firstn_length. apply Nat.le_min_l. Qed.

  (* one generation (update_global_best) *)
  Theorem generation_inv size a g : Inv a -> Forall wf (fst g) ->
    Inv (generation size a g) /\ length (generation size a g) <= size.
  Proof.
    intros I W. unfold Swarm.generation. split; [|apply truncate_length].
    apply truncate_Inv. apply adds_Inv; assumption.
  Qed.

  Definition offers_wf (gs : list (list C * K)) : Prop := Forall (fun g => Forall wf (fst g)) gs.

  (* any sequence of generations, from any archive satisfying the invariant *)
  Theorem generations_inv size : forall gs a, Inv a -> length a <= size -> offers_wf gs ->
    Inv (generations size a gs) /\ length (generations size a gs) <= size.
  Proof.
    induction gs as [|g gs IH]; intros a I Ln W; cbn; [auto|].
    inversion W as [|? ? Wg W']; subst.
    destruct (generation_inv size a g I Wg) as [I' Ln']. apply IH; assumption.
  Qed.

  (* ... and after every generation on the way *)
  Theorem leaders_trace_inv size : forall gs a, Inv a -> offers_wf gs ->
    Forall (fun a' => Inv a' /\ length a' <= size) (leaders_trace size a gs).
  Proof.
    induction gs as [|g gs IH]; intros a I W; cbn; [constructor|].
    inversion W as [|? ? Wg W']; subst.
    destruct (generation_inv size a g I Wg) as [I' Ln']. constructor; [split; assumption|]. apply IH; assumption.
  Qed.

  Lemma Inv_nondominated a : Inv a -> pairwise (fun y z => dom y z = false /\ dom z y = false) a.
  Proof.
    intros [_ P]. revert P. induction a as [|y l IH]; cbn; [tauto|].
    intros (F & P). split; [|auto]. eapply Forall_impl; [|exact F]. intros z (A & B & _). auto.
  Qed.

End LeadersP.

(* ---------- leaders archive: the epsilon comparator the code actually installs ---------- *)
Section LeadersEps.
  Context {T : Type} (ltb : T -> T -> bool) (H : SWO ltb).
  Variable m : nat.                            (* number of objectives *)
  Variable sc : nat -> T -> T.
  Variable dist : @aind T -> T.
  (* the scaling never reverses an order: not (a < b) implies not (a/eps < b/eps) *)
  Hypothesis H_sc_mono : forall i a b, ltb a b = false -> ltb (sc i a) (sc i b) = false.
  Local Notation lecmp := (lecmp ltb sc dist).
  Local Notation better := (better ltb).
  Local Notation list_eqv := (list_eqv ltb).

  Fixpoint scaled (i : nat) (p : list T) : list T :=
    match p with [] => [] | a :: p' => sc i a :: scaled (S i) p' end.
  Lemma scaled_length : forall p i, length (scaled i p) = length p.
  Proof. induction p; intros; cbn; auto. Qed.
  Lemma ebetter_scaled : forall p q i, ebetter ltb sc i p q = better (scaled i p) (scaled i q).
  Proof. induction p as [|a p IH]; intros [|b q] i; cbn; try reflexivity. rewrite IH. reflexivity. Qed.

  Definition mag (x : @aind T) : Z := Z.abs (snd (acost x)).
  Definition sv (x : @aind T) : list T := scaled 0 (fst (acost x)).

  (* the comparator is lexicographic: |marker|, Pareto order of the scaled vectors, tie-break sum *)
  Lemma lecmp_unfold x y : lecmp x y =
    if (mag x <? mag y)%Z then 1 else if (mag y <? mag x)%Z then 2
    else if better (sv x) (sv y) && better (sv y) (sv x) then 0
    else if better (sv x) (sv y) then 1 else if better (sv y) (sv x) then 2
    else if ltb (dist x) (dist y) then 1 else 2.
  Proof.
    unfold SwarmProofs.lecmp, eps_compare, mag, sv. rewrite (marker_verdict_lex).
    destruct (Z.abs (snd (acost x)) <? Z.abs (snd (acost y)))%Z; [reflexivity|].
    destruct (Z.abs (snd (acost y)) <? Z.abs (snd (acost x)))%Z; [reflexivity|].
    rewrite (escan_spec ltb H) by reflexivity. cbn [orb]. rewrite !ebetter_scaled.
    destruct (better (scaled 0 (fst (acost x))) (scaled 0 (fst (acost y)))),
             (better (scaled 0 (fst (acost y))) (scaled 0 (fst (acost x)))); reflexivity.
  Qed.

  Definition ledom (x y : @aind T) : bool := Nat.eqb (lecmp x y) 1.
  (* "same class": same |marker|, scaled vectors equal coordinate by coordinate, equal tie-break sums *)
  Definition leceq (x y : @aind T) : bool :=
    Z.eqb (mag x) (mag y) && list_eqv (sv x) (sv y) && eqv ltb (dist x) (dist y).

  Lemma eqv_nobetter p q : list_eqv p q = true -> better p q = false /\ better q p = false.
  Proof.
    intros E. split.
    - rewrite (better_eqv_l ltb H p q q E). apply (better_irrefl ltb H).
    - rewrite (better_eqv_r ltb H p q q E). apply (better_irrefl ltb H).
  Qed.
  Lemma nobetter_eqv : forall p q : list T, length p = length q ->
    better p q = false -> better q p = false -> list_eqv p q = true.
  Proof.
    induction p as [|a p IH]; intros [|b q] Ln B1 B2; cbn in *; try discriminate; [reflexivity|].
    apply orb_false_elim in B1 as [A1 A2]. apply orb_false_elim in B2 as [A3 A4].
    unfold eqv. rewrite A1, A3. cbn. apply IH; auto.
  Qed.
  Lemma sv_length x : awf m x -> length (sv x) = m.
  Proof. unfold awf, sv. rewrite scaled_length. auto. Qed.

  Lemma lecmp_eqv_l x x' y : leceq x x' = true -> lecmp x y = lecmp x' y.
  Proof.
    unfold leceq. rewrite !andb_true_iff, Z.eqb_eq. intros [[E1 E2] E3]. rewrite !lecmp_unfold, E1.
    rewrite (better_eqv_l ltb H _ _ (sv y) E2), (better_eqv_r ltb H _ _ (sv y) E2), (lt_eqv_l ltb H _ _ (dist y) E3).
    reflexivity.
  Qed.
  Lemma lecmp_eqv_r x y y' : leceq y y' = true -> lecmp x y = lecmp x y'.
  Proof.
    unfold leceq. rewrite !andb_true_iff, Z.eqb_eq. intros [[E1 E2] E3]. rewrite !lecmp_unfold, E1.
    rewrite (better_eqv_l ltb H _ _ (sv x) E2), (better_eqv_r ltb H _ _ (sv x) E2), (lt_eqv_r ltb H _ _ (dist x) E3).
    reflexivity.
  Qed.

  Lemma leceq_refl x : leceq x x = true.
  Proof. unfold leceq. rewrite Z.eqb_refl, (list_eqv_refl ltb H), (eqv_refl ltb H). reflexivity. Qed.
  Lemma leceq_sym x y : leceq x y = leceq y x.
  Proof. unfold leceq. rewrite Z.eqb_sym, (list_eqv_sym ltb), (eqv_sym ltb). reflexivity. Qed.
  Lemma leceq_trans x y z : leceq x y = true -> leceq y z = true -> leceq x z = true.
  Proof.
    unfold leceq. rewrite !andb_true_iff, !Z.eqb_eq. intros [[A1 A2] A3] [[B1 B2] B3].
    repeat split; [congruence | eapply (list_eqv_trans ltb H); eauto | eapply (eqv_trans ltb H); eauto].
  Qed.

  (* strict part of the lexicographic order *)
  Definition PD (p q : list T) : Prop := better p q = true /\ better q p = false.
  Definition NB (p q : list T) : Prop := better p q = false /\ better q p = false.
  Lemma ledom_iff x y : ledom x y = true <->
    (mag x < mag y)%Z \/ (mag x = mag y /\ (PD (sv x) (sv y) \/ (NB (sv x) (sv y) /\ ltb (dist x) (dist y) = true))).
  Proof.
    unfold ledom, PD, NB. rewrite Nat.eqb_eq, lecmp_unfold.
    destruct (Z.ltb_spec (mag x) (mag y)) as [A|A]; [split; auto|].
    destruct (Z.ltb_spec (mag y) (mag x)) as [B|B].
    { split; [discriminate|]. intros [C|[C _]]; lia. }
    assert (E : mag x = mag y) by lia.
    destruct (better (sv x) (sv y)) eqn:B1, (better (sv y) (sv x)) eqn:B2; cbn.
    - split; [discriminate|]. intros [C|[_ [[_ C]|[[C _] _]]]]; try lia; discriminate.
    - split; [intros _; right; auto|reflexivity].
    - split; [discriminate|]. intros [C|[_ [[C _]|[[_ C] _]]]]; try lia; discriminate.
    - destruct (ltb (dist x) (dist y)) eqn:D.
      + split; [intros _; right; split; [exact E|right; auto]|reflexivity].
      + split; [discriminate|]. intros [C|[_ [[C _]|[_ C]]]]; try lia; discriminate.
  Qed.

  Lemma PD_trans p q r : length p = length q -> length q = length r -> PD p q -> PD q r -> PD p r.
  Proof.
    intros L1 L2 [A B] [C D]. split.
    - apply (better_weak_trans ltb H p q r L1 L2 B D A).
    - apply (better_trans ltb H p q r L1 L2 B D).
  Qed.
  Lemma PD_NB p q r : length q = length r -> PD p q -> NB q r -> PD p r.
  Proof.
    intros L2 [A B] [C D]. pose proof (nobetter_eqv q r L2 C D) as E. unfold PD.
    rewrite <- (better_eqv_r ltb H q r p E), <- (better_eqv_l ltb H q r p E). auto.
  Qed.
  Lemma NB_PD p q r : length p = length q -> NB p q -> PD q r -> PD p r.
  Proof.
    intros L1 [A B] [C D]. pose proof (nobetter_eqv p q L1 A B) as E. unfold PD.
    rewrite (better_eqv_l ltb H p q r E), (better_eqv_r ltb H p q r E). auto.
  Qed.
  Lemma NB_trans p q r : length p = length q -> length q = length r -> NB p q -> NB q r -> NB p r.
  Proof.
    intros L1 L2 [A B] [C D]. apply eqv_nobetter.
    eapply (list_eqv_trans ltb H); [apply nobetter_eqv; eauto | apply nobetter_eqv; eauto].
  Qed.

  Lemma ledom_trans x y z : awf m x -> awf m y -> awf m z ->
    ledom x y = true -> ledom y z = true -> ledom x z = true.
  Proof.
    intros Wx Wy Wz. rewrite !ledom_iff.
    pose proof (sv_length x Wx) as Lx. pose proof (sv_length y Wy) as Ly. pose proof (sv_length z Wz) as Lz.
    assert (L1 : length (sv x) = length (sv y)) by congruence.
    assert (L2 : length (sv y) = length (sv z)) by congruence.
    intros [A|[A A']] [B|[B B']]; try (left; lia).
    right. split; [congruence|].
    destruct A' as [A'|[A' A'']], B' as [B'|[B' B'']].
    - left. eapply PD_trans; eauto.
    - left. eapply PD_NB; eauto.
    - left. eapply NB_PD; eauto.
    - right. split; [eapply NB_trans; eauto | eapply (lt_trans _ H); eauto].
  Qed.

  Theorem eps_leader_laws : ArchLaws lecmp leceq ledom (awf m).
  Proof.
    constructor.
    - intros x _. unfold ledom. rewrite lecmp_unfold, Z.ltb_irrefl, (better_irrefl ltb H), (lt_irrefl _ H). reflexivity.
    - exact ledom_trans.
    - intros x _. apply leceq_refl.
    - intros x y _ _. apply leceq_sym.
    - intros x y z _ _ _. apply leceq_trans.
    - intros x x' y _ _ _ E. unfold ledom. rewrite (lecmp_eqv_l x x' y E). reflexivity.
    - intros x y y' _ _ _ E. unfold ledom. rewrite (lecmp_eqv_r x y y' E). reflexivity.
    - intros x y _ _. reflexivity.
    - intros x y Wx Wy. unfold stops, ledom. rewrite (lecmp_unfold x y), (lecmp_unfold y x). unfold leceq.
      destruct (Z.ltb_spec (mag x) (mag y)) as [A|A].
      { assert ((mag y <? mag x)%Z = false) as -> by (apply Z.ltb_ge; lia).
        assert ((mag x =? mag y)%Z = false) as -> by (apply Z.eqb_neq; lia). reflexivity. }
      destruct (Z.ltb_spec (mag y) (mag x)) as [B|B]; [reflexivity|].
      assert ((mag x =? mag y)%Z = true) as -> by (apply Z.eqb_eq; lia).
      destruct (better (sv x) (sv y)) eqn:B1, (better (sv y) (sv x)) eqn:B2; cbn [andb orb Nat.eqb].
      + reflexivity.
      + destruct (list_eqv (sv x) (sv y)) eqn:E; [|reflexivity].
        destruct (eqv_nobetter _ _ E). congruence.
      + reflexivity.
      + assert (E : list_eqv (sv x) (sv y) = true).
        { apply nobetter_eqv; auto. rewrite (sv_length x Wx), (sv_length y Wy). reflexivity. }
        rewrite E. unfold eqv. cbn [andb].
        destruct (ltb (dist x) (dist y)) eqn:D1.
        * rewrite (lt_asym ltb H _ _ D1). reflexivity.
        * destruct (ltb (dist y) (dist x)); reflexivity.
  Qed.

  (* The archive's `is_contained` test (costs_signed == costs_signed, Python list equality) is only
     reached on verdict 0, where neither it nor leceq can hold: the two give the same archive. *)
  Lemma sc_eqv i a b : eqv ltb a b = true -> eqv ltb (sc i a) (sc i b) = true.
  Proof.
    unfold eqv. rewrite !andb_true_iff, !negb_true_iff. intros [A B]. split; apply H_sc_mono; assumption.
  Qed.
  Lemma scaled_eqv : forall p q i, list_eqv p q = true -> list_eqv (scaled i p) (scaled i q) = true.
  Proof.
    induction p as [|a p IH]; intros [|b q] i E; cbn in *; try discriminate; [reflexivity|].
    apply andb_true_iff in E as [E1 E2]. rewrite (sc_eqv i a b E1), (IH q (S i) E2). reflexivity.
  Qed.
  Lemma scaled_better : forall p q i, better (scaled i p) (scaled i q) = true -> better p q = true.
  Proof.
    induction p as [|a p IH]; intros [|b q] i E; cbn in *; try discriminate.
    apply orb_true_iff in E as [E|E].
    - destruct (ltb a b) eqn:F; [reflexivity|]. rewrite (H_sc_mono i a b F) in E. discriminate.
    - rewrite (IH q (S i) E). apply orb_true_r.
  Qed.

  Lemma ceq_dead x y : lecmp x y = 0 -> aceq ltb x y = leceq x y.
  Proof.
    rewrite lecmp_unfold.
    destruct (mag x <? mag y)%Z; [discriminate|]. destruct (mag y <? mag x)%Z; [discriminate|].
    destruct (better (sv x) (sv y)) eqn:B1, (better (sv y) (sv x)) eqn:B2; cbn [andb]; try discriminate.
    - intros _. unfold aceq, leceq.
      destruct (list_eqv (fst (acost x)) (fst (acost y))) eqn:E.
      + pose proof (scaled_eqv _ _ 0 E) as E'. destruct (eqv_nobetter _ _ E'). unfold sv in B1. congruence.
      + destruct (list_eqv (sv x) (sv y)) eqn:E'.
        * destruct (eqv_nobetter _ _ E'). congruence.
        * rewrite andb_false_r. reflexivity.
    - destruct (ltb (dist x) (dist y)); discriminate.
  Qed.

  Lemma add_loop_ceq_ext (cmp : @aind T -> @aind T -> nat) (c1 c2 : @aind T -> @aind T -> bool) x :
    forall snap index deleted live,
      (forall y, In y snap -> cmp x y = 0 -> c1 x y = c2 x y) ->
      add_loop cmp c1 x snap index deleted live = add_loop cmp c2 x snap index deleted live.
  Proof.
    induction snap as [|y snap IH]; intros index deleted live E; cbn; [reflexivity|].
    assert (E' : forall z, In z snap -> cmp x z = 0 -> c1 x z = c2 x z) by (intros; apply E; [right|]; assumption).
    destruct (cmp x y) as [|[|[|n]]] eqn:F; auto.
    rewrite (E y (or_introl eq_refl) F). destruct (c2 x y); auto.
  Qed.

  Lemma archive_add_ceq a x : archive_add lecmp (aceq ltb) a x = archive_add lecmp leceq a x.
  Proof.
    unfold archive_add. destruct a as [|y a]; [reflexivity|].
    rewrite (add_loop_ceq_ext lecmp (aceq ltb) leceq x (y :: a) 0 0 (y :: a)); [reflexivity|].
    intros z _ E. apply ceq_dead. exact E.
  Qed.
  Lemma archive_adds_ceq : forall xs a, archive_adds lecmp (aceq ltb) a xs = archive_adds lecmp leceq a xs.
  Proof.
    unfold archive_adds. induction xs as [|x xs IH]; intros a; cbn; [reflexivity|].
    rewrite archive_add_ceq. apply IH.
  Qed.

  Context {K : Type} (key_leb : K -> @aind T -> @aind T -> bool).

  Lemma leaders_trace_ceq size : forall gs a,
    leaders_trace lecmp (aceq ltb) key_leb size a gs = leaders_trace lecmp leceq key_leb size a gs.
  Proof.
    induction gs as [|g gs IH]; intros a; cbn; [reflexivity|].
    unfold generation. rewrite archive_adds_ceq. f_equal. apply IH.
  Qed.

  (* members that are independent for the epsilon order are incomparable for Pareto dominance *)
  Lemma indep_pareto y z : awf m y -> awf m z -> indep leceq ledom y z ->
    pareto_compare ltb (acost y) (acost z) = 0.
  Proof.
    intros Wy Wz (D1 & D2 & E). unfold ledom in D1, D2. apply Nat.eqb_neq in D1, D2.
    rewrite lecmp_unfold in D1. rewrite lecmp_unfold in D2. unfold leceq in E.
    destruct y as [i [p pm]], z as [j [q qm]].
    unfold mag, sv in *. cbn [acost fst snd] in *. rewrite (pareto_lex ltb).
    destruct (Z.ltb_spec (Z.abs pm) (Z.abs qm)) as [A|A]; [congruence|].
    destruct (Z.ltb_spec (Z.abs qm) (Z.abs pm)) as [B|B]; [congruence|].
    assert ((Z.abs pm =? Z.abs qm)%Z = true) as Em by (apply Z.eqb_eq; lia). rewrite Em in E.
    destruct (better (scaled 0 p) (scaled 0 q)) eqn:B1, (better (scaled 0 q) (scaled 0 p)) eqn:B2;
      cbn [andb] in D1, D2; try congruence.
    - rewrite (cmp0_spec ltb H), (scaled_better _ _ _ B1), (scaled_better _ _ _ B2). reflexivity.
    - exfalso. assert (El : list_eqv (scaled 0 p) (scaled 0 q) = true).
      { apply nobetter_eqv; auto. rewrite !scaled_length. unfold awf in *. cbn in *. congruence. }
      rewrite El in E. cbn [andb] in E. unfold eqv in E.
      destruct (ltb (dist (i, (p, pm))) (dist (j, (q, qm)))); [congruence|].
      destruct (ltb (dist (j, (q, qm))) (dist (i, (p, pm)))); [congruence|]. discriminate.
  Qed.

  (* the leaders archive of the code (epsilon comparator, Python equality test): after every
     generation at most `size` members, mutually non-dominated in the Pareto sense *)
  Theorem leaders_eps size gs :
    offers_wf (awf m) gs ->
    Forall (fun a => length a <= size /\
                     pairwise (fun y z => pareto_compare ltb (acost y) (acost z) = 0) a)
           (leaders_trace lecmp (aceq ltb) key_leb size [] gs).
  Proof.
    intros W. rewrite leaders_trace_ceq.
    pose proof (leaders_trace_inv lecmp leceq key_leb ledom (awf m) eps_leader_laws size gs []
                  (Inv_nil leceq ledom (awf m)) W) as F.
    eapply Forall_impl; [|exact F]. cbn beta. intros a [[Wa P] Ln]. split; [exact Ln|].
    clear F Ln. induction a as [|y a IH]; [exact I|]. destruct P as [Fy P]. inversion Wa as [|? ? Wy Wa']; subst.
    split; [|apply IH; assumption].
    rewrite Forall_forall in *. intros z Hz. apply indep_pareto; auto.
  Qed.
End LeadersEps.

(* ---------- leaders archive with the Pareto comparator (what Archive(dominance=ParetoDominance()) gives) ---------- *)
Section LeadersPareto.
  Context {T : Type} (ltb : T -> T -> bool) (H : SWO ltb).
  Variable m : nat.
  Context {K : Type} (key_leb : K -> @aind T -> @aind T -> bool).

  Theorem leaders_pareto size gs :
    offers_wf (awf m) gs ->
    Forall (fun a => length a <= size /\
                     pairwise (fun y z => pareto_compare ltb (acost y) (acost z) = 0) a)
           (leaders_trace (acmp ltb) (aceq ltb) key_leb size [] gs).
  Proof.
    intros W.
    pose proof (leaders_trace_inv (acmp ltb) (aceq ltb) key_leb (adom ltb) (awf m) (pareto_arch_laws ltb H m) size gs []
                  (Inv_nil (aceq ltb) (adom ltb) (awf m)) W) as F.
    eapply Forall_impl; [|exact F]. cbn beta. intros a [[Wa P] Ln]. split; [exact Ln|].
    clear F Ln Wa. induction a as [|y a IH]; [exact I|]. destruct P as [Fy P].
    split; [|apply IH; assumption].
    eapply Forall_impl; [|exact Fy]. intros z (D1 & D2 & _). unfold adom, acmp in D1, D2.
    apply Nat.eqb_neq in D1, D2.
    pose proof (pareto_antisym ltb H (acost y) (acost z)) as A.
    pose proof (pareto_range ltb H (acost y) (acost z)) as R.
    destruct (pareto_compare ltb (acost y) (acost z)) as [|[|[|n]]]; cbn in A; try lia; congruence.
  Qed.
End LeadersPareto.

(* ---------- binary64: a non-negative (or NaN) half range is not below its negation ---------- *)
From Coq Require Import Floats.
From Artap Require Import Base.FloatInst.

Lemma fkey_opp x : PrimFloat.is_nan x = false ->
  fkey (- x)%float = (let '(a, b, c) := fkey x in (- a, - b, - c))%Z.
Proof.
  intros N. unfold fkey. rewrite opp_spec.
  assert (Prim2SF x <> S754_nan) as NN by (intro E; apply is_nan_spec in E; congruence).
  destruct (Prim2SF x) as [s|s| |s mm e]; try congruence; try destruct s; cbn; rewrite ?Z.opp_involutive; reflexivity.
Qed.

Lemma fneg_le (d : float) : fltb d 0%float = false -> fltb d (- d)%float = false.
Proof.
  intros Hd. destruct (PrimFloat.is_nan d) eqn:N.
  - unfold fltb. rewrite N. reflexivity.
  - destruct (fltb d (- d)%float) eqn:E; [|reflexivity]. exfalso.
    apply fltb_spec in E. rewrite (fkey_opp d N) in E.
    assert (Hz : ~ klt (fkey d) (fkey 0%float)) by (rewrite <- fltb_spec; congruence).
    change (fkey 0%float) with (0, 0, 0)%Z in Hz.
    destruct (fkey d) as [[a b] c]. unfold klt in *. lia.
Qed.

Theorem speed_constriction_float (v ub lb : float) :
  let d := ((ub - lb) / 0x1p+1)%float in
  let r := speed_constriction fltb PrimFloat.sub PrimFloat.div PrimFloat.opp 0x1p+1%float v ub lb in
  fltb d 0%float = false ->
  (fltb r (- d)%float = false /\ fltb d r = false) /\ (r = v \/ r = d \/ r = (- d)%float).
Proof.
  cbn zeta. intros Hd.
  pose proof (speed_constriction_spec fltb fltb_SWO PrimFloat.sub PrimFloat.div PrimFloat.opp 0x1p+1%float v ub lb
                (fneg_le _ Hd)) as (A & B & C & D).
  split; [exact A|].
  unfold half_range in *.
  destruct (fltb ((ub - lb) / 0x1p+1)%float v) eqn:E1; [right; left; apply B; reflexivity|].
  destruct (fltb v (- ((ub - lb) / 0x1p+1))%float) eqn:E2; [right; right; apply C; reflexivity|].
  left. apply D; reflexivity.
Qed.

(* the bound on the archive size needs nothing about the comparator *)
Section LeadersBound.
  Context {C K : Type} (cmp : C -> C -> nat) (ceq : C -> C -> bool) (key_leb : K -> C -> C -> bool).
  Theorem leaders_trace_bounded size : forall gs a,
    Forall (fun a' => length a' <= size) (leaders_trace cmp ceq key_leb size a gs).
  Proof.
    induction gs as [|g gs IH]; intros a; cbn; constructor; [|apply IH].
    unfold generation, archive_truncate. rewrite firstn_length. apply Nat.le_min_l.
  Qed.
  Theorem generations_bounded size : forall gs a, length a <= size ->
    length (generations cmp ceq key_leb size a gs) <= size.
  Proof.
    induction gs as [|g gs IH]; intros a Ln; cbn; [exact Ln|]. apply IH.
    unfold generation, archive_truncate. rewrite firstn_length. apply Nat.le_min_l.
  Qed.

  Variables (dom : C -> C -> bool) (wf : C -> Prop).
  Hypothesis L : ArchLaws cmp ceq dom wf.
  Theorem leaders_trace_nondominated size gs : offers_wf wf gs ->
    Forall (fun a' => pairwise (fun y z => dom y z = false /\ dom z y = false) a')
           (leaders_trace cmp ceq key_leb size [] gs).
  Proof.
    intros W. pose proof (leaders_trace_inv cmp ceq key_leb dom wf L size gs [] (Inv_nil ceq dom wf) W) as F.
    eapply Forall_impl; [|exact F]. cbn beta. intros a [I _]. apply (Inv_nondominated ceq dom wf). exact I.
  Qed.
End LeadersBound.
